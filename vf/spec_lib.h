/* spec_lib.h -- pure specification helpers shared by the CBMC harness and the native replay.
 * The same contract text (ASSUME/CHECK lines of an obligation) is compiled in both worlds, so
 * the verifier and the replay judge a run by the same words.  Nothing in here reads Au. */
#ifndef VF_SPEC_LIB_H
#define VF_SPEC_LIB_H
#include <stdint.h>
#include <stddef.h>
#include <stdbool.h>
#include <float.h>
#include <limits.h>

typedef __int128 i128;
typedef unsigned __int128 u128;
typedef int8_t i8; typedef uint8_t u8; typedef int16_t i16; typedef uint16_t u16;
typedef int32_t i32; typedef uint32_t u32; typedef int64_t i64; typedef uint64_t u64;
typedef float f32; typedef double f64;

#define MIN_i8 ((i128)INT8_MIN)
#define MAX_i8 ((i128)INT8_MAX)
#define MIN_u8 ((i128)0)
#define MAX_u8 ((i128)UINT8_MAX)
#define MIN_i16 ((i128)INT16_MIN)
#define MAX_i16 ((i128)INT16_MAX)
#define MIN_u16 ((i128)0)
#define MAX_u16 ((i128)UINT16_MAX)
#define MIN_i32 ((i128)INT32_MIN)
#define MAX_i32 ((i128)INT32_MAX)
#define MIN_u32 ((i128)0)
#define MAX_u32 ((i128)UINT32_MAX)
#define MIN_i64 ((i128)INT64_MIN)
#define MAX_i64 ((i128)INT64_MAX)
#define MIN_u64 ((i128)0)
#define MAX_u64 ((i128)UINT64_MAX)
#define MIN_OF(t) MIN_##t
#define MAX_OF(t) MAX_##t
#define FITS(t, v) ((i128)(v) >= MIN_##t && (i128)(v) <= MAX_##t)

/* 128-bit constants are written as I128(hi, lo) by the generators (no 128-bit literals in C) */
#define I128(hi, lo) ((i128)(((u128)(uint64_t)(hi) << 64) | (u128)(uint64_t)(lo)))
#define U128(hi, lo) (((u128)(uint64_t)(hi) << 64) | (u128)(uint64_t)(lo))

static inline uint32_t vf_f32_bits(float f) { union { uint32_t i; float f; } u; u.f = f; return u.i; }
static inline uint64_t vf_f64_bits(double f) { union { uint64_t i; double f; } u; u.f = f; return u.i; }
static inline float vf_bits_f32(uint32_t b) { union { uint32_t i; float f; } u; u.i = b; return u.f; }
static inline double vf_bits_f64(uint64_t b) { union { uint64_t i; double f; } u; u.i = b; return u.f; }
#define VF_ISNAN(x) ((x) != (x))
#define VF_ISFINITE_F32(x) (((vf_f32_bits(x) >> 23) & 0xffu) != 0xffu)
#define VF_ISFINITE_F64(x) (((vf_f64_bits(x) >> 52) & 0x7ffu) != 0x7ffu)

/* powers of ten (ghost table for the digit-count contracts) */
static const uint64_t vf_p10[20] = {1ULL, 10ULL, 100ULL, 1000ULL, 10000ULL, 100000ULL, 1000000ULL, 10000000ULL, 100000000ULL, 1000000000ULL,
  10000000000ULL, 100000000000ULL, 1000000000000ULL, 10000000000000ULL, 100000000000000ULL, 1000000000000000ULL, 10000000000000000ULL,
  100000000000000000ULL, 1000000000000000000ULL, 10000000000000000000ULL};

/* "the raw expression is defined": overflow predicates of the C abstract machine */
#ifdef VF_CBMC
#define VF_MUL_OVF(T, a, b) __CPROVER_overflow_mult((T)(a), (T)(b))
#define VF_ADD_OVF(T, a, b) __CPROVER_overflow_plus((T)(a), (T)(b))
#define VF_SUB_OVF(T, a, b) __CPROVER_overflow_minus((T)(a), (T)(b))
#else
#define VF_MUL_OVF(T, a, b) ({ T vf_r_; __builtin_mul_overflow((T)(a), (T)(b), &vf_r_); })
#define VF_ADD_OVF(T, a, b) ({ T vf_r_; __builtin_add_overflow((T)(a), (T)(b), &vf_r_); })
#define VF_SUB_OVF(T, a, b) ({ T vf_r_; __builtin_sub_overflow((T)(a), (T)(b), &vf_r_); })
#endif

/* lemma-based obligations: 64-bit multiplication / division by a non-constant operand and the mathematical specification functions are
   UNINTERPRETED functions for the verifier; every arithmetic fact about them enters as an instance of a Lean-checked lemma (vf/lemma.py) */
#if defined(VF_CBMC) && defined(LL2C_UF_ARITH)
uint64_t __CPROVER_uninterpreted_umul64(uint64_t, uint64_t);
_Bool __CPROVER_uninterpreted_umulovf64(uint64_t, uint64_t);
uint64_t __CPROVER_uninterpreted_udiv64(uint64_t, uint64_t);
uint64_t __CPROVER_uninterpreted_urem64(uint64_t, uint64_t);
uint64_t __CPROVER_uninterpreted_mulmod(uint64_t, uint64_t, uint64_t);
uint64_t __CPROVER_uninterpreted_powmod(uint64_t, uint64_t, uint64_t);
uint64_t __CPROVER_uninterpreted_gcd(uint64_t, uint64_t);
_Bool __CPROVER_uninterpreted_issquare(uint64_t);
uint64_t __CPROVER_uninterpreted_isqrt(uint64_t);
uint64_t __CPROVER_uninterpreted_pow(uint64_t, uint64_t);
uint64_t __CPROVER_uninterpreted_jac(uint64_t, uint64_t);
_Bool __CPROVER_uninterpreted_powfits(uint64_t, uint64_t);
_Bool __CPROVER_uninterpreted_poweq(uint64_t, uint64_t, uint64_t, uint64_t, uint64_t);
#define LL2C_UMUL64(x, y) __CPROVER_uninterpreted_umul64((uint64_t)(x), (uint64_t)(y))
#define LL2C_UMULOVF64(x, y) __CPROVER_uninterpreted_umulovf64((uint64_t)(x), (uint64_t)(y))
#define LL2C_UDIV64(x, y) __CPROVER_uninterpreted_udiv64((uint64_t)(x), (uint64_t)(y))
#define LL2C_UREM64(x, y) __CPROVER_uninterpreted_urem64((uint64_t)(x), (uint64_t)(y))
#ifdef LL2C_UF_SMUL   /* signed 64-bit multiplication as an uninterpreted function: only for obligations whose lemmas speak about it */
int64_t __CPROVER_uninterpreted_smul64(int64_t, int64_t); _Bool __CPROVER_uninterpreted_smulovf64(int64_t, int64_t);
#define LL2C_SMUL64(x, y) __CPROVER_uninterpreted_smul64((int64_t)(x), (int64_t)(y))
#define LL2C_SMULOVF64(x, y) __CPROVER_uninterpreted_smulovf64((int64_t)(x), (int64_t)(y))
#endif
uint64_t __CPROVER_uninterpreted_spow(uint64_t, uint64_t); _Bool __CPROVER_uninterpreted_spowfits(uint64_t, uint64_t);
_Bool __CPROVER_uninterpreted_spoweq(uint64_t, uint64_t, uint64_t, uint64_t, uint64_t);
#define SPEC_spow(a, b) __CPROVER_uninterpreted_spow((uint64_t)(a), (uint64_t)(b))
#define SPECP_spowfits(a, b) __CPROVER_uninterpreted_spowfits((uint64_t)(a), (uint64_t)(b))
#define SPECP_spoweq(v, b, e, b0, e0) __CPROVER_uninterpreted_spoweq((uint64_t)(v), (uint64_t)(b), (uint64_t)(e), (uint64_t)(b0), (uint64_t)(e0))
#define SPEC_mulmod(a, b, n) __CPROVER_uninterpreted_mulmod((uint64_t)(a), (uint64_t)(b), (uint64_t)(n))
#define SPEC_powmod(a, b, n) __CPROVER_uninterpreted_powmod((uint64_t)(a), (uint64_t)(b), (uint64_t)(n))
#define SPEC_gcd(a, b) __CPROVER_uninterpreted_gcd((uint64_t)(a), (uint64_t)(b))
#define SPEC_isqrt(n) __CPROVER_uninterpreted_isqrt((uint64_t)(n))
#define SPEC_pow(a, b) __CPROVER_uninterpreted_pow((uint64_t)(a), (uint64_t)(b))
#define SPECP_powfits(a, b) __CPROVER_uninterpreted_powfits((uint64_t)(a), (uint64_t)(b))
#define SPECP_poweq(v, b, e, b0, e0) __CPROVER_uninterpreted_poweq((uint64_t)(v), (uint64_t)(b), (uint64_t)(e), (uint64_t)(b0), (uint64_t)(e0))
#define SPEC_jac(a, n) __CPROVER_uninterpreted_jac((uint64_t)(a), (uint64_t)(n))
#define SPECP_issquare(n) __CPROVER_uninterpreted_issquare((uint64_t)(n))
#endif

/* structural obligations (-DLL2C_UF_DIV=1 / -DLL2C_UF_FP=1): integer division / remainder by a non-constant divisor, resp. the four floating-point
   operators, are uninterpreted functions on BOTH sides (translated code and contract text): the obligation then states that the code applies
   the raw operator to exactly the stated operands, for every meaning of the operator, hence for the machine's; the duplicated divider /
   IEEE multiplier that no back end equates (DESIGN 4.1) disappears.  Operand overflow / division by zero stay bit-precise assertions. */
#if defined(VF_CBMC) && (defined(LL2C_UF_DIV) || defined(LL2C_UF_ARITH))
_Bool __CPROVER_uninterpreted_sprodfits64(uint64_t, uint64_t); _Bool __CPROVER_uninterpreted_sprodfits32(uint64_t, uint64_t);
#define SPECP_sprodfits64(x, m) __CPROVER_uninterpreted_sprodfits64((uint64_t)(x), (uint64_t)(m))
#define SPECP_sprodfits32(x, m) __CPROVER_uninterpreted_sprodfits32((uint64_t)(x), (uint64_t)(m))
#endif
#if defined(VF_CBMC) && defined(LL2C_UF_DIV)
int64_t __CPROVER_uninterpreted_sdiv64(int64_t, int64_t); int64_t __CPROVER_uninterpreted_srem64(int64_t, int64_t);
uint64_t __CPROVER_uninterpreted_udiv64b(uint64_t, uint64_t); uint64_t __CPROVER_uninterpreted_urem64b(uint64_t, uint64_t);
int32_t __CPROVER_uninterpreted_sdiv32(int32_t, int32_t); int32_t __CPROVER_uninterpreted_srem32(int32_t, int32_t);
uint32_t __CPROVER_uninterpreted_udiv32(uint32_t, uint32_t); uint32_t __CPROVER_uninterpreted_urem32(uint32_t, uint32_t);
#define LL2C_SDIV64(x, y) __CPROVER_uninterpreted_sdiv64((int64_t)(x), (int64_t)(y))
#define LL2C_SREM64(x, y) __CPROVER_uninterpreted_srem64((int64_t)(x), (int64_t)(y))
#define LL2C_SDIV32(x, y) __CPROVER_uninterpreted_sdiv32((int32_t)(x), (int32_t)(y))
#define LL2C_SREM32(x, y) __CPROVER_uninterpreted_srem32((int32_t)(x), (int32_t)(y))
#define LL2C_UDIV32(x, y) __CPROVER_uninterpreted_udiv32((uint32_t)(x), (uint32_t)(y))
#define LL2C_UREM32(x, y) __CPROVER_uninterpreted_urem32((uint32_t)(x), (uint32_t)(y))
#ifndef LL2C_UF_ARITH
#define LL2C_UMUL64(x, y) ((uint64_t)((uint64_t)(x) * (uint64_t)(y)))
#define LL2C_UMULOVF64(x, y) __CPROVER_overflow_mult((uint64_t)(x), (uint64_t)(y))
#define LL2C_UDIV64(x, y) __CPROVER_uninterpreted_udiv64b((uint64_t)(x), (uint64_t)(y))
#define LL2C_UREM64(x, y) __CPROVER_uninterpreted_urem64b((uint64_t)(x), (uint64_t)(y))
#endif
#endif
#if defined(VF_CBMC) && defined(LL2C_UF_FP)
float __CPROVER_uninterpreted_fadd32(float, float); float __CPROVER_uninterpreted_fsub32(float, float);
float __CPROVER_uninterpreted_fmul32(float, float); float __CPROVER_uninterpreted_fdiv32(float, float);
double __CPROVER_uninterpreted_fadd64(double, double); double __CPROVER_uninterpreted_fsub64(double, double);
double __CPROVER_uninterpreted_fmul64(double, double); double __CPROVER_uninterpreted_fdiv64(double, double);
#define LL2C_FADD32(x, y) __CPROVER_uninterpreted_fadd32((float)(x), (float)(y))
#define LL2C_FSUB32(x, y) __CPROVER_uninterpreted_fsub32((float)(x), (float)(y))
#define LL2C_FMUL32(x, y) __CPROVER_uninterpreted_fmul32((float)(x), (float)(y))
#define LL2C_FDIV32(x, y) __CPROVER_uninterpreted_fdiv32((float)(x), (float)(y))
#define LL2C_FADD64(x, y) __CPROVER_uninterpreted_fadd64((double)(x), (double)(y))
#define LL2C_FSUB64(x, y) __CPROVER_uninterpreted_fsub64((double)(x), (double)(y))
#define LL2C_FMUL64(x, y) __CPROVER_uninterpreted_fmul64((double)(x), (double)(y))
#define LL2C_FDIV64(x, y) __CPROVER_uninterpreted_fdiv64((double)(x), (double)(y))
#endif
/* default meaning of the operator macros (every other obligation, and the native replay): the C operators themselves */
#ifndef LL2C_UMUL64
#define LL2C_UMUL64(x, y) ((uint64_t)((uint64_t)(x) * (uint64_t)(y)))
#define LL2C_UMULOVF64(x, y) VF_MUL_OVF(uint64_t, x, y)
#define LL2C_UDIV64(x, y) ((uint64_t)((uint64_t)(x) / (uint64_t)(y)))
#define LL2C_UREM64(x, y) ((uint64_t)((uint64_t)(x) % (uint64_t)(y)))
#endif
#ifndef LL2C_SMUL64
#define LL2C_SMUL64(x, y) ((int64_t)((uint64_t)(x) * (uint64_t)(y)))
#define LL2C_SMULOVF64(x, y) VF_MUL_OVF(int64_t, x, y)
#endif
#ifndef LL2C_SDIV64
#define LL2C_SDIV64(x, y) ((int64_t)((int64_t)(x) / (int64_t)(y)))
#define LL2C_SREM64(x, y) ((int64_t)((int64_t)(x) % (int64_t)(y)))
#define LL2C_UDIV32(x, y) ((uint32_t)((uint32_t)(x) / (uint32_t)(y)))
#define LL2C_UREM32(x, y) ((uint32_t)((uint32_t)(x) % (uint32_t)(y)))
#define LL2C_SDIV32(x, y) ((int32_t)((int32_t)(x) / (int32_t)(y)))
#define LL2C_SREM32(x, y) ((int32_t)((int32_t)(x) % (int32_t)(y)))
#endif
#ifndef LL2C_FMUL64
#define LL2C_FADD32(x, y) ((float)((float)(x) + (float)(y)))
#define LL2C_FSUB32(x, y) ((float)((float)(x) - (float)(y)))
#define LL2C_FMUL32(x, y) ((float)((float)(x) * (float)(y)))
#define LL2C_FDIV32(x, y) ((float)((float)(x) / (float)(y)))
#define LL2C_FADD64(x, y) ((double)((double)(x) + (double)(y)))
#define LL2C_FSUB64(x, y) ((double)((double)(x) - (double)(y)))
#define LL2C_FMUL64(x, y) ((double)((double)(x) * (double)(y)))
#define LL2C_FDIV64(x, y) ((double)((double)(x) / (double)(y)))
#endif

#ifdef VF_CBMC
static uint64_t vf_ghost[8];   /* entry values of the function under contract, for loop invariants that relate the loop state to them */
#define ASSUME(c) __CPROVER_assume(c)
#define CHECK(c, name) __CPROVER_assert((c), "POST:" name)
#ifdef VF_NO_CANARY
#define CANARY() ((void)0)
#else
#define CANARY() __CPROVER_assert(0, "CANARY")
#endif
#else
#include <stdio.h>
extern int vf_failed;
#define ASSUME(c) do { if (!(c)) { printf("PRECONDITION-FALSE %s\n", #c); fflush(stdout); return 3; } } while (0)
#define CHECK(c, name) do { if (!(c)) { printf("CHECK-FAILED POST:%s\n", name); fflush(stdout); vf_failed = 1; } } while (0)
#define CANARY() ((void)0)
#endif

#endif
