"""dfcc.py -- mode D: CBMC function contracts and loop contracts, enforced per function by
`goto-instrument --dfcc <harness> --enforce-contract f [--replace-call-with-contract g]* --apply-loop-contracts`.

The C text is ll2c's translation of the un-promoted clang IR (source variable names survive as stack slots m_<name>),
with the contract clauses of /verif/vf/props/*.py spliced onto the function definitions."""
import concurrent.futures as cf
import json
import os
import re
import threading
import time

import core


def harness_text(ob):
    d = ob.dfcc
    L = ['#define VF_CBMC 1', '#include "spec_lib.h"', '#include "closure.c"', 'void harness(void) {']
    L.append(d['harness'])
    L.append('  __CPROVER_assert(0, "CANARY");')
    L.append('}')
    return '\n'.join(L) + '\n'


def solve(ob, info, r):
    d = info['dir']
    dd = ob.dfcc
    t0 = time.time()
    src = os.path.join(d, 'hd.c')
    open(src, 'w').write(harness_text(ob))
    defs = ['-DLL2C_CHECK_WRAP=1'] if ob.wrap else []
    rc, out, err, dt = core.run(['goto-cc', '--function', 'harness', '-I' + core.HERE] + defs + ['hd.c', '-o', 'a.gb'], timeout=300, cwd=d)
    if rc != 0:
        r.status = 'error'; r.detail = 'goto-cc: ' + (err + out)[-1500:]; return r
    cmd = ['goto-instrument', '--dfcc', 'harness', '--enforce-contract', dd['target_c']]
    for g in dd.get('replace_c', []):
        cmd += ['--replace-call-with-contract', g]
    if dd.get('loops', True):
        cmd += ['--apply-loop-contracts']
    cmd += ['a.gb', 'b.gb']
    rc, out, err, dt = core.run(cmd, timeout=600, cwd=d)
    if rc != 0:
        r.status = 'error'; r.detail = 'goto-instrument: ' + (err + out)[-2500:]; return r
    base = ['cbmc', 'b.gb', '--no-standard-checks', '--bounds-check', '--pointer-check', '--pointer-primitive-check', '--object-bits', '12', '--json-ui',
            '--unwinding-assertions']
    if ob.unwind:
        base += ['--unwind', str(ob.unwind)]
    cancel = threading.Event()
    answers = []

    def one(solver):
        cmd = list(base)
        if solver == 'cadical': cmd += ['--sat-solver', 'cadical']
        elif solver == 'kissat': cmd += ['--external-sat-solver', 'kissat']
        elif solver == 'z3': cmd += ['--z3']
        rc, out, err, dt = core.run(cmd, timeout=ob.budget, cwd=d, cancel=cancel)
        if rc is None: return None
        pr = core.parse_cbmc_json(out)
        if pr is None or pr[0] is None: return None
        if any(x.get('status') not in ('SUCCESS', 'FAILURE') for x in pr[0]): return None
        return solver, pr[0]
    with cf.ThreadPoolExecutor(4) as ex:
        futs = [ex.submit(one, s) for s in ('minisat', 'cadical', 'kissat', 'z3')]
        for f in cf.as_completed(futs):
            a = f.result()
            if a is not None and not answers:
                answers.append(a); cancel.set()
    r.seconds = time.time() - t0
    if not answers:
        r.status = 'undecided'; r.detail = 'all back ends timed out on the dfcc-instrumented program'; return r
    solver, res = answers[0]
    r.backend = 'goto-instrument --dfcc + cbmc:' + solver
    failed = ['%s [%s]' % (x.get('description', ''), x['property']) for x in res if x['status'] == 'FAILURE' and x.get('description') != 'CANARY']
    canary = any(x['status'] == 'FAILURE' and x.get('description') == 'CANARY' for x in res)
    names = [x['property'] for x in res]
    r.n_props = len(res)
    # vacuity / silent-drop guards
    need = dd.get('must_have', [])
    missing = [n for n in need if not any(re.search(n, p + ' ' + x.get('description', '')) for p, x in zip(names, res))]
    if missing:
        r.status = 'error'; r.detail = 'expected obligations not generated (contract silently dropped?): %r' % missing; return r
    r.failed_props = failed
    r.status = 'failed' if failed else 'proved'
    r.canary = canary
    r.log = json.dumps([{'property': x['property'], 'description': x.get('description'), 'status': x['status']} for x in res if x['status'] != 'SUCCESS'])[:4000]
    return r
