#!/bin/bash
# usage: run_mutant_wt.sh <worktree with the change applied> <prop> [<prop> ...]  -- run the quick checks against a scratch worktree (VF_REPO), /repo untouched
WT=$1; shift
mkdir -p /tmp/w
for prop in "$@"; do
  (cd /verif && VF_REPO=$WT ./check $prop --no-evidence > /tmp/w/mutwt_$(basename $WT)_$prop.log 2>&1; echo "$prop exit=$? $(grep -c '^VIOLATION' /tmp/w/mutwt_$(basename $WT)_$prop.log) violation lines; $(tail -1 /tmp/w/mutwt_$(basename $WT)_$prop.log)"; grep '^VIOLATION\|^UNDECIDED' /tmp/w/mutwt_$(basename $WT)_$prop.log | cut -c1-260 | head -6)
done
