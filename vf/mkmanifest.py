#!/usr/bin/env python3
"""writes /verif/MANIFEST.json from the table below (kept next to the code so it cannot drift)"""
import json, os
VERIF = os.path.dirname(os.path.dirname(os.path.abspath(__file__)))

TRUST = ('Trusted base: clang 14 C++->LLVM IR, LLVM sroa/mem2reg, /verif/vf/ll2c.py, CBMC 6.11 and its solvers, cvc5 bv-to-int. '
         'Results are per instantiation of the stated grid (all input values of each instance, not all instances). ')

CHECKS = {
    'C03': dict(text='Contract on the really-lowered instantiations of Quantity::coerce_in/coerce_as/in/as: requires the real '
                     'is_conversion_lossy to be false, ensures result*D == x*N in wide arithmetic and every UB:*/WRAP:* assertion in the '
                     'conversion closure; discharged for all stored values of each (rep, N/D) instance.',
                note=TRUST + 'Checker evaluated under wrap-around semantics while deciding.', ref='5 (C03)',
                tech='CBMC contract harness on clang-lowered real code, SAT + cvc5 int-blast'),
    'C04': dict(text='Both checkers are proved EQUAL to the exact range / divisibility predicate for all values of each (rep, N/D) '
                     'instance; is_conversion_lossy is their disjunction.',
                note=TRUST + "Euclid's lemma (gcd(N,D)=1, checked per instance) restates 'D does not divide x*N' as 'D does not divide x'. "
                             'One open known finding (KF-C04-1).', ref='5 (C04)',
                tech='CBMC contract harness on clang-lowered real code, SAT + cvc5 int-blast'),
}
NA = {
    'C01': 'Ill-formed programs have no function to put under contract; the deciding agent is the C++ type checker, not a program verifier.',
    'C02': 'Canonicalisation is a computation over types done by template instantiation; there is no run-time function to annotate and the quantifier is over expression trees.',
    'C07': 'Symmetry/identity of CommonUnitT is a statement about types; its value-level consequences are carried by the C08/C10 contracts.',
    'C20': 'Packaging / build-configuration property about translation units and compilers, not about any function\'s pre/postcondition.',
}


def main():
    props = [json.loads(l)['id'] for l in open(os.path.join(VERIF, 'properties.jsonl'))]
    checks = []
    for p in props:
        if p not in CHECKS: continue
        c = CHECKS[p]
        checks.append({
            'property_id': p, 'quick_cmd': './check %s --tier quick' % p, 'thorough_cmd': './check %s --tier thorough' % p,
            'evidence_file': 'evidence/%s.json' % p, 'replay_cmd_template': './check %s --replay {path}' % p, 'engine': 'vf',
            'level_claimed': {'category': 'proof', 'text': c['text'], 'design_ref': 'DESIGN.md section ' + c['ref']},
            'level_note': c['note'], 'technique': c['tech']})
    na = [{'property_id': p, 'reason': NA.get(p, 'not yet built in this session; see DESIGN.md section 5')} for p in props if p not in CHECKS]
    m = {'version': 1,
         'setup_cmd': 'python3 -m compileall -q vf >/dev/null && cbmc --version >/dev/null && clang++-14 --version >/dev/null && cvc5 --version >/dev/null',
         'hooks': {'guard': 'AU_VERIF', 'enable': 'no source hooks: /repo is not modified for verification; the generated drivers define AU_VERIF and include /repo/au/code headers as they are',
                   'baseline_off_cmd': 'cmake --build /repo/_build -j16 && ctest --test-dir /repo/_build -j8 --timeout 900',
                   'source_commits': [], 'add_only': True},
         'engines': [{'name': 'vf', 'path': 'vf/', 'serves_properties': sorted(CHECKS),
                      'kind_free_text': 'contract-based deductive verification: clang-14 lowers the real instantiated templates, ll2c re-emits C, contracts are checked by CBMC (function contracts via goto-instrument --dfcc where modular, assume/assert contract harness elsewhere)'}],
         'checks': checks, 'not_applicable': na,
         'notes': 'See DESIGN.md. exit 0 = all obligations discharged; exit 1 = VIOLATION (replayed natively); exit 2 = undecided/infrastructure.'}
    json.dump(m, open(os.path.join(VERIF, 'MANIFEST.json'), 'w'), indent=1)


if __name__ == '__main__':
    main()
