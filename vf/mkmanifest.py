#!/usr/bin/env python3
"""writes /verif/MANIFEST.json from the table below (kept next to the code so it cannot drift)"""
import json, os
VERIF = os.path.dirname(os.path.dirname(os.path.abspath(__file__)))

TRUST = ('Trusted base: clang 14 C++->LLVM IR, LLVM sroa/mem2reg, /verif/vf/ll2c.py, CBMC 6.11 and its solvers, cvc5 bv-to-int. '
         'Results are per instantiation of the stated grid (all input values of each instance, not all instances). ')

H = 'contract harness (assume requires / call / assert ensures + UB:* assertions) on the clang-lowered real instantiations, decided by CBMC with SAT (MiniSat, CaDiCaL, kissat) raced against cvc5 int-blast and z3 on the exported SMT2'
CHECKS = {
    'C03': dict(text='Contract on the really-lowered instantiations of Quantity::coerce_in/coerce_as/in/as: requires the real '
                     'is_conversion_lossy to be false, ensures result*D == x*N in wide arithmetic and every UB:*/WRAP:* assertion in the '
                     'conversion closure; discharged for all stored values of each (rep, N/D) instance.',
                note=TRUST + 'Checker evaluated under wrap-around semantics while deciding.', ref='5 (C03)', tech=H),
    'C04': dict(text='Both checkers are proved EQUAL to the exact range / divisibility predicate for all values of each (rep, N/D) '
                     'instance; is_conversion_lossy is their disjunction; floating reps: the two implications the property states.',
                note=TRUST + "Euclid's lemma (gcd(N,D)=1, checked per instance) restates 'D does not divide x*N' as 'D does not divide x'. "
                             'would_product_overflow for signed 32/64-bit T is proved for all x and all magnitudes by a lemma instance (Lean). Open known findings KF-C04-1, KF-C04-2.', ref='5 (C04), 10.1', tech=H + '; lemma-instance obligation for the signed overflow checker'),
    'C05': dict(text='Per (source rep, target rep, N/D): not-lossy<T> implies exact result and every cast/scaling step defined (UB:* incl. float->int range); '
                     'the checker itself is UB-free; overflow<T> only when a step really leaves its range. Floating sources: value-preserving cast of the '
                     'computed product, with the fp scaling step under its purity contract (companion obligation proves NaN->NaN).',
                note=TRUST + 'long double excluded. Two genuine defects found and fixed in /repo (see known_findings.json fixed entries).', ref='5 (C05)',
                tech=H + '; callee replaced by purity contract for the fp scaling step'),
    'C08': dict(text='Mixed-unit == != < <= > >= + - % and C++20 <=> equal the exact comparison / sum / difference / remainder of value*k in wide arithmetic '
                     'under the property\'s no-overflow precondition; floating reps: bit-exact relational contract with scaling and same-unit operator as callee contracts.',
                note=TRUST + 'floating "few ulp" distance to the exact rational is not decided; mixed-width % is a structural obligation (the remainder operator uninterpreted on both sides).', ref='5 (C08), 10.1', tech=H + '; structural obligations for mixed-width %'),
    'C09': dict(text='Point conversions equal the exact affine map (independent rational table) for bounded inputs; point-point, point+-quantity, comparisons by '
                     'absolute position; the unbounded letter of the property at the F->mK int32 call site (known finding KF-C09-1).',
                note=TRUST + 'inputs bounded per obligation (stated); compile-time rejections (point + point, scalar x point, point vs quantity) are negative compile probes (not counted); floating reps only on an exactly representable family (bounded) and for NaN comparisons.', ref='5 (C09)', tech=H),
    'C10': dict(text='Relational contract: r_i(x) == c_i + m_i*x for all x in range, m_i >= 1, c_i >= 0, cross-consistency of (m_i, c_i) with the independent unit '
                     'sizes and origins, lowest origin maps to 0 (unit lists of 2-4 units incl. origins of different granularity).', note=TRUST + 'type identity under permutation / repetition is not expressible as a contract: checked per unit set by supporting static probes (not counted).', ref='5 (C10), 10.5', tech=H + '; static_assert probes for the type-level clause'),
    'C13': dict(text='Same-unit + - % unary += -= *= /= scalar * / and comparisons equal the raw operator on the promoted operands for all values where the raw '
                     'expression is defined; in()/data_in()/default construction; floating reps bit for bit.',
                note=TRUST + 'layout/triviality/default construction/result types are compile-time facts: supporting static probes (not counted). Floating scalar * / are structural obligations. One open known finding (KF-C13-1, -0.0 through QuantityPoint::in).',
                ref='5 (C13)', tech=H),
    'C06': dict(text='Every permitted implicit conversion of the grid is an exact multiplication by k whenever x*k fits, and is exact and UB-free with NO precondition for |x| <= 2147; '
                     'can_scale_without_overflow equals (v*k <= max) for all v; OVERFLOW_THRESHOLD == 2147.',
                note=TRUST + 'That the compile-time predicate is total and equals the documented formula is a trait, not decidable by a function contract: not claimed.', ref='5 (C06)', tech=H),
    'C11': dict(text='Function contracts (goto-instrument --dfcc --enforce-contract, callees replaced by their contracts) on stdx::cmp_equal/not_equal/less/greater/less_equal/'
                     'greater_equal and in_range: equal to the mathematical relation for all values of each type pair; checked_int_pow<uintmax_t>: loop contract proving that no '
                     'multiplication wraps and no division by zero happens on any path, and (lemma-instance obligation) that the outcome is OK exactly when base^exp fits and the value is then base^exp.',
                note=TRUST + 'The arithmetic lemmas of the exactness obligation are checked by Lean 4 + Mathlib in the same run. NOT decided: product, root, long double evaluation, '
                             'compile-time classification (representable_in, is_integer, ...).', ref='5 (C11), 10.1',
                tech='CBMC function contracts via goto-instrument --dfcc (enforce + replace-call-with-contract); loop-contract VCs generated by ll2c for the SMT route; '
                     'nonlinear arithmetic as uninterpreted functions + instances of Lean-checked lemmas'),
    'C12': dict(text='Function contracts with loop contracts (invariant + decreases), callees replaced by contracts: add_mod, sub_mod, half_mod_odd, mul_mod, pow_mod return the EXACT residue without '
                     'wrap-around; gcd, is_perfect_square, multiplicity are exact; jacobi_symbol_positive_numerator is the Jacobi symbol (Mathlib jacobiSym); decompose; bool_sign; as_int; increment; absolute_diff; miller_rabin, x_squared_plus_t_mod_n, '
                     'double/increment_strong_lucas_index, find_strong_lucas_element, strong_lucas, baillie_psw, find_pollard_rho_factor, find_prime_factor, jacobi_symbol: result ranges, '
                     'memory safety (bits[64]), structure and every callee precondition.',
                note=TRUST + 'mul_mod, pow_mod, gcd, is_perfect_square, multiplicity, jacobi: nonlinear arithmetic / number theory enters as instances of lemmas that Lean 4 + Mathlib check in the same run (DESIGN 10.1). '
                             'ASSUMED, not proved: Baillie-PSW exact on 64 bits; Lucas sequence values; D.mag < 2^31 (find_pollard_rho_factor is proved to return a divisor of n). '
                             'Type-level mag<a>()*mag<b>() == mag<a*b>() is N/A.', ref='5 (C12), 10.1',
                tech='CBMC function + loop contracts (goto-instrument --dfcc, and ll2c-generated VCs); nonlinear arithmetic as uninterpreted functions + instances of Lean-checked lemmas'),
    'C14': dict(text='Quantity * Quantity, / (unblock_int_div), int_pow<2>, int_pow<3>, same-unit quotient collapsing to a raw number equal the raw operator on the stored values '
                     'whenever the raw expression is defined (overflow predicates of the abstract machine), for all values; sqrt: std::sqrt called once on the stored value (trusted stub).',
                note=TRUST + 'Floating *, /, 1/q are structural obligations over all bit patterns (operator uninterpreted on both sides). Result units, collapse to a raw number and as_raw_number overload resolution are supporting static probes (not counted); the rejections (integer-division guard, as_raw_number of a dimensioned quantity) are negative compile probes: the program must be rejected by the library\'s own guard. Open known finding KF-C14-1.',
                ref='5 (C14), 10.1', tech=H + '; structural obligations for the floating operators; static_assert probes for result types'),
    'C15': dict(text='floor_/ceil_/round_in and _as: integral result bracketing the library\'s own conversion of q (scaling step under its purity contract), all finite values below 2^51 / 2^22; '
                     'inverse_in/as == trunc(10^6/x) for all x != 0 and inverse(inverse(n)) == n for 1..1000; sin/cos/tan/arcsin wrappers call the std function exactly once on the value '
                     'in radians (trusted stubs); min/max/clamp/abs in the common unit.',
                note=TRUST + 'libm functions are assumed (abs on floating reps is compared with std::abs bit for bit); compile-time refusal of small-K inversions is a negative compile probe; the float->int inverse is a structural obligation over all bit patterns plus a bounded family.',
                ref='5 (C15)', tech=H + '; callee purity contracts; libm as trusted stubs'),
    'C16': dict(text='Multiplying/dividing numbers and quantities by a constant keeps the stored number bit for bit for every value; C.as<T>/in<T>/implicit conversion return the independently '
                     'computed exact value; can_store_value_in on boundary instances.', note=TRUST + '"available exactly when representable" only on its positive instances and listed boundaries (max, max+1, primes above max, subnormal and out-of-range ratios for floating T); result units are supporting static probes.',
                ref='5 (C16)', tech=H + '; static_assert probes for availability and result units'),
    'C17': dict(text='as_quantity(d) has d\'s count in seconds*Period, Quantity -> duration -> count is the identity, as_chrono_duration keeps value and Period, for every bit pattern; mixed '
                     'duration/quantity comparisons, sums and differences equal the result of the lowered std::chrono operator and the exact order, whenever chrono\'s own products fit.',
                note=TRUST + "libstdc++'s <chrono> is lowered by the same pipeline (also for operands of different reps). Acceptance 'exactly when the quantity would be', cv / value category of the duration: supporting static probes (not counted).", ref='5 (C17)', tech=H + '; static_assert probes for acceptance'),
    'C18': dict(text='string_size_unsigned: loop contract (invariant x*10^(d-1) <= x0 < (x+1)*10^(d-1), decreases x) proving 10^(r-1) <= x < 10^r for all 2^64 inputs (step split into the 20 '
                     'digit-count cases); string_size against that contract; StringConstant::join on run-time characters (in-bounds, joined text, NUL, size); label constants of grid units.',
                note=TRUST + 'operator<< is decided up to the std::ostream inserters (trusted recorder stubs: which overload, which value); label text for the listed units and grammar probes. Open known findings KF-C18-1, KF-C18-2.', ref='5 (C18)',
                tech='loop-contract VCs generated by ll2c (base/step/variant) decided by cvc5 int-blast / z3 / SAT; constant-trip-count loops fully unwound with unwinding assertions'),
    'C19': dict(text='For every value (all bit patterns for floating reps): comparisons with ZERO equal comparisons with 0 in both orders, q+-ZERO == q, '
                     'Quantity(ZERO) holds 0, T(ZERO) == 0, duration(ZERO).count() == 0.', note=TRUST + 'conversions to every arithmetic type and to chrono durations (class-type reps included) and the point rejection are supporting static probes.', ref='5 (C19)', tech=H + '; static_assert probes'),
}
NA = {
    'C01': 'Ill-formed programs have no function to put under contract; the deciding agent is the C++ type checker, not a program verifier.',
    'C02': 'Canonicalisation is a computation over types done by template instantiation; there is no run-time function to annotate and the quantifier is over expression trees.',
    'C07': 'Symmetry/identity of CommonUnitT is a statement about types; its value-level consequences are carried by the C08/C10 contracts.',
    'C20': 'Packaging / build-configuration property about translation units and compilers, not about any function\'s pre/postcondition.',
}


def main():
    props = [json.loads(l)['id'] for l in open(os.path.join(VERIF, 'properties.jsonl'))]
    checks = []
    for p in props:
        if p not in CHECKS: continue
        c = CHECKS[p]
        checks.append({
            'property_id': p, 'quick_cmd': './check %s --tier quick' % p, 'thorough_cmd': './check %s --tier thorough' % p,
            'evidence_file': 'evidence/%s.json' % p, 'replay_cmd_template': './check %s --replay {path}' % p, 'engine': 'vf',
            'level_claimed': {'category': 'proof', 'text': c['text'], 'design_ref': 'DESIGN.md section ' + c['ref']},
            'level_note': c['note'], 'technique': c['tech']})
    na = [{'property_id': p, 'reason': NA.get(p, 'not yet built in this session; see DESIGN.md section 5')} for p in props if p not in CHECKS]
    m = {'version': 1,
         'setup_cmd': 'python3 -m compileall -q vf >/dev/null && cbmc --version >/dev/null && goto-instrument --version >/dev/null && clang++-14 --version >/dev/null && /usr/lib/llvm-14/bin/opt --version >/dev/null && cvc5 --version >/dev/null && z3 --version >/dev/null && kissat --version >/dev/null',
         'hooks': {'guard': 'AU_VERIF', 'enable': 'no source hooks: /repo is not modified for verification; the generated drivers define AU_VERIF and include /repo/au/code headers as they are',
                   'baseline_off_cmd': 'cmake --build /repo/_build -j16 && ctest --test-dir /repo/_build -j8 --timeout 900',
                   'source_commits': [], 'add_only': True},
         'engines': [{'name': 'vf', 'path': 'vf/', 'serves_properties': sorted(CHECKS),
                      'kind_free_text': 'contract-based deductive verification: clang-14 lowers the real instantiated templates, ll2c re-emits C, contracts are checked by CBMC (function contracts via goto-instrument --dfcc where modular, assume/assert contract harness elsewhere)'}],
         'checks': checks, 'not_applicable': na,
         'notes': 'See DESIGN.md. exit 0 = all obligations discharged; exit 1 = VIOLATION (replayed natively); exit 2 = undecided/infrastructure.'}
    json.dump(m, open(os.path.join(VERIF, 'MANIFEST.json'), 'w'), indent=1)


if __name__ == '__main__':
    main()
