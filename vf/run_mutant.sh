#!/bin/bash
# usage: run_mutant.sh <patch.diff> <prop> [<prop> ...]   -- apply a seeded change to /repo, run the quick checks, revert
P=$1; shift
cd /repo && git status --short | grep -v '^??' && { echo "/repo is dirty"; exit 2; }
git -C /repo apply $P || { echo "patch does not apply"; exit 2; }
for prop in "$@"; do
  (cd /verif && ./check $prop --no-evidence > /tmp/w/mut_$prop.log 2>&1; echo "$prop exit=$? $(grep -c '^VIOLATION' /tmp/w/mut_$prop.log) violation lines; $(tail -1 /tmp/w/mut_$prop.log)"; grep '^VIOLATION\|^UNDECIDED' /tmp/w/mut_$prop.log | cut -c1-260 | head -6)
done
git -C /repo checkout -- .
