"""grid.py -- reps, factor grid and unit definitions shared by the property modules.

All expected constants (N, D, offsets) used in contracts come from here, by construction of the
generated units or from the hand-typed exact definitions below -- never read back from Au."""
import random
from fractions import Fraction
from math import gcd

REPS = {
    'i8': dict(c='int8_t', bits=8, signed=True, P='i32'),
    'u8': dict(c='uint8_t', bits=8, signed=False, P='i32'),
    'i16': dict(c='int16_t', bits=16, signed=True, P='i32'),
    'u16': dict(c='uint16_t', bits=16, signed=False, P='i32'),
    'i32': dict(c='int32_t', bits=32, signed=True, P='i32'),
    'u32': dict(c='uint32_t', bits=32, signed=False, P='u32'),
    'i64': dict(c='int64_t', bits=64, signed=True, P='i64'),
    'u64': dict(c='uint64_t', bits=64, signed=False, P='u64'),
}
INT_REPS = list(REPS)
FP = {'f32': dict(c='float', mant=24, emax=127), 'f64': dict(c='double', mant=53, emax=1023)}


def tmax(r):
    i = REPS[r]
    return (1 << (i['bits'] - (1 if i['signed'] else 0))) - 1


def tmin(r):
    i = REPS[r]
    return -(1 << (i['bits'] - 1)) if i['signed'] else 0


def ctype(r):
    return REPS[r]['c'] if r in REPS else FP[r]['c']


def is_int(r):
    return r in REPS


def lit(v):
    """C expression of type i128 for the Python integer v (no 128-bit literals, no INT64_MIN literal)"""
    if -(1 << 63) < v < (1 << 63):
        return '((i128)%dLL)' % v
    if 0 <= v < (1 << 64):
        return '((i128)%dULL)' % v
    m = v % (1 << 128)
    return 'I128(0x%xULL, 0x%xULL)' % (m >> 64, m & ((1 << 64) - 1))


def conv_compiles(rep, N, D):
    """does q.coerce_in(u) compile for an integral rep and factor N/D (lowest terms)?  Mirrors the documented
    rule: the numbers the conversion multiplies/divides by must be representable (apply_magnitude.hh)."""
    P = REPS[rep]['P']
    if D == 1:
        return N <= tmax(rep)
    if N == 1:
        return D <= tmax(rep)
    return N <= tmax(P) and D <= tmax(P)


def category(N, D):
    return 'mul' if D == 1 else 'div' if N == 1 else 'rat'


LIB_FACTORS = [(12, 1), (1, 12), (1000, 1), (1, 1000), (1250, 381), (381, 1250), (5, 9), (9, 5), (3600, 1), (1001, 30000)]


def rep_special_factors(rep):
    b = REPS[rep]['bits']; P = REPS[rep]['P']
    M, PM = tmax(rep), tmax(P)
    out = [(M // 2147, 1), (M // 2147 + 1, 1)] if M // 2147 >= 2 else []
    k3 = 1
    while k3 * 3 <= PM: k3 *= 3          # largest power of 3 that fits the promoted type (smooth: factors instantly)
    out += [(M, 1), (1, M), (7, 1 << (b - 1)), (3, 1 << (b - 2)), (1 << (b - 2), 3), (k3, 7), (7, k3)]
    if b <= 16:
        out += [(30011, 7), (7, 30011), (46337, 46349), (2147483647, 3), (3, 2147483647)]
        # numerator just above max(P)/max(T) with a small denominator: x*N still fits the promoted type for x <= D while x*N/D no longer fits T
        n0 = PM // M + 2
        while gcd(n0, 7 * 11) != 1: n0 += 1
        out += [(n0, 7), (3 * n0 + 1 if gcd(3 * n0 + 1, 11) == 1 else 3 * n0 + 2, 11)]
    if b == 32:
        out += [(2147483647, 3), (3, 2147483647), (65521, 65537)]
    if b == 64:
        out += [(2147483647, 3), (4294967291, 4294967279), (3037000493, 7), ((1 << 61) - 1, 3), (3, (1 << 61) - 1)]
    # small factors > 1 whose numerator divides a boundary of T or the first value beyond it (max, max+1, |min|, |min|+1): some x with D | x then has
    # x*N/D EXACTLY on the boundary / one step beyond it, which is where an off-by-one in the overflow bounds of the checkers shows
    def small_prime_factor(v):
        for q in (3, 5, 7, 11, 13, 17, 19, 23, 29, 31, 37, 41, 43, 47):
            if v % q == 0: return q
        return 2 if v % 2 == 0 else None
    bounds = [M, M + 1] + ([-tmin(rep), -tmin(rep) + 1] if REPS[rep]['signed'] else [])
    for v in bounds:
        q = small_prime_factor(v)
        if q: out.append((q, 2) if q % 2 else (4, 3))
    res = []
    for n, d in out:
        g = gcd(n, d)
        n, d = n // g, d // g
        if (n, d) != (1, 1) and (n, d) not in res: res.append((n, d))
    return res


def random_factors(rep, seed, k):
    rnd = random.Random('%s/%s' % (rep, seed))
    out = []
    PM = tmax(REPS[rep]['P'])
    while len(out) < k:
        hi = min(PM, 1 << 40)
        n = rnd.randrange(2, 1 << rnd.randrange(2, hi.bit_length()))
        d = rnd.randrange(2, 1 << rnd.randrange(2, hi.bit_length()))
        g = gcd(n, d); n //= g; d //= g
        if n > 1 and d > 1 and n <= hi and d <= hi and (n, d) not in out: out.append((n, d))
    return out


def unit_prelude(tag, N, D, base='Meters', inc='#include "au/units/meters.hh"'):
    """U1 = base; U2 such that U1/U2 == N/D, i.e. U2 = base * D / N.  Returns (prelude, U1, U2)."""
    u2 = 'VU_%s_%d_%d' % (tag, N, D)
    pre = '%s\n//--\nstruct %s : decltype(au::%s{} * au::mag<%dULL>() / au::mag<%dULL>()) {};' % (inc, u2, base, D, N)
    return pre, 'au::' + base, u2


def W_of(rep):
    """exact-arithmetic type for specs about rep: products x*N with N <= max(P) and thresholds max(T)*D with
    D <= max(P) must not wrap in it"""
    i = REPS[rep]
    if rep == 'u32':
        return 'u64'
    if i['bits'] <= 32:
        return 'i64'
    return 'i128' if i['signed'] else 'u128'


def wlit(rep, v):
    w = W_of(rep)
    if w == 'i128':
        assert -(1 << 127) <= v < (1 << 127), v
        return lit(v)
    if w == 'u128':
        assert 0 <= v < (1 << 128), v
        return 'U128(0x%xULL, 0x%xULL)' % (v >> 64, v & ((1 << 64) - 1))
    if w == 'i64':
        assert -(1 << 63) < v < (1 << 63), v
        return '((i64)%dLL)' % v
    assert 0 <= v < (1 << 64), v
    return '((u64)%dULL)' % v


ALL_REPS = INT_REPS + ['f32', 'f64']


def is_fp(r):
    return r in FP


def promoted(r):
    return REPS[r]['P'] if r in REPS else r


def common(a, b):
    """std::common_type_t<a, b> on x86-64 LP64 for the 8 fixed-width integer types, float and double"""
    if a == b: return a
    if is_fp(a) or is_fp(b):
        if 'f64' in (a, b): return 'f64'
        return 'f32'
    pa, pb = promoted(a), promoted(b)
    if pa == pb: return pa
    ia, ib = REPS[pa], REPS[pb]
    if ia['signed'] == ib['signed']:
        return pa if ia['bits'] >= ib['bits'] else pb
    u, s = (pa, pb) if not ia['signed'] else (pb, pa)
    if REPS[u]['bits'] >= REPS[s]['bits']: return u
    return s   # signed type is strictly wider: represents every value of the unsigned one


def W_for(*reps):
    """exact type for products of values of these (integral) reps with constants below 2^64"""
    if all(REPS[r]['bits'] <= 32 for r in reps):
        if any(r == 'u32' for r in reps) and not any(REPS[r]['signed'] for r in reps): return 'u64'
        if not any(r == 'u32' for r in reps): return 'i64'
    if not any(REPS[r]['signed'] for r in reps): return 'u128'
    return 'i128'


def lit_w(w, v):
    if w == 'i64':
        assert -(1 << 63) < v < (1 << 63), v
        return '((i64)%dLL)' % v
    if w == 'u64':
        assert 0 <= v < (1 << 64), v
        return '((u64)%dULL)' % v
    if w == 'u128':
        assert 0 <= v < (1 << 128), v
        return 'U128(0x%xULL, 0x%xULL)' % (v >> 64, v & ((1 << 64) - 1))
    assert -(1 << 127) <= v < (1 << 127), v
    return lit(v)
