#!/usr/bin/env python3
"""save_seeded.py <id> <worktree> <property> <caught-by> <needs...>  -- stores a confirmed seeded change under /verif/seeded/<id>/"""
import json, os, shutil, sys
sid, wt, prop, caught = sys.argv[1:5]
needs = ' '.join(sys.argv[5:])
d = '/verif/seeded/' + sid
os.makedirs(d, exist_ok=True)
shutil.copy(wt + '/_mut/patch.diff', d + '/patch.diff')
shutil.copy(wt + '/_mut/demo.cc', d + '/demo.cc')
if os.path.exists(wt + '/_mut/NOTES.md'): shutil.copy(wt + '/_mut/NOTES.md', d + '/NOTES.md')
json.dump({'id': sid, 'property': prop, 'needs_to_manifest': needs,
           'confirmed': {'suite_with_change': '100% tests passed, 0 tests failed out of 991 (cmake --build + ctest in a scratch worktree)',
                         'demo_exit_with_change': 1, 'demo_exit_without_change': 0,
                         'commands': ['vf/confirm_mutant.sh <worktree>', 'vf/run_mutant.sh seeded/%s/patch.diff %s' % (sid, prop)]},
           'detected_by': caught}, open(d + '/meta.json', 'w'), indent=1)
print('saved', d)
