#!/bin/bash
# usage: confirm_mutant.sh <worktree>   -- independent confirmation of a seeded change: suite passes with it, demo fails with it and passes without it
set -u
WT=$1
cd $WT || exit 2
git diff -- au > /tmp/w/cm_patch.diff
if ! diff -q /tmp/w/cm_patch.diff _mut/patch.diff >/dev/null; then echo "NOTE: patch.diff differs from the working tree diff; using the working tree diff"; cp /tmp/w/cm_patch.diff _mut/patch.diff; fi
[ -s _mut/patch.diff ] || { echo "EMPTY PATCH"; exit 2; }
echo "== build + suite with the change"
if [ ! -d _build ]; then cmake -S . -B _build -G Ninja -DCMAKE_BUILD_TYPE=RelWithDebInfo -DFETCHCONTENT_SOURCE_DIR_GOOGLETEST=/usr/src/googletest -DFETCHCONTENT_TRY_FIND_PACKAGE_MODE=ALWAYS -DFETCHCONTENT_FULLY_DISCONNECTED=ON >/dev/null; fi
cmake --build _build -j16 2>&1 | tail -1
ctest --test-dir _build -j8 --timeout 900 2>&1 | grep 'tests passed\|tests failed' 
echo "== demo with the change"
g++ -std=c++14 -I$WT/au/code _mut/demo.cc -o _mut/demo_with 2>&1 | tail -3; ./_mut/demo_with > _mut/out_with.txt 2>&1; echo "exit with change: $?"
git stash -q
echo "== demo without the change"
g++ -std=c++14 -I$WT/au/code _mut/demo.cc -o _mut/demo_without 2>&1 | tail -3; ./_mut/demo_without > _mut/out_without.txt 2>&1; echo "exit without change: $?"
git stash pop -q
tail -3 _mut/out_with.txt
