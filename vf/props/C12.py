"""C12 -- modular helpers, primality and factoring: function contracts (mode D).  DESIGN.md section 5."""
from core import Ob, Wrapper

ASSUMPTIONS = [
    'PROVED (lemma-instance obligations C12.exact.*; nonlinear arithmetic as uninterpreted functions, every arithmetic fact an instance of a lemma that Lean 4 + Mathlib accept in the same run): '
    'mul_mod and pow_mod return the exact residue and no product wraps; gcd, is_perfect_square, multiplicity are exact; jacobi_symbol_positive_numerator is start * (a|n) with Mathlib\'s jacobiSym as the specification',
    'ASSUMED: Baillie-PSW has no 64-bit counterexample (published computational result), i.e. miller_rabin / strong_lucas classify correctly; the Lucas sequence steps compute U_k, V_k (only ranges and '
    'call-site preconditions are under contract); the Selfridge search returns D.mag < 2^31 (data invariant of LucasDParameter in every contract that takes one)',
    'trusted base of the lemma route: the term printer of vf/lemma.py (one term -> C instance and Lean statement), Lean\'s kernel, Mathlib\'s definitions of Nat.gcd, Nat.sqrt, jacobiSym; CBMC\'s treatment of '
    '__CPROVER_uninterpreted_* symbols as functions',
    'termination is proved only where a decreases clause is given',
    'mag<a>()*mag<b>() == mag<a*b>() is type-level: not applicable']

M = {
    'add_mod': '_ZN2au6detail7add_modEmmm', 'sub_mod': '_ZN2au6detail7sub_modEmmm', 'mul_mod': '_ZN2au6detail7mul_modEmmm',
    'half_mod_odd': '_ZN2au6detail12half_mod_oddEmm', 'pow_mod': '_ZN2au6detail7pow_modEmmm', 'decompose': '_ZN2au6detail9decomposeEm',
    'bool_sign': '_ZN2au6detail9bool_signEb', 'miller_rabin': '_ZN2au6detail12miller_rabinEmm',
    'double_sl': '_ZN2au6detail25double_strong_lucas_indexERKNS0_20LucasSequenceElementEmNS0_15LucasDParameterE',
    'increment_sl': '_ZN2au6detail28increment_strong_lucas_indexERKNS0_20LucasSequenceElementEmNS0_15LucasDParameterE',
    'find_sl': '_ZN2au6detail25find_strong_lucas_elementEmmNS0_15LucasDParameterE',
    'x2t': '_ZN2au6detail22x_squared_plus_t_mod_nEmmm', 'absdiff': '_ZN2au6detail13absolute_diffEmm',
    'multiplicity': '_ZN2au6detail12multiplicityEmm', 'as_int': '_ZN2au6detail6as_intERKNS0_15LucasDParameterE',
    'increment_D': '_ZN2au6detail9incrementERNS0_15LucasDParameterE', 'find_prime_factor': '_ZN2au6detail17find_prime_factorEm',
    'strong_lucas': '_ZN2au6detail12strong_lucasEm', 'is_perfect_square': '_ZN2au6detail17is_perfect_squareEm',
    'find_first_D': '_ZN2au6detail39find_first_D_with_jacobi_symbol_neg_oneEm', 'baillie_psw': '_ZN2au6detail11baillie_pswEm',
    'jacobi': '_ZN2au6detail13jacobi_symbolElm', 'jacobi_pos': '_ZN2au6detail32jacobi_symbol_positive_numeratorEmmi',
    'is_prime': '_ZN2au6detail8is_primeEm', 'pollard': '_ZN2au6detail23find_pollard_rho_factorEm', 'gcd': '_ZN2au6detail3gcdEmm',
}
PRE = '#include "au/utility/probable_primes.hh"\n#include "au/utility/factoring.hh"'
RV = '__CPROVER_return_value'
U128 = '(unsigned __int128)'

CONTRACTS = {
    # precondition derived from call sites: mul_mod passes chunk_result == n (when the recursive product is 0), so a <= n, not a < n
    'add_mod': dict(requires=['v_n > 0 && v_a <= v_n && v_b < v_n'],
                    ensures=['%s < v_n' % RV, '(%s%s == %sv_a + v_b) || (%s%s + v_n == %sv_a + v_b)' % (U128, RV, U128, U128, RV, U128)], assigns=''),
    'sub_mod': dict(requires=['v_n > 0 && v_a < v_n && v_b < v_n'],
                    ensures=['%s < v_n' % RV, '(%s%s + v_b == %sv_a) || (%s%s + v_b == %sv_a + v_n)' % (U128, RV, U128, U128, RV, U128)], assigns=''),
    'half_mod_odd': dict(requires=['(v_n & 1) == 1 && v_a < v_n'],
                         ensures=['%s < v_n' % RV, '(%s%s * 2 == %sv_a) || (%s%s * 2 == %sv_a + v_n)' % (U128, RV, U128, U128, RV, U128)], assigns=''),
    # division- and multiplication-free sufficient precondition (see DESIGN.md C12); value exactness is ASSUMED
    'mul_mod': dict(requires=['v_n > 0 && v_b < v_n && (v_a < v_n || (v_a < 4294967296ULL && v_b < 4294967296ULL))'], ensures=['%s < v_n' % RV], assigns=''),
    'decompose': dict(requires=['v_n > 0'],
                      ensures=['%s.f0 < 64' % RV, '(%s.f1 & 1) == 1' % RV, '(%s.f1 << %s.f0) == v_n' % (RV, RV)], assigns='',
                      loops={0: dict(invariant=['m_retval.f0 < 64 && m_retval.f1 != 0 && (m_retval.f1 << m_retval.f0) == m_n_addr'],
                                     decreases='64 - m_retval.f0', assigns='m_retval')}),
    'bool_sign': dict(requires=['v_x == 0 || v_x == 1'],   # a valid bool (CBMC's _Bool object may hold other bit patterns)
                      ensures=['(int)%s == (v_x ? 1 : -1)' % RV], assigns=''),
    'pow_mod': dict(requires=['v_n > 1'], ensures=['%s < v_n' % RV], assigns='',
                    loops={0: dict(invariant=['m_result < m_n_addr && m_base_addr < m_n_addr && m_n_addr > 1'], decreases='m_exp_addr',
                                   assigns='m_result, m_base_addr, m_exp_addr')}),
    # Lucas sequence steps: data invariant of LucasDParameter (D.mag < 2^31, an ASSUMED property of the Selfridge search) is part of the precondition
    'double_sl': dict(requires=['__CPROVER_is_fresh(v_element, 16)', '(v_n & 1) == 1 && v_n > 1 && v_element->f0 < v_n && v_element->f1 < v_n && v_D_coerce0 < 2147483648ULL'],
                      ensures=['%s.f0 < v_n && %s.f1 < v_n' % (RV, RV)], assigns=''),
    'increment_sl': dict(requires=['__CPROVER_is_fresh(v_element, 16)', '(v_n & 1) == 1 && v_n > 1 && v_element->f0 < v_n && v_element->f1 < v_n && v_D_coerce0 < 2147483648ULL'],
                         ensures=['%s.f0 < v_n && %s.f1 < v_n' % (RV, RV)], assigns=''),
    'find_sl': dict(requires=['(v_n & 1) == 1 && v_n > 1 && v_D_coerce0 < 2147483648ULL'], ensures=['%s.f0 < v_n && %s.f1 < v_n' % (RV, RV)], assigns='',
                    loops={0: dict(invariant=['m_n_bits < 64 && (m_n_bits == 0 || m_i_addr < (1ULL << (64 - m_n_bits)))'], decreases='m_i_addr', assigns='m_bits, m_n_bits, m_i_addr'),
                           1: dict(invariant=['m_j <= m_n_bits && m_n_bits < 64 && m_retval.f0 < m_n_addr && m_retval.f1 < m_n_addr'], decreases='m_j',
                                   assigns='m_j, m_retval, m_ref_tmp, m_agg_tmp, m_ref_tmp4, m_agg_tmp5')}),
    'miller_rabin': dict(requires=['v_a <= 18446744073709551613ULL'],   # a + 2u must not wrap: every caller passes a == 2
                          ensures=['%s <= 2' % RV], assigns='',
                         loops={0: dict(invariant=['m_x < m_n_addr'], decreases='m_params.f0 - (uint64_t)m_r')}),
    'x2t': dict(requires=['v_n > 0 && v_x < v_n && v_t < v_n'], ensures=['%s < v_n' % RV], assigns=''),
    'absdiff': dict(requires=['1'], ensures=['(v_a > v_b) ? (%s == v_a - v_b) : (%s == v_b - v_a)' % (RV, RV)], assigns=''),
    'multiplicity': dict(requires=['v_n > 0 && v_factor > 1'], ensures=['1'], assigns='',
                         loops={0: dict(invariant=['m_n_addr > 0 && m_m < 64 && m_n_addr <= (0xFFFFFFFFFFFFFFFFULL >> m_m) && m_factor_addr > 1'], decreases='m_n_addr')}),
    'as_int': dict(requires=['__CPROVER_is_fresh(v_D, 16)', 'v_D->f0 < 2147483648ULL && v_D->f1 <= 1'],
                   ensures=['(int)%s == ((v_D->f1 & 1) ? (int)v_D->f0 : -(int)v_D->f0)' % RV], assigns=''),
    # ASSUMED contracts of callees that are outside deductive reach (number theory); their CALLERS are verified against them
    'is_perfect_square': dict(requires=['1'], ensures=['1'], assigns=''),
    'find_first_D': dict(requires=['(v_n & 1) == 1 && v_n > 1'], ensures=['%s.f0 < 2147483648ULL && %s.f1 <= 1' % (RV, RV)], assigns=''),
    'strong_lucas': dict(requires=['v_n < 18446744073709551615ULL'],   # n + 1 must not wrap; baillie_psw reaches strong_lucas only when miller_rabin(2, n) is not COMPOSITE
                         ensures=['%s <= 2' % RV], assigns='',
                         loops={0: dict(invariant=['m_element.f0 < m_n_addr && m_element.f1 < m_n_addr && m_params.f0 < 64 && m_i <= m_params.f0 && m_D.f0 < 2147483648ULL && m_D.f1 <= 1 '
                                                   '&& (m_n_addr & 1) == 1 && m_n_addr > 1'],
                                        decreases='m_params.f0 - m_i', assigns='m_i, m_element, m_ref_tmp, m_agg_tmp14, m_retval')}),
    'pollard': dict(requires=['v_n > 4'], ensures=['%s >= 1 && %s <= v_n' % (RV, RV)], assigns='',
                    loops={0: dict(invariant=['m_t >= 1 && m_n_addr > 4'], decreases='m_n_addr / 2 - m_t',
                                   assigns='m_t, m_max_cycle_length, m_cycle_length, m_tortoise, m_hare, m_factor, m_retval'),
                           1: dict(invariant=['m_hare < m_n_addr && m_tortoise < m_n_addr && m_t < m_n_addr / 2 && m_factor >= 1 && m_factor <= m_n_addr && m_n_addr > 4'],
                                   assigns='m_max_cycle_length, m_cycle_length, m_tortoise, m_hare, m_factor')}),
    'gcd_div': dict(requires=['v_a > 0'], ensures=['%s >= 1 && %s <= v_a' % (RV, RV)], assigns=''),   # ASSUMED here: gcd(a, b) divides a, so 1 <= gcd <= a for a > 0
    'gcd': dict(requires=['1'], ensures=['(v_a != 0 || v_b != 0) ? %s != 0 : %s == 0' % (RV, RV)], assigns='',
                loops={0: dict(invariant=['(m_a_addr != 0 || m_b_addr != 0) == (__CPROVER_loop_entry(m_a_addr) != 0 || __CPROVER_loop_entry(m_b_addr) != 0)'],
                               decreases='m_b_addr')}),
    'increment_D': dict(requires=['__CPROVER_is_fresh(v_D, 16)', 'v_D->f0 < 2147483646ULL && v_D->f1 <= 1'],
                        ensures=['v_D->f0 == __CPROVER_old(v_D->f0) + 2', '(v_D->f1 & 1) == !(__CPROVER_old(v_D->f1) & 1)'], assigns='v_D->f0, v_D->f1'),
}


def D(id, target, harness, replace=(), contracts=None, wrap=True, must=('postcondition',), budget=400, contract_text='', fns=()):
    cs = {M[k]: CONTRACTS[k] for k in ([target] + list(replace)) if k in CONTRACTS}
    if contracts: cs.update(contracts)
    return Ob(id=id, prop='C12', group='C12', prelude=PRE, wrappers=WRAPS, inputs=[], body='', kind='D', promote=False, wrap=wrap, budget=budget,
              dfcc=dict(target=M[target], replace=[M[k] for k in replace], contracts=cs, harness=harness, must_have=list(must)),
              contract=contract_text, functions_under_contract=tuple(fns) or ('au::detail::' + target,))


# wrappers only make the driver instantiate the functions
WRAPS = [Wrapper('w_c12_instantiate', 'uint64_t', [('uint64_t', 'a'), ('uint64_t', 'b'), ('uint64_t', 'n')],
                 'using namespace au::detail; auto d = decompose(n); return add_mod(a,b,n) + sub_mod(a,b,n) + mul_mod(a,b,n) + half_mod_odd(a,n) + pow_mod(a,b,n) '
                 '+ d.power_of_two + multiplicity(a, n) + (uint64_t)bool_sign(a == b) + (uint64_t)miller_rabin(a, n) + (uint64_t)jacobi_symbol((int64_t)a, n) + (uint64_t)baillie_psw(n) + find_prime_factor(n);')]


def obligations(tier, seed):
    obs = []
    h3 = '  uint64_t a, b, n;\n  f_%s(a, b, n);' 
    obs.append(D('C12.contract.add_mod', 'add_mod', h3 % M['add_mod'],
                 contract_text='add_mod(a,b,n): requires n>0, a<=n, b<n; ensures r<n and r == a+b or r+n == a+b (128-bit); assigns nothing; no unsigned wrap-around'))
    obs.append(D('C12.contract.sub_mod', 'sub_mod', h3 % M['sub_mod'],
                 contract_text='sub_mod(a,b,n): requires n>0, a<n, b<n; ensures r<n and r+b == a or r+b == a+n; assigns nothing; no unsigned wrap-around'))
    obs.append(D('C12.contract.half_mod_odd', 'half_mod_odd', '  uint64_t a, n;\n  f_%s(a, n);' % M['half_mod_odd'],
                 contract_text='half_mod_odd(a,n): requires n odd, a<n; ensures r<n and 2r == a or 2r == a+n; no unsigned wrap-around'))
    obs.append(D('C12.contract.decompose', 'decompose', '  uint64_t n;\n  f_%s(n);' % M['decompose'], must=('postcondition', 'loop_invariant_step|step', 'decreases|variant'),
                 contract_text='decompose(n): requires n>0; ensures power_of_two<64, odd_remainder odd, odd_remainder<<power_of_two == n; loop invariant '
                               'p<64 && odd!=0 && odd<<p == n; decreases 64-p'))
    obs.append(D('C12.contract.bool_sign', 'bool_sign', '  _Bool x;\n  f_%s(x);' % M['bool_sign'], wrap=False,
                 contract_text='bool_sign(x) == (x ? 1 : -1)'))
    obs.append(D('C12.contract.pow_mod', 'pow_mod', h3.replace('a, b, n', 'a, b, n') % M['pow_mod'], replace=('mul_mod',),
                 must=('postcondition', 'step', 'precondition'),
                 contract_text='pow_mod(base,exp,n): requires n>1; ensures r<n; every mul_mod call meets mul_mod\'s precondition (callee replaced by its contract); '
                               'loop invariant result<n && base<n; decreases exp', fns=('au::detail::pow_mod', 'au::detail::mul_mod (as callee contract)')))
    hel = '  struct S_struct_au__detail__LucasSequenceElement *e; uint64_t n, d0; uint8_t d1;\n  f_%s(e, n, d0, d1);'
    lucas_callees = ('add_mod', 'sub_mod', 'half_mod_odd', 'mul_mod')
    obs.append(D('C12.callsites.double_strong_lucas_index', 'double_sl', hel % M['double_sl'], replace=lucas_callees, must=('postcondition', 'precondition'),
                 contract_text='double_strong_lucas_index(e,n,D): requires n odd > 1, U,V < n, D.mag < 2^31; ensures U\',V\' < n; every call of mul_mod/add_mod/sub_mod/half_mod_odd '
                               'meets the callee precondition (callees replaced by contracts)', fns=('au::detail::double_strong_lucas_index',)))
    obs.append(D('C12.callsites.increment_strong_lucas_index', 'increment_sl', hel % M['increment_sl'], replace=lucas_callees, must=('postcondition', 'precondition'),
                 contract_text='increment_strong_lucas_index(e,n,D): same contract shape', fns=('au::detail::increment_strong_lucas_index',)))
    obs.append(D('C12.contract.find_strong_lucas_element', 'find_sl', '  uint64_t i, n, d0; uint8_t d1;\n  f_%s(i, n, d0, d1);' % M['find_sl'],
                 replace=('double_sl', 'increment_sl'), must=('postcondition', 'precondition', 'step'),
                 contract_text='find_strong_lucas_element(i,n,D): bits[64] indexing in bounds (loop invariant n_bits < 64 && i < 2^(64-n_bits)), element stays < n, callee '
                               'preconditions hold; decreases i / j', fns=('au::detail::find_strong_lucas_element',)))
    obs.append(D('C12.contract.miller_rabin', 'miller_rabin', '  uint64_t a, n;\n  f_%s(a, n);' % M['miller_rabin'], replace=('decompose', 'pow_mod', 'mul_mod'),
                 must=('postcondition', 'precondition', 'step'),
                 contract_text='miller_rabin(a,n): requires a <= 2^64-3 (a+2 must not wrap; every caller passes 2); for all such inputs (BAD_INPUT guard included): decompose/pow_mod/mul_mod preconditions hold at every call, no division by zero, '
                               'no wrap-around, loop invariant x < n, decreases s - r', fns=('au::detail::miller_rabin',)))
    obs.append(D('C12.contract.x_squared_plus_t_mod_n', 'x2t', h3 % M['x2t'], replace=('mul_mod', 'add_mod'), must=('postcondition', 'precondition'),
                 contract_text='x_squared_plus_t_mod_n(x,t,n): requires n>0, x<n, t<n; ensures r<n; callee preconditions hold'))
    obs.append(D('C12.contract.absolute_diff', 'absdiff', '  uint64_t a, b;\n  f_%s(a, b);' % M['absdiff'], contract_text='absolute_diff(a,b) == |a-b| without wrap-around'))
    obs.append(D('C12.contract.multiplicity', 'multiplicity', '  uint64_t f, n;\n  f_%s(f, n);' % M['multiplicity'], must=('step',),
                 contract_text='multiplicity(factor,n): requires n>0, factor>1: no division by zero, no wrap-around, terminates (decreases n)'))
    obs.append(D('C12.contract.gcd', 'gcd', '  uint64_t a, b;\n  f_%s(a, b);' % M['gcd'], must=('step', 'decreases|variant'),
                 contract_text='gcd(a,b): no division by zero; terminates (decreases b); result is non-zero unless both inputs are zero (value == mathematical gcd is ASSUMED)'))
    # ---- lemma-based exactness obligations: non-constant 64-bit multiplication / division and the specification functions are uninterpreted
    # for CBMC; each arithmetic fact enters as an instance of a lemma that Lean + Mathlib checks in this run (vf/lemma.py, props/c12_lemmas.py)
    import lemma as LM
    from props import c12_lemmas as CL
    obs.append(Ob(id='C12.lemmas.mulmod', prop='C12', group='C12.lemmas', kind='S', budget=600, body='', prelude='', wrappers=[], inputs=[],
                  dfcc=dict(tool='lean', text=LM.lean_file(CL.MULMOD, CL.MULMOD_PRELUDE + CL.SPEC_PRELUDE)),
                  contract='Lean 4 + Mathlib accept: ' + '; '.join('%s (%s)' % (l.name, l.doc) for l in CL.MULMOD)))
    mm = M['mul_mod']
    mm_pre = 'v_n > 0 && v_b < v_n && (v_a < v_n || (v_a < 4294967296ULL && v_b < 4294967296ULL))'
    obs.append(Ob(id='C12.exact.mul_mod', prop='C12', group='C12', prelude=PRE, wrappers=WRAPS, inputs=[('uint64_t', 'a'), ('uint64_t', 'b'), ('uint64_t', 'n')],
                  body="""
  ASSUME(n > 0 && b < n && (a < n || (a < 4294967296ULL && b < 4294967296ULL)));
  ASSUME(%s);   /* lemma mm_fast at (a, b, n) */
  ASSUME(%s);   /* lemma mm_slow at (a, b, n) */
  ASSUME(%s);   /* lemma mm_facts at (a, b, n) */
  uint64_t r = TARGET(a, b, n);
  CHECK(r == SPEC_mulmod(a, b, n), "result-is-the-exact-residue-a-times-b-mod-n");
  CHECK(r < n, "result-is-below-n");
""" % (CL.mm_fast.inst(a='a', b='b', n='n'), CL.mm_slow.inst(a='a', b='b', n='n'), CL.mm_facts.inst(a='a', b='b', n='n')),
                  kind='L', promote=False, wrap=True, budget=300, defs=('LL2C_UF_ARITH=1',), needs=('C12.lemmas.mulmod',),
                  dfcc=dict(target=mm, replace=[M['add_mod']],
                            native_search=dict(pre='n > 0 && b < n && (a < n || (a < 4294967296ULL && b < 4294967296ULL))', call='au::detail::mul_mod(a, b, n)', ret='uint64_t',
                                               post='r == (uint64_t)(((u128)a * b) % n)'),
                            contracts={mm: dict(requires=[mm_pre], ensures=['%s == SPEC_mulmod(v_a, v_b, v_n)' % RV, '%s < v_n' % RV], assigns='',
                                                recursive_stub=True, rec_variant='v_a'),
                                       M['add_mod']: CONTRACTS['add_mod']}),
                  contract='mul_mod(a,b,n) under its call-site precondition (n > 0, b < n, a < n or both below 2^32) returns EXACTLY a*b mod n; a*b in the fast path, a*chunk_size, '
                           'num_chunks*chunk_size and a*leftover do not wrap, the subtractions do not wrap, no division by zero, the recursive call (replaced by this contract) and add_mod '
                           '(replaced by its proved contract) meet their preconditions, and the recursion terminates (variant: first argument). Arithmetic by lemmas mm_fast, mm_slow (Lean)',
                  functions_under_contract=('au::detail::mul_mod',)))
    obs.append(Ob(id='C12.lemmas.powmod', prop='C12', group='C12.lemmas', kind='S', budget=600, body='', prelude='', wrappers=[], inputs=[],
                  dfcc=dict(tool='lean', text=LM.lean_file(CL.POWMOD, CL.SPEC_PRELUDE)),
                  contract='Lean 4 + Mathlib accept: ' + '; '.join('%s (%s)' % (l.name, l.doc) for l in CL.POWMOD)))
    mm_exact = dict(requires=[mm_pre], ensures=['%s == SPEC_mulmod(v_a, v_b, v_n)' % RV, '%s < v_n' % RV], assigns='')
    pm = M['pow_mod']
    pm_inv = ['m_n_addr > 1 && m_result < m_n_addr && m_base_addr < m_n_addr',
              'SPEC_mulmod(m_result, SPEC_powmod(m_base_addr, m_exp_addr, m_n_addr), m_n_addr) == SPEC_powmod(vf_ghost[0], vf_ghost[1], m_n_addr)']
    obs.append(Ob(id='C12.exact.pow_mod', prop='C12', group='C12', prelude=PRE, wrappers=WRAPS, inputs=[('uint64_t', 'base'), ('uint64_t', 'exp'), ('uint64_t', 'n')],
                  body="""
  ASSUME(n > 1);
  vf_ghost[0] = base; vf_ghost[1] = exp;
  ASSUME(%s);   /* lemma pm_entry at (base, exp, n) */
  uint64_t r = TARGET(base, exp, n);
  CHECK(r == SPEC_powmod(base, exp, n), "result-is-the-exact-residue-base-to-the-exp-mod-n");
  CHECK(r < n, "result-is-below-n");
""" % CL.pm_entry.inst(b0='base', e0='exp', n='n'),
                  kind='L', promote=False, wrap=True, budget=300, defs=('LL2C_UF_ARITH=1',), needs=('C12.lemmas.powmod',),
                  dfcc=dict(target=pm, replace=[mm],
                            native_search=dict(pre='n > 1', call='au::detail::pow_mod(base, exp, n)', ret='uint64_t', post='r == ref_pow(base, exp, n)',
                                               helpers='static uint64_t ref_pow(uint64_t b, uint64_t e, uint64_t n) { u128 r = 1 % n, x = b % n; while (e) { if (e & 1) r = r * x % n; x = x * x % n; e >>= 1; } return (uint64_t)r; }'),
                            contracts={pm: dict(requires=['v_n > 1'], ensures=[], assigns='',
                                                loops={0: dict(invariant=pm_inv, decreases='m_exp_addr', assigns='m_result, m_base_addr, m_exp_addr',
                                                               lemmas=[CL.pm_step.inst(r='m_result', b='m_base_addr', e='m_exp_addr', n='m_n_addr'),
                                                                       CL.pm_exit.inst(r='m_result', b='m_base_addr', n='m_n_addr'),
                                                                       CL.mm_facts.inst(a='m_result', b='m_base_addr', n='m_n_addr'), CL.mm_facts.inst(a='m_base_addr', b='m_base_addr', n='m_n_addr')])}),
                                       mm: mm_exact}),
                  contract='pow_mod(base,exp,n), n > 1, returns EXACTLY base^exp mod n: loop invariant result * (base^exp mod n) = base0^exp0 (mod n), result < n, base < n; '
                           'every mul_mod call meets mul_mod\'s precondition and mul_mod is replaced by its EXACT contract (C12.exact.mul_mod); base %= n does not divide by zero; '
                           'terminates (decreases exp). Arithmetic by lemmas pm_entry, pm_step, pm_exit (Lean)',
                  functions_under_contract=('au::detail::pow_mod',)))
    obs.append(Ob(id='C12.lemmas.gcd', prop='C12', group='C12.lemmas', kind='S', budget=600, body='', prelude='', wrappers=[], inputs=[],
                  dfcc=dict(tool='lean', text=LM.lean_file(CL.GCD, CL.GCD_PRELUDE)),
                  contract='Lean 4 + Mathlib accept: ' + '; '.join('%s (%s)' % (l.name, l.doc) for l in CL.GCD)))
    obs.append(Ob(id='C12.exact.gcd', prop='C12', group='C12', prelude=PRE, wrappers=WRAPS, inputs=[('uint64_t', 'a'), ('uint64_t', 'b')],
                  body="""
  vf_ghost[0] = a; vf_ghost[1] = b;
  ASSUME(%s);   /* lemma g_div at (a, b) */
  uint64_t r = TARGET(a, b);
  CHECK(r == SPEC_gcd(a, b), "result-is-the-greatest-common-divisor");
  CHECK(a == 0 || (r >= 1 && r <= a && LL2C_UREM64(a, r) == 0), "for-a-nonzero-the-result-is-a-divisor-of-a-between-1-and-a");
""" % CL.g_div.inst(a='a', b='b'),
                  kind='L', promote=False, wrap=True, budget=300, defs=('LL2C_UF_ARITH=1',), needs=('C12.lemmas.gcd',),
                  dfcc=dict(target=M['gcd'],
                            native_search=dict(pre='true', call='au::detail::gcd(a, b)', ret='uint64_t', post='r == ref_gcd(a, b)',
                                               helpers='static uint64_t ref_gcd(uint64_t a, uint64_t b) { if (!a || !b) return a | b; int s = __builtin_ctzll(a | b); a >>= __builtin_ctzll(a); '
                                                       'do { b >>= __builtin_ctzll(b); if (a > b) { uint64_t t = a; a = b; b = t; } b -= a; } while (b); return a << s; }'),
                            contracts={M['gcd']: dict(requires=[], ensures=[], assigns='',
                                                      loops={0: dict(invariant=['SPEC_gcd(m_a_addr, m_b_addr) == SPEC_gcd(vf_ghost[0], vf_ghost[1])'],
                                                                     decreases='m_b_addr', assigns='m_a_addr, m_b_addr, m_remainder',
                                                                     lemmas=[CL.g_step.inst(a='m_a_addr', b='m_b_addr'), CL.g_exit.inst(a='m_a_addr'),
                                                                             CL.g_facts.inst(a='m_a_addr', b='m_b_addr'), CL.g_facts.inst(a='m_b_addr', b='m_a_addr'),
                                                                             CL.g_facts.inst(a='LL2C_UREM64(m_a_addr, m_b_addr)', b='m_b_addr')])})}),
                  contract='gcd(a,b) returns EXACTLY the greatest common divisor for all 64-bit a, b: loop invariant gcd(a,b) == gcd(a0,b0), no division by zero, terminates '
                           '(decreases b). Arithmetic by lemmas g_step, g_exit (Lean; Nat.gcd of Mathlib is the specification)',
                  functions_under_contract=('au::detail::gcd',)))
    obs.append(Ob(id='C12.lemmas.is_perfect_square', prop='C12', group='C12.lemmas', kind='S', budget=600, body='', prelude='', wrappers=[], inputs=[],
                  dfcc=dict(tool='lean', text=LM.lean_file(CL.SQUARE, CL.SQUARE_PRELUDE)),
                  contract='Lean 4 + Mathlib accept: ' + '; '.join('%s (%s)' % (l.name, l.doc) for l in CL.SQUARE)))
    ips = M['is_perfect_square']
    obs.append(Ob(id='C12.exact.is_perfect_square', prop='C12', group='C12', prelude=PRE, wrappers=WRAPS, inputs=[('uint64_t', 'n')],
                  body="""
  ASSUME(%s);   /* lemma sq_small at n */
  ASSUME(%s);   /* lemma sq_init at n */
  _Bool r = TARGET(n);
  CHECK((r != 0) == (SPECP_issquare(n) != 0), "answers-true-exactly-for-perfect-squares");
""" % (CL.sq_small.inst(n='n'), CL.sq_init.inst(n='n')),
                  kind='L', promote=False, wrap=True, budget=300, defs=('LL2C_UF_ARITH=1',), needs=('C12.lemmas.is_perfect_square',),
                  dfcc=dict(target=ips,
                            native_search=dict(pre='true', call='au::detail::is_perfect_square(n)', ret='bool', post='r == ref_sq(n)', seeds=[(10785637507345693793,), (17179869188,)],
                                               helpers='#include <cmath>\nstatic bool ref_sq(uint64_t n) { uint64_t s = (uint64_t)sqrtl((long double)n); while ((u128)s * s > n) --s; '
                                                       'while ((u128)(s + 1) * (s + 1) <= n) ++s; return (u128)s * s == n; }'),
                            contracts={ips: dict(requires=[], ensures=[], assigns='',
                                                 loops={0: dict(invariant=['m_n_addr >= 2 && m_prev >= 1 && m_prev <= m_n_addr / 2 && SPEC_isqrt(m_n_addr) <= m_prev'],
                                                                decreases='m_prev', assigns='m_prev, m_curr, m_retval',
                                                                lemmas=[CL.sq_step.inst(n='m_n_addr', p='m_prev')])})}),
                  contract='is_perfect_square(n) is true EXACTLY when n is a perfect square, for every 64-bit n: Newton iteration invariant prev >= max(1, floor sqrt n), prev <= n/2; '
                           'prev + n/prev does not wrap, no division by zero, and NO unsigned product is formed (the square test is by division; a wrapping curr*curr was the defect fixed in 966ef0a: '
                           'with the product, no lemma justifies `return true` and this obligation fails); terminates (decreases prev). Arithmetic by lemmas sq_small, sq_init, sq_step (Lean; Nat.sqrt of Mathlib)',
                  functions_under_contract=('au::detail::is_perfect_square',)))
    obs.append(Ob(id='C12.lemmas.multiplicity', prop='C12', group='C12.lemmas', kind='S', budget=600, body='', prelude='', wrappers=[], inputs=[],
                  dfcc=dict(tool='lean', text=LM.lean_file(CL.MULT, '')),
                  contract='Lean 4 + Mathlib accept: ' + '; '.join('%s (%s)' % (l.name, l.doc) for l in CL.MULT)))
    mu = M['multiplicity']
    obs.append(Ob(id='C12.exact.multiplicity', prop='C12', group='C12', prelude=PRE, wrappers=WRAPS, inputs=[('uint64_t', 'f'), ('uint64_t', 'n')],
                  body="""
  ASSUME(n > 0 && f > 1);
  vf_ghost[0] = f; vf_ghost[1] = n;
  ASSUME(%s);   /* lemma mu_init at (f, n) */
  uint64_t r = TARGET(f, n);
  uint64_t cofactor = ll2c_exit_m_n_addr;   /* the function's own n at return, exposed as ghost state */
  CHECK(SPECP_powfits(f, r) && !LL2C_UMULOVF64(SPEC_pow(f, r), cofactor) && LL2C_UMUL64(SPEC_pow(f, r), cofactor) == n, "factor-to-the-result-times-cofactor-is-n");
  CHECK(LL2C_UREM64(cofactor, f) != 0, "cofactor-is-not-divisible-by-factor");
""" % CL.mu_init.inst(f='f', n='n'),
                  kind='L', promote=False, wrap=True, budget=300, defs=('LL2C_UF_ARITH=1',), needs=('C12.lemmas.multiplicity',),
                  dfcc=dict(target=mu,
                            native_search=dict(pre='n > 0 && f > 1', call='au::detail::multiplicity(f, n)', ret='uint64_t', post='ref_mult_ok(f, n, r)',
                                               helpers='static bool ref_mult_ok(uint64_t f, uint64_t n, uint64_t r) { u128 p = 1; for (uint64_t i = 0; i < r; ++i) { p *= f; if (p > n) return false; } '
                                                       'return n % (uint64_t)p == 0 && (n / (uint64_t)p) % f != 0; }'),
                            contracts={mu: dict(requires=[], ensures=[], assigns='', expose=['m_n_addr'],
                                                loops={0: dict(invariant=['m_factor_addr == vf_ghost[0] && m_factor_addr > 1 && m_n_addr > 0',
                                                                          'SPECP_powfits(m_factor_addr, m_m) && !LL2C_UMULOVF64(SPEC_pow(m_factor_addr, m_m), m_n_addr) '
                                                                          '&& LL2C_UMUL64(SPEC_pow(m_factor_addr, m_m), m_n_addr) == vf_ghost[1]'],
                                                               decreases='m_n_addr', assigns='m_m, m_n_addr',
                                                               lemmas=[CL.mu_step.inst(f='m_factor_addr', m='m_m', n='m_n_addr', n0='vf_ghost[1]')])})}),
                  contract='multiplicity(factor, n), n > 0, factor > 1, returns EXACTLY the exponent m with factor^m * cofactor == n and factor not dividing cofactor (the cofactor is the '
                           'function\'s own n at return): loop invariant factor^m * n == n0 without wrap; ++m does not wrap (m < 64), no division by zero, terminates (decreases n). '
                           'Arithmetic by lemmas mu_init, mu_step (Lean)',
                  functions_under_contract=('au::detail::multiplicity',)))
    obs.append(Ob(id='C12.lemmas.jacobi', prop='C12', group='C12.lemmas', kind='S', budget=600, body='', prelude='', wrappers=[], inputs=[],
                  dfcc=dict(tool='lean', text=LM.lean_file(CL.JACOBI, CL.JACOBI_PRELUDE)),
                  contract='Lean 4 + Mathlib accept: ' + '; '.join('%s (%s)' % (l.name, l.doc) for l in CL.JACOBI)))
    jp = M['jacobi_pos']
    J_REL = '(int)m_result * ((int)SPEC_jac(m_a_addr, m_n_addr) - 1) == (int)(int32_t)vf_ghost[2] * ((int)SPEC_jac(vf_ghost[0], vf_ghost[1]) - 1)'
    J_COMMON = '(m_n_addr & 1) == 1 && m_n_addr > 1 && m_a_addr < m_n_addr && (m_result == 1 || m_result == -1)'
    jl = lambda x, y: [CL.jc_basic.inst(a=x, n=y), CL.jc_even.inst(a=x, n=y), CL.jc_flip.inst(a=x, n=y)]
    obs.append(Ob(id='C12.exact.jacobi_symbol_positive_numerator', prop='C12', group='C12', prelude=PRE, wrappers=WRAPS,
                  inputs=[('uint64_t', 'a'), ('uint64_t', 'n'), ('int32_t', 'start')],
                  body="""
  ASSUME((n & 1) == 1 && n > 1 && a < n && (start == 1 || start == -1));
  vf_ghost[0] = a; vf_ghost[1] = n; vf_ghost[2] = (uint64_t)(int64_t)start;
  ASSUME(%s);   /* lemma jc_basic at (a, n) */
  int32_t r = (int32_t)TARGET(a, n, (uint32_t)start);
  CHECK(r == start * ((int)SPEC_jac(a, n) - 1), "result-is-start-times-the-jacobi-symbol");
""" % CL.jc_basic.inst(a='a', n='n'),
                  kind='L', promote=False, wrap=True, budget=300, defs=('LL2C_UF_ARITH=1',), needs=('C12.lemmas.jacobi',),
                  dfcc=dict(target=jp, replace=[M['gcd'], M['bool_sign']],
                            native_search=dict(pre='(n & 1) == 1 && n > 1 && a < n && (start == 1 || start == -1)', adjust='start = (start & 1) ? 1 : -1; n |= 1; if (n > 1) a %= n;',
                                               call='au::detail::jacobi_symbol_positive_numerator(a, n, start)', ret='int', post='r == start * ref_jacobi(a, n)',
                                               helpers='static int ref_jacobi(uint64_t a, uint64_t n) { int t = 1; a %= n; while (a) { int z = __builtin_ctzll(a); a >>= z; '
                                                       'if ((z & 1) && ((n & 7) == 3 || (n & 7) == 5)) t = -t; if ((a & 3) == 3 && (n & 3) == 3) t = -t; uint64_t x = a; a = n % x; n = x; } return n == 1 ? t : 0; }'),
                            contracts={jp: dict(requires=[], ensures=[], assigns='',
                                                loops={0: dict(invariant=[J_COMMON, J_REL], decreases='m_n_addr', assigns='m_a_addr, m_n_addr, m_result, m_sign_for_even, m_new_a, m_retval',
                                                               lemmas=jl('m_a_addr', 'm_n_addr')),
                                                       1: dict(invariant=[J_COMMON, J_REL, 'm_a_addr != 0', 'm_sign_for_even == (((m_n_addr % 8) == 1 || (m_n_addr % 8) == 7) ? 1 : -1)'],
                                                               decreases='m_a_addr', assigns='m_a_addr, m_result',
                                                               lemmas=jl('m_a_addr', 'm_n_addr') + jl('m_a_addr / 2', 'm_n_addr') + jl('LL2C_UREM64(m_n_addr, m_a_addr)', 'm_a_addr'))}),
                                       M['gcd']: dict(requires=[], ensures=['%s == SPEC_gcd(v_a, v_b)' % RV], assigns=''),
                                       M['bool_sign']: CONTRACTS['bool_sign']}),
                  contract='jacobi_symbol_positive_numerator(a, n, start), n odd > 1, a < n, start = +-1, returns EXACTLY start * (a|n) (Mathlib jacobiSym is the specification): loop '
                           'invariants result * (a|n) == start * (a0|n0), n odd > 1, a < n; gcd replaced by its EXACT contract (C12.exact.gcd), bool_sign by its proved contract; the int '
                           'multiplications do not overflow, no division by zero, both loops terminate (decreases n / a). Arithmetic by lemmas jc_basic, jc_even, jc_flip (Lean: multiplicativity, '
                           'the second supplement, quadratic reciprocity)',
                  functions_under_contract=('au::detail::jacobi_symbol_positive_numerator',)))
    # find_prime_factor: every return path hands out a table prime that divides n, n itself (trial division exhausted or is_prime(n)), or a value for which
    # is_prime has just answered true.  is_prime is under its purity contract (a deterministic predicate), find_pollard_rho_factor under `no guarantee at all`.
    fpf = M['find_prime_factor']; ISP = 'f_' + M['is_prime']
    obs.append(Ob(id='C12.structure.find_prime_factor', prop='C12', group='C12', prelude=PRE, wrappers=WRAPS, inputs=[('uint64_t', 'n')], body='''
  ASSUME(n > 1);
  uint64_t r = TARGET(n);
  _Bool table_prime_dividing_n = (r >= 2 && r <= 541);   /* returned from the trial-division loop, whose own guard is n %% p == 0 */
  _Bool n_itself_after_exhausted_trial_division = (r == n && n < 292681);
  _Bool n_itself_declared_prime = (r == n && %s_set[0] && %s_key[0][0] == n && %s_val[0]);
  _Bool declared_prime_by_last_check = (%s_last_key0 == r && %s_last_ret);
  CHECK(table_prime_dividing_n || n_itself_after_exhausted_trial_division || n_itself_declared_prime || declared_prime_by_last_check, "returns-only-values-vetted-as-prime");
''' % (ISP, ISP, ISP, ISP, ISP), kind='L', promote=False, wrap=False, budget=300,
                  dfcc=dict(target=fpf, replace=[M['pollard']], pure=['^' + M['is_prime'] + '$'],
                            contracts={fpf: dict(requires=[], ensures=[], assigns='',
                                                 loops={0: dict(invariant=['m_i <= 100'], decreases='100 - m_i', assigns='m_i, m_p, m_retval'),
                                                        1: dict(invariant=['1'], assigns='m_factor', optional=True)}),
                                       M['pollard']: dict(requires=[], ensures=[], assigns='')}),
                  contract='find_prime_factor(n), n > 1: the result is a table prime <= 541 dividing n, or n itself after trial division was exhausted (n < 541^2) or is_prime(n) '
                           'answered true, or a value for which the LAST is_prime call answered true; FirstPrimes::values[i] stays in bounds (i <= 100), no division by zero. '
                           'is_prime under its purity contract, find_pollard_rho_factor under the empty contract.  ASSUMED: is_prime is exact (Baillie-PSW), rho factors divide n',
                  functions_under_contract=('au::detail::find_prime_factor',)))
    # jacobi_symbol(a, n): reduction to the positive-numerator routine with the right residue, modulus and sign:
    #   (a/n) = (|a| mod n / n) for a >= 0, and (-1/n) * (|a| mod n / n) for a < 0, where (-1/n) = +1 exactly when n = 1 (mod 4)
    JP = 'f_' + M['jacobi_pos']
    obs.append(Ob(id='C12.refinement.jacobi_symbol', prop='C12', group='C12', prelude=PRE, wrappers=WRAPS, inputs=[('int64_t', 'a'), ('uint64_t', 'n')], body='''
  ASSUME(n > 1 && (n & 1) == 1 && a != INT64_MIN);
  uint64_t mag = a < 0 ? (uint64_t)(-a) : (uint64_t)a;
  ASSUME(%s);   /* lemma rem_facts at (|a|, n) */
  uint32_t r = TARGET((uint64_t)a, n);
  CHECK(%s_calls == 1, "delegates-once-to-the-positive-numerator-routine");
  CHECK(%s_last_key[0] < n && %s_last_key[0] <= mag && (mag >= n || %s_last_key[0] == mag), "numerator-is-a-residue-of-abs-a");
  CHECK(%s_last_key[0] == LL2C_UREM64(mag, n), "numerator-is-exactly-abs-a-mod-n");
  CHECK(%s_last_key[1] == n, "modulus-is-passed-unchanged");
  CHECK((int32_t)%s_last_key[2] == ((a >= 0 || (n %% 4) == 1) ? 1 : -1), "start-sign-is-minus-one-over-n-for-negative-a");
  CHECK(r == %s_last_ret, "returns-what-the-routine-returned");
''' % (CL.rem_facts.inst(x='mag', n='n'), JP, JP, JP, JP, JP, JP, JP, JP), kind='L', promote=False, wrap=False, budget=300, defs=('LL2C_UF_ARITH=1',), needs=('C12.lemmas.jacobi',),
                  dfcc=dict(target=M['jacobi'], target_re=r'^_ZN2au6detail13jacobi_symbolE', pure=['^' + M['jacobi_pos'] + '$'], contracts={M['jacobi']: dict(requires=[], ensures=[], assigns='')}),
                  contract='jacobi_symbol(a, n), n odd > 1: calls jacobi_symbol_positive_numerator exactly once with a numerator that is a residue of |a| below n (exactly |a| mod n: the remainder operator is an uninterpreted function on both sides, so the claim is that the code applies it to |a| and n), modulus n, and start sign +1 for a >= 0 and '
                           '(-1/n) = (n mod 4 == 1 ? +1 : -1) for a < 0, and returns its result; no UB:*.  The positive-numerator routine itself stays ASSUMED',
                  functions_under_contract=('au::detail::jacobi_symbol',)))
    obs.append(D('C12.callsites.strong_lucas', 'strong_lucas', '  uint64_t n;\n  f_%s(n);' % M['strong_lucas'],
                 replace=('is_perfect_square', 'find_first_D', 'decompose', 'find_sl', 'double_sl'), must=('postcondition', 'precondition', 'step'),
                 contract_text='strong_lucas(n), requires n < 2^64-1 (n+1 must not wrap): decompose(n+1), find_strong_lucas_element and double_strong_lucas_index are called within their '
                               'preconditions on every path (BAD_INPUT guard included), loop invariant element < n, decreases s - i.  is_perfect_square and the Selfridge search '
                               '(result D.mag < 2^31) are ASSUMED contracts', fns=('au::detail::strong_lucas',)))
    # one concrete fact needed at baillie_psw's call of strong_lucas: 2^64-1 is rejected by the base-2 Miller-Rabin round (so n+1 never wraps in strong_lucas).
    # Decided by running the real lowered code on that one input (all loops unwound on constants).
    wmr = Wrapper('w_mr2_of', 'int32_t', [('uint64_t', 'n')], 'return (int)au::detail::miller_rabin(2u, n);')
    obs.append(Ob(id='C12.fact.miller_rabin_2_rejects_2_64_minus_1', prop='C12', group='C12.fact', prelude=PRE, wrappers=[wmr], inputs=[],
                  body='\n  CHECK(w_mr2_of(18446744073709551615ULL) == 0, "miller-rabin-base-2-says-COMPOSITE-for-2-to-the-64-minus-1");\n', unwind=70, budget=600,
                  contract='miller_rabin(2, 2^64-1) == COMPOSITE (single concrete input; every loop and the mul_mod recursion unwound on constants, unwinding assertions on)',
                  functions_under_contract=('au::detail::miller_rabin (one input)',)))
    mr_c = dict(CONTRACTS['miller_rabin'])
    mr_c['ensures'] = CONTRACTS['miller_rabin']['ensures'] + [] if __import__('os').environ.get('VF_TWIN_BPSW') else CONTRACTS['miller_rabin']['ensures'] + ['!(v_a == 2 && v_n == 18446744073709551615ULL) || %s == 0' % RV]   # the concrete fact above
    mr_c.pop('loops', None)
    obs.append(D('C12.callsites.baillie_psw', 'baillie_psw', '  uint64_t n;\n  f_%s(n);' % M['baillie_psw'], replace=('miller_rabin', 'strong_lucas'),
                 contracts={M['baillie_psw']: dict(requires=['1'], ensures=['%s <= 2' % RV], assigns=''), M['miller_rabin']: mr_c}, must=('postcondition', 'precondition'),
                 contract_text='baillie_psw(n), every n: miller_rabin and strong_lucas are called within their preconditions (strong_lucas never sees 2^64-1 because the base-2 round '
                               'rejects it: fact obligation above); result is one of the three PrimeResult values.  That the answer is PROBABLY_PRIME exactly for primes is ASSUMED',
                 fns=('au::detail::baillie_psw',)))
    pc = dict(CONTRACTS['pollard'], requires=[], ensures=[], expose=['m_t'])
    obs.append(Ob(id='C12.structure.find_pollard_rho_factor', prop='C12', group='C12', prelude=PRE, wrappers=WRAPS, inputs=[('uint64_t', 'n')], body='''
  ASSUME(n > 4);
  uint64_t r = TARGET(n);
  CHECK(r >= 1 && r <= n, "result-in-1-to-n");
  CHECK(r < n || ll2c_exit_m_t >= n / 2, "n-itself-is-returned-only-after-every-parameter-t-was-tried");
''', kind='L', promote=False, wrap=False, budget=300,
                  dfcc=dict(target=M['pollard'], replace=[M['x2t'], M['gcd'], M['absdiff']],
                            contracts={M['pollard']: pc, M['x2t']: CONTRACTS['x2t'], M['gcd']: CONTRACTS['gcd_div'], M['absdiff']: CONTRACTS['absdiff']}),
                  contract='find_pollard_rho_factor(n), n > 4: the failure value n is returned only when the parameter loop is exhausted (t >= n/2 at exit); a factor handed back from inside '
                           'the loop is < n.  Callees under their contracts; gcd in [1, n] ASSUMED', functions_under_contract=('au::detail::find_pollard_rho_factor',)))
    gcd_exact_div = dict(requires=[], ensures=['%s == SPEC_gcd(v_a, v_b)' % RV, 'v_a == 0 || (%s >= 1 && %s <= v_a && LL2C_UREM64(v_a, %s) == 0)' % (RV, RV, RV)], assigns='')
    pcd = dict(requires=[], ensures=[], assigns='',
               loops={0: dict(CONTRACTS['pollard']['loops'][0]),
                      1: dict(CONTRACTS['pollard']['loops'][1], invariant=CONTRACTS['pollard']['loops'][1]['invariant'] + ['LL2C_UREM64(m_n_addr, m_factor) == 0'])})
    obs.append(Ob(id='C12.exact.find_pollard_rho_factor.divides', prop='C12', group='C12', prelude=PRE, wrappers=WRAPS, inputs=[('uint64_t', 'n')], body="""
  ASSUME(n > 4);
  ASSUME(%s);   /* lemma g_div at (n, n): n divides n */
  uint64_t r = TARGET(n);
  CHECK(r >= 1 && r <= n && LL2C_UREM64(n, r) == 0, "the-result-divides-n");
""" % CL.g_div.inst(a='n', b='n'), kind='L', promote=False, wrap=False, budget=300, defs=('LL2C_UF_ARITH=1',), needs=('C12.lemmas.gcd',),
                  dfcc=dict(target=M['pollard'], replace=[M['x2t'], M['gcd'], M['absdiff']],
                            native_search=dict(pre='n > 4 && n < 1000000000000ULL', call='au::detail::find_pollard_rho_factor(n)', ret='uint64_t', post='r >= 1 && r <= n && n % r == 0',
                                               adjust='n = n % 1000000000000ULL;'),
                            contracts={M['pollard']: pcd, M['x2t']: CONTRACTS['x2t'], M['gcd']: gcd_exact_div, M['absdiff']: CONTRACTS['absdiff']}),
                  contract='find_pollard_rho_factor(n), n > 4, returns a DIVISOR of n in [1, n]: inner-loop invariant n mod factor == 0; gcd is replaced by its exact contract '
                           '(value == gcd and, for a != 0, a divisor of a in [1, a]: both clauses proved on gcd itself by C12.exact.gcd with lemma g_div)',
                  functions_under_contract=('au::detail::find_pollard_rho_factor',)))
    obs.append(D('C12.callsites.find_pollard_rho_factor', 'pollard', '  uint64_t n;\n  f_%s(n);' % M['pollard'], replace=('x2t', 'gcd', 'absdiff'), wrap=False,
                 contracts={M['gcd']: CONTRACTS['gcd_div']}, must=('postcondition', 'precondition', 'step'),
                 contract_text='find_pollard_rho_factor(n), requires n > 4: x_squared_plus_t_mod_n is always called with x < n and t < n (both loops: tortoise, hare < n; t < n/2), '
                               'result in [1, n]; the outer loop terminates (decreases n/2 - t); the inner cycle search has no variant (termination of Pollard rho is not claimed); '
                               'gcd(n, d) in [1, n] is an ASSUMED callee contract; max_cycle_length doubling is not checked for wrap-around (2^64 iterations away)',
                 fns=('au::detail::find_pollard_rho_factor',)))
    # is_perfect_square: Newton iteration from above.  Invariant: prev >= isqrt(n) (stated as (prev+1)^2 > n) and prev <= n/2 + 1, hence n / prev never divides by zero
    # and prev + n / prev does not wrap.  curr*curr is a deliberately wrapping product in the source: not checked here (wrap=False), see DESIGN.md 10.2.
    ips = M['is_perfect_square']
    hD = '  struct S_struct_au__detail__LucasDParameter *d;\n  f_%s(d);'
    obs.append(D('C12.contract.as_int', 'as_int', hD % M['as_int'], wrap=False,
                 contract_text='as_int(D): requires D.mag < 2^31; ensures +/- mag; the int multiplication does not overflow'))
    obs.append(D('C12.contract.increment_D', 'increment_D', hD % M['increment_D'], contract_text='increment(D): mag += 2 without wrap, sign flips; assigns only *D'))
    return obs
