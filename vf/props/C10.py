"""C10 -- common point unit keeps every input integral and non-negative (value half, relational contract).  DESIGN.md section 5."""
from fractions import Fraction as Fr
from core import Ob, Wrapper
import grid as G
from props.C09 import PT, prelude, FINE

ASSUMPTIONS = ['unsigned reps: the RESULT is required to be exact; the library reaches it through a modular subtraction of the (negative) origin displacement cast to the unsigned rep, which is defined behaviour and is not flagged (an earlier version of this contract also demanded no unsigned wrap-around in intermediates: that was more than C10 states, a false alarm of the contract, removed)',
               'type identity of CommonPointUnitT under permutation / repetition is a statement about types: no function contract expresses it; it is checked per unit set by supporting static probes (C10.static.*: all orderings and repetitions of four unit triples), reported separately and not counted as proved',
               'the scale m_i and offset c_i are read off the code itself (r_i(0), r_i(1) - r_i(0)); the contract then pins them against the independent '
               'unit sizes and origins by cross-consistency, because C10 promises SOME positive integer scale and non-negative offset, not particular ones']

LISTS_Q = [('C', 'K'), ('F', 'C'), ('K', 'F'), ('C', 'K', 'F'), ('X1', 'X2'), ('X1', 'K', 'C'), ('X3', 'C'), ('mK', 'F'),
           # a lower origin written in a finer unit next to a higher origin written in a coarser one, in both orders, and mixed magnitudes
           ('C', 'X4'), ('X4', 'C'), ('X5', 'X4'), ('X4', 'F'), ('X2', 'X5', 'C'), ('mK', 'X4'),
           # three and four units whose origin offsets need different granularities, the lowest origin in the middle of the library's canonical order
           ('X6', 'X7', 'X8'), ('X8', 'X6', 'X7'), ('K', 'X6', 'X8', 'X5'), ('X7', 'C', 'X8'),
           # an origin BELOW the generic zero origin next to units that have no origin member at all
           ('K', 'X9'), ('X9', 'K'), ('X9', 'mK', 'C'), ('X2', 'K')]
LISTS_T = LISTS_Q + [('X2', 'F', 'mK'), ('X1', 'X3'), ('K', 'mK'), ('X2', 'C', 'K'), ('F', 'X1', 'X2'), ('C', 'mK', 'X3')]


def obligations(tier, seed):
    obs = []
    lists = LISTS_T if tier == 'thorough' else LISTS_Q
    for k, L in enumerate(lists):
        cpu = 'au::CommonPointUnitT<%s>' % ', '.join(PT[n]['ty'] for n in L)
        for rep, X in (('i64', 10 ** 12), ('u32', 10 ** 4)):
            if rep == 'u32' and tier == 'quick' and k % 2 == 1: continue
            ct = G.ctype(rep)
            tag = '%s_%s' % ('_'.join(L), rep)
            ws = [Wrapper('w_r%d_%s' % (i, tag), ct, [(ct, 'x')], 'return au::make_quantity_point<%s>(x).coerce_in(%s{});' % (PT[n]['ty'], cpu))
                  for i, n in enumerate(L)]
            pre = prelude(*L)
            grp = 'C10.%s' % '_'.join(L)
            # (a), (c), (d): constants only
            lines = []
            for i, w in enumerate(ws):
                lines.append('  i128 c%d = (i128)%s(0); i128 m%d = (i128)%s(1) - c%d;' % (i, w.name, i, w.name, i))
                lines.append('  CHECK(m%d >= 1, "scale-%d-is-a-positive-integer");' % (i, i))
                lines.append('  CHECK(c%d >= 0, "offset-%d-is-non-negative");' % (i, i))
            for i, a in enumerate(L):
                for j, b in enumerate(L):
                    if i >= j: continue
                    ui, uj = PT[a]['u'] * FINE, PT[b]['u'] * FINE
                    oi, oj = PT[a]['o'] * FINE, PT[b]['o'] * FINE
                    assert ui.denominator == uj.denominator == oi.denominator == oj.denominator == 1
                    lines.append('  CHECK(m%d * %s == m%d * %s, "scales-%d-%d-in-proportion-to-unit-sizes");' % (i, G.lit(int(uj)), j, G.lit(int(ui)), i, j))
                    lines.append('  CHECK((c%d - c%d) * %s == %s * m%d, "offsets-%d-%d-differ-by-the-origin-difference");' % (
                        i, j, G.lit(int(ui)), G.lit(int(oi - oj)), i, i, j))
            lines.append('  CHECK(%s, "lowest-origin-maps-to-offset-zero");' % ' || '.join('c%d == 0' % i for i in range(len(L))))
            obs.append(Ob(id='C10.constants.%s' % tag, prop='C10', group=grp, prelude=pre, wrappers=ws, inputs=[], body='\n' + '\n'.join(lines) + '\n',
                          contract='with c_i = r_i(0), m_i = r_i(1) - r_i(0) for r_i(x) = U_i_pt(x).coerce_in(CommonPointUnit<%s>): m_i >= 1, c_i >= 0, '
                                   'm_i*u_j == m_j*u_i, (c_i - c_j)*u_i == (o_i - o_j)*m_i, some c_i == 0' % ', '.join(L),
                          functions_under_contract=('au::QuantityPoint::coerce_in (to CommonPointUnitT)', 'au::CommonPointUnit origin/magnitude')))
            for i, (n, w) in enumerate(zip(L, ws)):
                lo = -X if rep == 'i64' else 0
                body = '''
  i128 c = (i128)%s(0); i128 m = (i128)%s(1) - c;
  ASSUME(x >= %d && x <= %d);
  CHECK((i128)%s(x) == c + m * (i128)x, "conversion-to-common-point-unit-is-x-times-scale-plus-offset");
''' % (w.name, w.name, lo, X, w.name)
                twin = body.replace('c + m * (i128)x', 'c + m * (i128)x + (x == 7)') if (k + i) % 3 == 0 else None
                obs.append(Ob(id='C10.affine.%s.%d_%s' % (tag, i, n), prop='C10', group=grp, prelude=pre, wrappers=[w], inputs=[(ct, 'x')], body=body,
                              twin=twin,
                              contract='forall %s x in [%d, %d]: r_i(x) == c_i + m_i * x; no UB:*' % (ct, lo, X),
                              functions_under_contract=('au::QuantityPoint::coerce_in (to CommonPointUnitT)',)))
    # ---- supporting static facts: the TYPE of the common point unit is the same for every ordering and repetition of the inputs, and is one of the inputs whenever an
    #      input already has that scale and origin.  Type identity is not expressible as a function contract; these probes decide it per unit set (all orderings, repetitions)
    import itertools
    SH = ('#include <type_traits>\n#include "au/au.hh"\n#include "au/units/kelvins.hh"\n#include "au/units/celsius.hh"\n#include "au/units/fahrenheit.hh"\n#include "au/units/meters.hh"\n'
          '#include "au/units/seconds.hh"\n#define VF_STATIC_FACT(c) static_assert(c, "VF_STATIC_FACT")\nusing namespace au;\n'
          'struct HalfCelsius : decltype(Kelvins{} / mag<2>()) { static constexpr auto origin() { return centi(kelvins)(27315); } static constexpr const char label[] = "half_degC"; };\n'
          'constexpr const char HalfCelsius::label[];\n'
          'struct DoubleKelvins200 : decltype(Kelvins{} * mag<2>()) { static constexpr auto origin() { return kelvins(200); } static constexpr const char label[] = "dblK200"; };\n'
          'constexpr const char DoubleKelvins200::label[];\n')
    sets = [('lib_temperatures', ['Celsius', 'Kelvins', 'Fahrenheit']),
            ('same_magnitude_scaled_and_named', ['decltype(Kelvins{} * mag<2>())', 'decltype(HalfCelsius{} * mag<4>())', 'DoubleKelvins200']),
            ('equal_scale_products', ['decltype(Kilo<Meters>{} * Milli<Seconds>{})', 'decltype(Meters{} * Seconds{})', 'decltype(Centi<Meters>{} * Hecto<Seconds>{})']),
            ('scaled_kelvins', ['Kelvins', 'Milli<Kelvins>', 'decltype(Kelvins{} / mag<3>())'])]
    for (nm, us) in sets:
        L = ['using U0 = %s; using U1 = %s; using U2 = %s;' % tuple(us), 'using REF = CommonPointUnitT<U0, U1, U2>;']
        for perm in itertools.permutations(range(3)):
            L.append('VF_STATIC_FACT((std::is_same<REF, CommonPointUnitT<%s>>::value));   // ordering %s' % (', '.join('U%d' % k for k in perm), perm))
        L.append('VF_STATIC_FACT((std::is_same<REF, CommonPointUnitT<U0, U1, U0, U2, U1>>::value));   // repetition')
        L.append('VF_STATIC_FACT((std::is_same<REF, CommonPointUnitT<U2, U2, U1, U0>>::value));   // repetition')
        L.append('VF_STATIC_FACT((std::is_same<CommonPointUnitT<U0, U1>, CommonPointUnitT<U1, U0>>::value));')
        L.append('VF_STATIC_FACT((std::is_same<CommonPointUnitT<U0, U1>, CommonPointUnitT<U1, U0, U1>>::value));')
        L.append('VF_STATIC_FACT((std::is_same<decltype(make_quantity_point<U0>(1) - make_quantity_point<U1>(1)), decltype(make_quantity_point<U1>(1) - make_quantity_point<U0>(1))>::value));')
        obs.append(Ob(id='C10.static.type-identity.%s' % nm, prop='C10', group='C10.static', prelude='', wrappers=[], inputs=[], kind='S', body=SH + '\n'.join(L) + '\nint main() {}\n',
                      contract='static facts: CommonPointUnitT over {%s} is the same type for all 6 orderings and under repetition; the type of a mixed-unit point difference does not depend on the operand order'
                               % ', '.join(us), functions_under_contract=('au::CommonPointUnitT (compile-time)',)))
    obs.append(Ob(id='C10.static.common-is-an-input', prop='C10', group='C10.static', prelude='', wrappers=[], inputs=[], kind='S',
                  body=SH + 'VF_STATIC_FACT((std::is_same<CommonPointUnitT<Kelvins, Milli<Kelvins>>, Milli<Kelvins>>::value));\n'
                            'VF_STATIC_FACT((std::is_same<CommonPointUnitT<Milli<Kelvins>, Kelvins, Milli<Kelvins>>, Milli<Kelvins>>::value));\n'
                            'VF_STATIC_FACT((std::is_same<CommonPointUnitT<Celsius, Celsius>, Celsius>::value));\nint main() {}\n',
                  contract='static facts: the common point unit IS one of the inputs when an input already has that scale and origin (Kelvins with milli-kelvins -> milli-kelvins; a unit with itself)',
                  functions_under_contract=('au::CommonPointUnitT (compile-time)',)))
    return obs
