"""C13 -- Quantity is a transparent wrapper around its rep (value half).  DESIGN.md section 5."""
from core import Ob, Wrapper
import grid as G

ASSUMPTIONS = ['floating scalar division (both reps) and double scalar multiplication are decided as STRUCTURAL obligations (one application of the raw operator to the stored value and the scalar; the operator is uninterpreted on both sides, because two symbolic IEEE dividers / 53-bit multipliers are equated by no installed back end); the integer versions, float scalar multiplication, + and - are compared with the concrete operator bit for bit',
               'sizeof/alignof/trivially-copyable/standard-layout, default construction and result TYPES are compile-time facts: no contract expresses them; they are checked by supporting static probes (C13.static.*), reported separately and not counted as proved',
               'sub-int reps: operator% and unary +/- are rejected by clang (narrowing in `return {...}`) and accepted by g++; those instances are lowered with -Wno-c++11-narrowing',
               '"raw operator" means the C++ built-in operator on the promoted operands, followed by the conversion to the result rep the library performs; '
               'the contract requires the raw expression to be defined (no signed overflow, no division by zero) and then demands the same value and no UB:* in the closure']


def wide(rep):
    return 'i64' if G.REPS[rep]['bits'] <= 32 and rep != 'u32' else ('u64' if rep == 'u32' else ('i128' if G.REPS[rep]['signed'] else 'u128'))


def obligations(tier, seed):
    obs = []
    U = 'au::Meters'; pre = '#include "au/units/meters.hh"'
    for rep in G.INT_REPS:
        ct = G.ctype(rep); P = G.promoted(rep); cp = G.ctype(P)
        mk = lambda v: 'au::make_quantity<%s>(%s)' % (U, v)
        grp = 'C13.%s' % rep
        psigned = G.REPS[P]['signed']
        def defined(expr):   # raw expression on promoted operands is defined
            return 'FITS(%s, %s)' % (P, expr) if psigned else '1'
        # narrowing to the result type: the promoted value converted to rep (modular for unsigned, value-preserving under `defined`)
        A, B = '((i128)a)', '((i128)b)'
        # + - (result rep = promoted type), unary (result rep = rep via list-init), %
        wpl = Wrapper('w_plus_' + rep, cp, [(ct, 'a'), (ct, 'b')], 'return (%s + %s).in(%s{});' % (mk('a'), mk('b'), U))
        wmi = Wrapper('w_minus_' + rep, cp, [(ct, 'a'), (ct, 'b')], 'return (%s - %s).in(%s{});' % (mk('a'), mk('b'), U))
        wmo = Wrapper('w_mod_' + rep, ct, [(ct, 'a'), (ct, 'b')], 'return (%s %% %s).in(%s{});' % (mk('a'), mk('b'), U))
        wup = Wrapper('w_uplus_' + rep, ct, [(ct, 'a')], 'return (+%s).in(%s{});' % (mk('a'), U))
        wun = Wrapper('w_uminus_' + rep, ct, [(ct, 'a')], 'return (-%s).in(%s{});' % (mk('a'), U))
        body = '''
  if (%s) CHECK(%s(a, b) == (%s)((%s)a + (%s)b), "plus-is-raw-plus");
  if (%s) CHECK(%s(a, b) == (%s)((%s)a - (%s)b), "minus-is-raw-minus");
  if (b != 0 && !((i128)a == MIN_OF(%s) && (i128)b == -1)) CHECK(%s(a, b) == (%s)((%s)a %% (%s)b), "mod-is-raw-mod");
  CHECK(%s(a) == a, "unary-plus-is-identity");
  if (%s) CHECK(%s(a) == (%s)(-(%s)a), "unary-minus-is-raw-negation");
''' % (defined(A + ' + ' + B), wpl.name, cp, cp, cp, defined(A + ' - ' + B), wmi.name, cp, cp, cp,
       P, wmo.name, ct, cp, cp, wup.name, defined('-' + A), wun.name, ct, cp)
        obs.append(Ob(id='C13.arith.%s' % rep, prop='C13', group=grp, prelude=pre, wrappers=[wpl, wmi, wmo, wup, wun], inputs=[(ct, 'a'), (ct, 'b')], body=body,
                      contract='forall a,b:%s for which the raw expression is defined: same-unit + - %% unary+ unary- give exactly the raw operator result (promoted to %s, then the library\'s conversion)' % (ct, cp),
                      functions_under_contract=('au::operator+,-,%(Quantity<U,R>,Quantity<U,R>)', 'au::Quantity::operator+() / operator-()')))
        # comparisons
        ops = [('eq', '=='), ('ne', '!='), ('lt', '<'), ('le', '<='), ('gt', '>'), ('ge', '>=')]
        ws = [Wrapper('w_%s_%s' % (n, rep), 'bool', [(ct, 'a'), (ct, 'b')], 'return %s %s %s;' % (mk('a'), op, mk('b'))) for n, op in ops]
        body = '\n' + '\n'.join('  CHECK(%s(a, b) == (a %s b), "%s-is-raw-comparison");' % (w.name, op, n) for w, (n, op) in zip(ws, ops)) + '\n'
        obs.append(Ob(id='C13.cmp.%s' % rep, prop='C13', group=grp, prelude=pre, wrappers=ws, inputs=[(ct, 'a'), (ct, 'b')], body=body,
                      twin=body.replace('(a <= b)', '(a < b)') if rep in ('i32', 'u8') else None,
                      contract='forall a,b:%s: the six same-unit comparisons equal the raw comparisons' % ct,
                      functions_under_contract=('au::operator==..>=(Quantity<U,R>,Quantity<U,R>)',)))
        # compound assignment and scalar * /
        wpe = Wrapper('w_pluseq_' + rep, ct, [(ct, 'a'), (ct, 'b')], 'auto q = %s; q += %s; return q.in(%s{});' % (mk('a'), mk('b'), U))
        wme = Wrapper('w_minuseq_' + rep, ct, [(ct, 'a'), (ct, 'b')], 'auto q = %s; q -= %s; return q.in(%s{});' % (mk('a'), mk('b'), U))
        wte = Wrapper('w_timeseq_' + rep, ct, [(ct, 'a'), (ct, 'b')], 'auto q = %s; q *= b; return q.in(%s{});' % (mk('a'), U))
        wde = Wrapper('w_diveq_' + rep, ct, [(ct, 'a'), (ct, 'b')], 'auto q = %s; q /= b; return q.in(%s{});' % (mk('a'), U))
        wsm = Wrapper('w_scalarmul_' + rep, cp, [(ct, 'a'), (ct, 'b')], 'return (%s * b).in(%s{});' % (mk('a'), U))
        wms = Wrapper('w_mulscalar_' + rep, cp, [(ct, 'a'), (ct, 'b')], 'return (b * %s).in(%s{});' % (mk('a'), U))
        wsd = Wrapper('w_scalardiv_' + rep, cp, [(ct, 'a'), (ct, 'b')], 'return (%s / b).in(%s{});' % (mk('a'), U))
        divdef = '(b != 0 && !((i128)a == MIN_OF(%s) && (i128)b == -1))' % P
        body = '''
  if (%s) CHECK(%s(a, b) == (%s)((%s)a + (%s)b), "plus-assign-is-raw");
  if (%s) CHECK(%s(a, b) == (%s)((%s)a - (%s)b), "minus-assign-is-raw");
  if (%s) { CHECK(%s(a, b) == (%s)((%s)a * (%s)b), "times-assign-is-raw");
            CHECK(%s(a, b) == (%s)((%s)a * (%s)b), "quantity-times-scalar-is-raw");
            CHECK(%s(a, b) == (%s)((%s)b * (%s)a), "scalar-times-quantity-is-raw"); }
  if (%s) { CHECK(%s(a, b) == (%s)((%s)a / (%s)b), "divide-assign-is-raw");
            CHECK(%s(a, b) == (%s)((%s)a / (%s)b), "quantity-over-scalar-is-raw"); }
''' % (defined(A + ' + ' + B), wpe.name, ct, cp, cp, defined(A + ' - ' + B), wme.name, ct, cp, cp,
       defined(A + ' * ' + B), wte.name, ct, cp, cp, wsm.name, cp, cp, cp, wms.name, cp, cp, cp,
       divdef, wde.name, ct, cp, cp, wsd.name, cp, cp, cp)
        obs.append(Ob(id='C13.compound-scalar.%s' % rep, prop='C13', group=grp, prelude=pre, wrappers=[wpe, wme, wte, wde, wsm, wms, wsd],
                      inputs=[(ct, 'a'), (ct, 'b')], body=body,
                      contract='forall a,b:%s with the raw expression defined: += -= *= /= and scalar * / give exactly the raw result' % ct,
                      functions_under_contract=('au::Quantity::operator+=,-=,*=,/=', 'au::operator*(Quantity,T)', 'au::operator*(T,Quantity)', 'au::operator/(Quantity,T)')))
        # compound assignment and scalar * / with a scalar of a DIFFERENT integral type: the raw operator works in the common type and converts back last
        mixed_scalars = {'i32': ('i64', 'u32', 'i8'), 'i64': ('u64', 'i32'), 'u8': ('i32',), 'u32': ('i32', 'u64'), 'i16': ('u16',)}
        if tier == 'thorough': mixed_scalars = {r: tuple(x for x in G.INT_REPS if x != r) for r in G.INT_REPS}
        for srep in mixed_scalars.get(rep, ()):
            cs2 = G.ctype(srep)
            C2 = G.common(rep, srep); cc = G.ctype(C2)
            wte2 = Wrapper('w_timeseq_%s_%s' % (rep, srep), ct, [(ct, 'a'), (cs2, 's')], 'auto q = %s; q *= s; return q.in(%s{});' % (mk('a'), U))
            wde2 = Wrapper('w_diveq_%s_%s' % (rep, srep), ct, [(ct, 'a'), (cs2, 's')], 'auto q = %s; q /= s; return q.in(%s{});' % (mk('a'), U))
            wsm2 = Wrapper('w_scalarmul_%s_%s' % (rep, srep), cc, [(ct, 'a'), (cs2, 's')], 'return (%s * s).in(%s{});' % (mk('a'), U))
            wsd2 = Wrapper('w_scalardiv_%s_%s' % (rep, srep), cc, [(ct, 'a'), (cs2, 's')], 'return (%s / s).in(%s{});' % (mk('a'), U))
            csigned = G.REPS[C2]['signed']
            muldef = '!VF_MUL_OVF(%s, (%s)a, (%s)s)' % (cc, cc, cc) if csigned else '1'
            divdef2 = '((%s)s != 0 && !((i128)(%s)a == MIN_OF(%s) && (i128)(%s)s == -1))' % (cc, cc, C2, cc) if csigned else '((%s)s != 0)' % cc
            body = '''
  if (%s) { CHECK(%s(a, s) == (%s)((%s)a * (%s)s), "times-assign-works-in-the-common-type");
            CHECK(%s(a, s) == (%s)((%s)a * (%s)s), "quantity-times-scalar-works-in-the-common-type"); }
  if (%s) { CHECK(%s(a, s) == (%s)((%s)a / (%s)s), "divide-assign-works-in-the-common-type");
            CHECK(%s(a, s) == (%s)((%s)a / (%s)s), "quantity-over-scalar-works-in-the-common-type"); }
''' % (muldef, wte2.name, ct, cc, cc, wsm2.name, cc, cc, cc, divdef2, wde2.name, ct, cc, cc, wsd2.name, cc, cc, cc)
            obs.append(Ob(id='C13.compound-mixed-scalar.%s_%s' % (rep, srep), prop='C13', group=grp, prelude=pre, wrappers=[wte2, wde2, wsm2, wsd2],
                          inputs=[(ct, 'a'), (cs2, 's')], body=body,
                          contract='forall a:%s, s:%s with the raw expression defined: q *= s, q /= s, q * s, q / s give exactly what the raw operators give on (a, s): computed in '
                                   'the common type %s, converted to the result rep last' % (ct, cs2, cc),
                          functions_under_contract=('au::Quantity::operator*=(T)', 'au::Quantity::operator/=(T)', 'au::operator*(Quantity,T)', 'au::operator/(Quantity,T)')))
        # value access and default construction
        win = Wrapper('w_in_' + rep, ct, [(ct, 'a')], 'return %s.in(%s{});' % (mk('a'), U))
        wdf = Wrapper('w_default_' + rep, ct, [], 'return au::Quantity<%s, %s>{}.in(%s{});' % (U, ct, U))
        wdi = Wrapper('w_datain_' + rep, ct, [(ct, 'a')], 'auto q = %s; q.data_in(%s{}) = a; return q.in(%s{});' % (mk('%s{0}' % ct), U, U))
        body = '''
  CHECK(%s(a) == a, "in-returns-the-stored-value");
  CHECK(%s() == 0, "default-construction-yields-zero");
  CHECK(%s(a) == a, "data-in-aliases-the-stored-value");
''' % (win.name, wdf.name, wdi.name)
        obs.append(Ob(id='C13.access.%s' % rep, prop='C13', group=grp, prelude=pre, wrappers=[win, wdf, wdi], inputs=[(ct, 'a')], body=body,
                      contract='forall a:%s: unit(a).in(unit) == a; Quantity{}.in(unit) == 0; data_in aliases the value' % ct,
                      functions_under_contract=('au::QuantityMaker::operator()', 'au::Quantity::in', 'au::Quantity::data_in')))
    # QuantityPoint, same unit: comparisons, point - point, point +/- displacement, += -= are the raw operators on the stored values
    for rep in (G.INT_REPS if tier == 'thorough' else ('i32', 'u16', 'i64')):
        ct = G.ctype(rep); P = G.promoted(rep); cp = G.ctype(P)
        pre2 = pre + '\n//--\n#include "au/quantity_point.hh"'
        pa = 'au::make_quantity_point<%s>(a)' % U; pb = 'au::make_quantity_point<%s>(b)' % U; qb = 'au::make_quantity<%s>(b)' % U
        ops = [('eq', '=='), ('ne', '!='), ('lt', '<'), ('le', '<='), ('gt', '>'), ('ge', '>=')]
        ws = [Wrapper('w_pt%s_%s' % (n, rep), 'bool', [(ct, 'a'), (ct, 'b')], 'return %s %s %s;' % (pa, op, pb)) for n, op in ops]
        wd = Wrapper('w_ptdiff_' + rep, ct, [(ct, 'a'), (ct, 'b')], 'return (%s - %s).in(%s{});' % (pa, pb, U))
        wp = Wrapper('w_ptplus_' + rep, ct, [(ct, 'a'), (ct, 'b')], 'return (%s + %s).in(%s{});' % (pa, qb, U))
        wm = Wrapper('w_ptminus_' + rep, ct, [(ct, 'a'), (ct, 'b')], 'return (%s - %s).in(%s{});' % (pa, qb, U))
        wpe = Wrapper('w_ptpluseq_' + rep, ct, [(ct, 'a'), (ct, 'b')], 'auto p = %s; p += %s; return p.in(%s{});' % (pa, qb, U))
        signedp = G.REPS[P]['signed']
        addok = '!VF_ADD_OVF(%s, a, b)' % cp if signedp else '1'
        subok = '!VF_SUB_OVF(%s, a, b)' % cp if signedp else '1'
        body = '\n' + '\n'.join('  CHECK(%s(a, b) == (a %s b), "point-%s-is-raw-comparison");' % (w.name, op, n) for w, (n, op) in zip(ws, ops)) + '''
  if (%s) { CHECK(%s(a, b) == (%s)((%s)a - (%s)b), "point-minus-point-is-raw-minus");
            CHECK(%s(a, b) == (%s)((%s)a - (%s)b), "point-minus-displacement-is-raw-minus"); }
  if (%s) { CHECK(%s(a, b) == (%s)((%s)a + (%s)b), "point-plus-displacement-is-raw-plus");
            CHECK(%s(a, b) == (%s)((%s)a + (%s)b), "point-plus-assign-is-raw"); }
''' % (subok, wd.name, ct, cp, cp, wm.name, ct, cp, cp, addok, wp.name, ct, cp, cp, wpe.name, ct, cp, cp)
        obs.append(Ob(id='C13.point-ops.%s' % rep, prop='C13', group='C13.pt.%s' % rep, prelude=pre2, wrappers=ws + [wd, wp, wm, wpe], inputs=[(ct, 'a'), (ct, 'b')], body=body,
                      contract='forall a,b:%s with the raw expression defined: same-unit QuantityPoint comparisons, p - p, p +/- d, p += d equal the raw operators on the stored values, converted to the point\'s rep (its Diff type is Quantity<Unit, Rep>)' % ct,
                      functions_under_contract=('au::QuantityPoint operators (same unit)',)))
    # ---- same unit, DIFFERENT reps: + - and the six comparisons are the raw operators of C++ on the two stored values (usual arithmetic conversions: the common type)
    mrp = [('i16', 'i64'), ('u32', 'i64'), ('u8', 'i32'), ('u32', 'i32'), ('i64', 'u64'), ('i8', 'u16')]
    if tier == 'thorough': mrp += [('u16', 'i16'), ('i32', 'i64'), ('u64', 'u8'), ('i8', 'i16')]
    for (r1, r2) in mrp:
        c1, c2 = G.ctype(r1), G.ctype(r2)
        tag = '%s_%s' % (r1, r2)
        m1 = 'au::make_quantity<%s>(a)' % U; m2 = 'au::make_quantity<%s>(b)' % U
        CT_ = G.ctype(G.promoted(G.common(r1, r2)))
        wpl = Wrapper('w_mrplus_' + tag, 'int64_t', [(c1, 'a'), (c2, 'b')], 'return (int64_t)(%s + %s).in(%s{});' % (m1, m2, U))
        wmi = Wrapper('w_mrminus_' + tag, 'int64_t', [(c1, 'a'), (c2, 'b')], 'return (int64_t)(%s - %s).in(%s{});' % (m1, m2, U))
        wrp = Wrapper('w_mrrawplus_' + tag, 'int64_t', [(c1, 'a'), (c2, 'b')], 'return (int64_t)(a + b);')
        wrm = Wrapper('w_mrrawminus_' + tag, 'int64_t', [(c1, 'a'), (c2, 'b')], 'return (int64_t)(a - b);')
        wsz = Wrapper('w_mrsize_' + tag, 'int32_t', [], 'return (int)(sizeof((%s + %s).in(%s{})) == sizeof(%s)) + 2 * (int)(std::is_signed<decltype((%s + %s).in(%s{}))>::value == std::is_signed<%s>::value);'
                      % (m1.replace('(a)', '(%s{})' % c1), m2.replace('(b)', '(%s{})' % c2), U, CT_, m1.replace('(a)', '(%s{})' % c1), m2.replace('(b)', '(%s{})' % c2), U, CT_))
        ops = [('eq', '=='), ('ne', '!='), ('lt', '<'), ('le', '<='), ('gt', '>'), ('ge', '>=')]
        wc = [Wrapper('w_mr%s_%s' % (n, tag), 'bool', [(c1, 'a'), (c2, 'b')], 'return %s %s %s;' % (m1, op, m2)) for n, op in ops]
        wr = [Wrapper('w_mrraw%s_%s' % (n, tag), 'bool', [(c1, 'a'), (c2, 'b')], 'return a %s b;' % op) for n, op in ops]
        CTr = G.promoted(G.common(r1, r2))      # std::common_type of the two reps
        fitsct = lambda e: '(%s >= %s && %s <= %s)' % (e, G.lit(G.tmin(CTr)), e, G.lit(G.tmax(CTr)))
        # the raw expression must be defined when the common type is signed (no overflow); for an unsigned common type everything is defined (modular)
        okp = fitsct('((i128)a + (i128)b)') if G.REPS[CTr]['signed'] else '1'
        okm = fitsct('((i128)a - (i128)b)') if G.REPS[CTr]['signed'] else '1'
        body = '''
  CHECK(%s() == 3, "result-rep-has-the-size-and-signedness-of-the-common-type");
  if (%s) CHECK(%s(a, b) == %s(a, b), "plus-is-the-raw-plus-of-the-two-stored-values");
  if (%s) CHECK(%s(a, b) == %s(a, b), "minus-is-the-raw-minus-of-the-two-stored-values");
%s
''' % (wsz.name, okp, wpl.name, wrp.name, okm, wmi.name, wrm.name,
       '\n'.join('  CHECK(%s(a, b) == %s(a, b), "%s-is-the-raw-comparison-of-the-two-stored-values");' % (x.name, y.name, n) for x, y, (n, op) in zip(wc, wr, ops)))
        obs.append(Ob(id='C13.mixedrep.%s' % tag, prop='C13', group='C13.mr.%s' % tag, prelude=pre + '\n#include <type_traits>', wrappers=[wpl, wmi, wrp, wrm, wsz] + wc + wr,
                      inputs=[(c1, 'a'), (c2, 'b')], body=body.replace('%s{}' , '%s{}'), extra_cxxflags=('-Wno-sign-compare',),
                      contract='forall a:%s, b:%s (raw expression defined): same-unit +, - and the six comparisons of quantities with DIFFERENT reps equal the raw C++ operator applied to the two stored '
                               'values (usual arithmetic conversions), and the result rep has the size and signedness of the common type' % (c1, c2),
                      functions_under_contract=('au::operator+,-,==..>=(Quantity<U,R1>, Quantity<U,R2>)',)))
    for rep in ('f32', 'f64'):
        ct = G.ctype(rep)
        bits = 'vf_f32_bits' if rep == 'f32' else 'vf_f64_bits'
        mk = lambda v: 'au::make_quantity<%s>(%s)' % (U, v)
        grp = 'C13.%s' % rep
        same = lambda r, e: '(VF_ISNAN(%s) ? VF_ISNAN(%s) : %s(%s) == %s(%s))' % (e, r, bits, r, bits, e)
        for nm, expr, spec, two in (('plus', '(%s + %s)' % (mk('a'), mk('b')), 'a + b', True), ('minus', '(%s - %s)' % (mk('a'), mk('b')), 'a - b', True),
                                    ('scalarmul', '(%s * b)' % mk('a'), 'a * b', True), ('scalardiv', '(%s / b)' % mk('a'), 'a / b', True),
                                    ('uminus', '(-%s)' % mk('a'), '-a', False)):
            ins = [(ct, 'a'), (ct, 'b')] if two else [(ct, 'a')]
            w = Wrapper('w_%s_%s' % (nm, rep), ct, ins, 'return %s.in(%s{});' % (expr, U))
            if nm == 'scalardiv' or (rep == 'f64' and nm == 'scalarmul'):
                # two symbolic IEEE dividers / 53-bit multipliers are equated by no back end: decided as a STRUCTURAL obligation (operator uninterpreted on both sides)
                fop = 'LL2C_F%s%s(a, b)' % ('DIV' if nm == 'scalardiv' else 'MUL', '32' if rep == 'f32' else '64')
                body = '\n  CHECK(%s(%s(a, b)) == %s(%s), "%s-is-one-application-of-the-raw-operator-to-the-stored-value");\n' % (bits, w.name, bits, fop, nm)
                obs.append(Ob(id='C13.fp.%s.%s' % (nm, rep), prop='C13', group=grp, prelude=pre, wrappers=[w], inputs=ins, body=body, fp=True, budget=120, defs=('LL2C_UF_FP=1',),
                              contract='forall bit patterns: same-unit %s on %s is one application of the raw operator to the stored value and the scalar, bit for bit (structural: the '
                                       'operator is uninterpreted on both sides)' % (nm, ct), functions_under_contract=('au::operator (%s) on Quantity<U,%s>' % (nm, ct),)))
                continue
            body = '\n  %s r = %s(%s);\n  %s e = %s;\n  CHECK(%s, "%s-is-raw-operator-bit-for-bit");\n' % (ct, w.name, 'a, b' if two else 'a', ct, spec, same('r', 'e'), nm)
            obs.append(Ob(id='C13.fp.%s.%s' % (nm, rep), prop='C13', group=grp, prelude=pre, wrappers=[w], inputs=ins, body=body, fp=True,
                          budget=120 if tier == 'quick' else 900,
                          contract='forall bit patterns: same-unit %s on %s equals the raw operator bit for bit (NaN for NaN)' % (nm, ct),
                          functions_under_contract=('au::operator (%s) on Quantity<U,%s>' % (nm, ct),)))
        ops = [('eq', '=='), ('ne', '!='), ('lt', '<'), ('le', '<='), ('gt', '>'), ('ge', '>=')]
        ws = [Wrapper('w_%s_%s' % (n, rep), 'bool', [(ct, 'a'), (ct, 'b')], 'return %s %s %s;' % (mk('a'), op, mk('b'))) for n, op in ops]
        body = '\n' + '\n'.join('  CHECK(%s(a, b) == (a %s b), "%s-is-raw-comparison");' % (w.name, op, n) for w, (n, op) in zip(ws, ops)) + '\n'
        obs.append(Ob(id='C13.cmp.%s' % rep, prop='C13', group=grp, prelude=pre, wrappers=ws, inputs=[(ct, 'a'), (ct, 'b')], body=body, fp=True,
                      contract='forall bit patterns incl. NaN, +-0, inf: comparisons equal the raw comparisons', functions_under_contract=('au::operator==..>= (floating)',)))
        wsp = [Wrapper('w_pt%s_%s' % (n, rep), 'bool', [(ct, 'a'), (ct, 'b')], 'return au::make_quantity_point<%s>(a) %s au::make_quantity_point<%s>(b);' % (U, op, U)) for n, op in ops]
        bodyp = '\n' + '\n'.join('  CHECK(%s(a, b) == (a %s b), "point-%s-is-raw-comparison");' % (w.name, op, n) for w, (n, op) in zip(wsp, ops)) + '\n'
        obs.append(Ob(id='C13.point-cmp.%s' % rep, prop='C13', group=grp + '.pt', prelude=pre + '\n//--\n#include "au/quantity_point.hh"', wrappers=wsp, inputs=[(ct, 'a'), (ct, 'b')],
                      body=bodyp, fp=True, contract='forall bit patterns incl. NaN, +-0, inf: same-unit QuantityPoint comparisons equal the raw comparisons',
                      functions_under_contract=('au::QuantityPoint operator==..>= (floating)',)))
        win = Wrapper('w_in_' + rep, ct, [(ct, 'a')], 'return %s.in(%s{});' % (mk('a'), U))
        wdf = Wrapper('w_default_' + rep, ct, [], 'return au::Quantity<%s, %s>{}.in(%s{});' % (U, ct, U))
        wpt = Wrapper('w_ptin_' + rep, ct, [(ct, 'a')], 'return au::make_quantity_point<%s>(a).in(%s{});' % (U, U))
        body = '''
  CHECK(%s(%s(a)) == %s(a), "in-returns-the-stored-value-bit-for-bit");
  CHECK(%s(%s()) == 0, "default-construction-yields-positive-zero");
''' % (bits, win.name, bits, bits, wdf.name)
        body_pt = '''
  %s r = %s(a);
  CHECK(VF_ISNAN(a) ? VF_ISNAN(r) : %s(r) == %s(a), "point-in-returns-the-stored-value-bit-for-bit");
''' % (ct, wpt.name, bits, bits)
        obs.append(Ob(id='C13.access-point.%s' % rep, prop='C13', group=grp, prelude=pre + '\n//--\n#include "au/quantity_point.hh"', wrappers=[wpt], inputs=[(ct, 'a')],
                      body=body_pt, fp=True, contract='forall non-NaN bit patterns: unit_pt(x).in(unit_pt) returns x bit for bit; NaN stays NaN (the point accessor adds a ZERO displacement, and IEEE leaves the payload of NaN + 0 open)',
                      functions_under_contract=('au::QuantityPoint::in',)))
        obs.append(Ob(id='C13.access.%s' % rep, prop='C13', group=grp, prelude=pre + '\n//--\n#include "au/quantity_point.hh"', wrappers=[win, wdf], inputs=[(ct, 'a')], body=body, fp=True,
                      contract='forall bit patterns (NaN payloads, infinities, signed zeros): unit(x).in(unit) and unit_pt(x).in(unit) return x bit for bit; R{} is +0',
                      functions_under_contract=('au::Quantity::in', 'au::QuantityPoint::in', 'au::QuantityMaker::operator()')))
    # ---- default-INITIALISATION (`Quantity<U,R> q;`, no braces) yields R{}: the object is created on the stack without an initialiser and read back
    wsd = []; chk = []
    for rep in ('i8', 'u16', 'i32', 'u64', 'f32', 'f64'):
        ctd = G.ctype(rep)
        wq = Wrapper('w_definit_q_' + rep, ctd, [], 'au::Quantity<%s, %s> q; return q.in(%s{});' % (U, ctd, U))
        wp = Wrapper('w_definit_p_' + rep, ctd, [], 'au::QuantityPoint<%s, %s> p; return p.in(%s{});' % (U, ctd, U))
        wsd += [wq, wp]
        zero = '0' if not G.is_fp(rep) else '0.0'
        chk.append('  CHECK(%s() == %s && %s() == %s, "default-initialised-%s-holds-zero");' % (wq.name, zero, wp.name, zero, rep))
    obs.append(Ob(id='C13.default-init', prop='C13', group='C13.definit', prelude=pre + '\n//--\n#include "au/quantity_point.hh"', wrappers=wsd, inputs=[], body='\n' + '\n'.join(chk) + '\n', fp=True,
                  contract='a default-initialised (no initialiser at all) Quantity<U,R> / QuantityPoint<U,R> on the stack holds R{} for R in {int8, uint16, int32, uint64, float, double}: '
                           'an uninitialised member would be an unconstrained value for the verifier', functions_under_contract=('au::Quantity::Quantity()', 'au::QuantityPoint::QuantityPoint()')))
    # ---- supporting static facts: layout, triviality, default construction and result TYPES (compile-time clauses of C13; no function contract expresses them)
    reps_ct = ['int8_t', 'uint8_t', 'int16_t', 'uint16_t', 'int32_t', 'uint32_t', 'int64_t', 'uint64_t', 'float', 'double', 'long double', 'bool', 'char']
    SH = '#include <type_traits>\n#include "au/au.hh"\n#include "au/units/meters.hh"\n#include "au/units/celsius.hh"\nusing namespace au;\n#define VF_STATIC_FACT(c) static_assert(c, "VF_STATIC_FACT")\n'
    for fam, tmpl in (('quantity', 'Quantity<Meters, %s>'), ('point', 'QuantityPoint<Celsius, %s>')):
        L = []
        for r in reps_ct:
            T = tmpl % r
            L += ['VF_STATIC_FACT((sizeof(%s) == sizeof(%s) && alignof(%s) == alignof(%s)));' % (T, r, T, r),
                  'VF_STATIC_FACT((std::is_trivially_copyable<%s>::value && std::is_trivially_destructible<%s>::value && std::is_standard_layout<%s>::value));' % (T, T, T),
                  'VF_STATIC_FACT((std::is_trivially_copy_constructible<%s>::value && std::is_trivially_copy_assignable<%s>::value));' % (T, T),
                  'VF_STATIC_FACT((std::is_nothrow_default_constructible<%s>::value && !std::is_trivially_default_constructible<%s>::value));   // the default constructor initialises the value' % (T, T)]
            if r not in ('bool',):
                L.append('constexpr %s vf_d_%s_%s{}; VF_STATIC_FACT((vf_d_%s_%s.in(%s{}) == static_cast<%s>(0)));' % (T, fam, r.replace(' ', '_'), fam, r.replace(' ', '_'), 'Meters' if fam == 'quantity' else 'Celsius', r))
        obs.append(Ob(id='C13.static.layout.%s' % fam, prop='C13', group='C13.static', prelude='', wrappers=[], inputs=[], kind='S', body=SH + '\n'.join(L) + '\nint main() {}\n',
                      contract='static facts: for %d reps, %s has exactly the rep\'s size and alignment, is trivially copyable / destructible / standard-layout, and a value-initialised object holds R{}' % (len(reps_ct), tmpl % 'R'),
                      functions_under_contract=('au::Quantity / au::QuantityPoint (layout, compile-time)',)))
    L = []
    for r in ['int8_t', 'uint8_t', 'int16_t', 'uint16_t', 'int32_t', 'uint32_t', 'int64_t', 'uint64_t', 'float', 'double']:
        Q = 'Quantity<Meters, %s>' % r
        L += ['VF_STATIC_FACT((std::is_same<decltype(%s{} + %s{}), Quantity<Meters, decltype(%s{} + %s{})>>::value));' % (Q, Q, r, r),
              'VF_STATIC_FACT((std::is_same<decltype(%s{} - %s{}), Quantity<Meters, decltype(%s{} - %s{})>>::value));' % (Q, Q, r, r),
              'VF_STATIC_FACT((std::is_same<decltype(%s{} * %s{}), Quantity<Meters, decltype(%s{} * %s{})>>::value));' % (Q, r, r, r),
              'VF_STATIC_FACT((std::is_same<decltype(%s{} * %s{}), Quantity<Meters, decltype(%s{} * %s{})>>::value));' % (r, Q, r, r),
              'VF_STATIC_FACT((std::is_same<decltype(%s{} / %s{1}), Quantity<Meters, decltype(%s{} / %s{1})>>::value));' % (Q, r, r, r),
              'VF_STATIC_FACT((std::is_same<decltype(%s{} == %s{}), bool>::value && std::is_same<decltype(%s{} < %s{}), bool>::value));' % (Q, Q, Q, Q),
              'VF_STATIC_FACT((std::is_same<decltype(-%s{}), %s>::value && std::is_same<decltype(+%s{}), %s>::value));' % (Q, Q, Q, Q)]
        P = 'QuantityPoint<Celsius, %s>' % r
        L += ['VF_STATIC_FACT((std::is_same<decltype(%s{} - %s{}), Quantity<Celsius, %s>>::value));' % (P, P, r),
              'VF_STATIC_FACT((std::is_same<decltype(%s{} + Quantity<Celsius, %s>{}), QuantityPoint<Celsius, decltype(%s{} + %s{})>>::value || std::is_same<decltype(%s{} + Quantity<Celsius, %s>{}), %s>::value));' % (P, r, r, r, P, r, P)]
    obs.append(Ob(id='C13.static.result-types', prop='C13', group='C13.static', prelude='', wrappers=[], inputs=[], kind='S', body=SH + '\n'.join(L) + '\nint main() {}\n',
                  contract='static facts: for 10 reps, same-unit + - and scalar * / have the rep the raw operator produces (decltype(R{} op R{})), comparisons are bool, unary +/- keep the type, point - point is Quantity<U,R>',
                  functions_under_contract=('au::Quantity operators (result types, compile-time)',)))
    return obs
