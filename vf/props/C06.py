"""C06 -- implicit-conversion safety surface (value-level consequence + threshold function).  DESIGN.md section 5."""
from core import Ob, Wrapper
import grid as G

ASSUMPTIONS = ['supporting static facts (C06.static.*): the compile-time predicate is compared with the documented formula on a grid by static_assert probes; they are discharged by the compiler, not by the verifier, are reported separately and are not counted as proved obligations; a mismatch or a hard error is still reported as a violation of C06',
               'that the implicit-constructibility predicate is TOTAL and equals the documented formula on every (U1,R1,U2,R2) is a compile-time trait: not decided by '
               'a function contract (DESIGN.md section 5, C06); decided here: every permitted conversion of the grid is an exact multiplication by k and cannot '
               'overflow for |x| <= 2147, the run-time threshold function can_scale_without_overflow, and the threshold constant']

# (R1, R2, k) with U1/U2 == k, permitted by the documented rule: R1 integral and 2147*k <= max(R2)
GRID_Q = [('i32', 'i32', 1000), ('i32', 'i32', 1000000), ('i16', 'i32', 12), ('i32', 'i64', 1000), ('i64', 'i64', 1000000000), ('i64', 'i64', 4294967296000),
          ('u32', 'u32', 2000000), ('u8', 'u16', 30), ('i16', 'i16', 15), ('u64', 'u64', 8589934591999), ('i8', 'i64', 3600), ('u16', 'i32', 1000)]
GRID_T = GRID_Q + [('i32', 'i32', 12), ('i32', 'i32', 3600), ('i64', 'i64', 12), ('u32', 'u64', 1000000), ('i8', 'i32', 1000000), ('u16', 'u16', 30),
                   ('i32', 'u32', 1000), ('u32', 'i64', 1000), ('i64', 'i32', 1000), ('u64', 'i64', 1000)]


def obligations(tier, seed):
    obs = []
    for (R1, R2, k) in (GRID_T if tier == 'thorough' else GRID_Q):
        assert 2147 * k <= G.tmax(R2)
        c1, c2 = G.ctype(R1), G.ctype(R2)
        tag = '%s_%s_%d' % (R1, R2, k)
        u1 = 'VU_i_%d' % k
        pre = '#include "au/units/meters.hh"\n//--\nstruct %s : decltype(au::Meters{} * au::mag<%dULL>()) {};' % (u1, k)
        w = Wrapper('w_implicit_' + tag, c2, [(c1, 'x')], 'au::Quantity<au::Meters, %s> q2 = au::make_quantity<%s>(x); return q2.in(au::Meters{});' % (c2, u1))
        wi = Wrapper('w_in_' + tag, c2 if R1 == R2 else c1, [(c1, 'x')], 'return au::make_quantity<%s>(x).in(au::Meters{});' % u1)
        W = G.W_for(R1, R2, G.common(R1, R2), G.promoted(G.common(R1, R2)))
        X = '((%s)x * %s)' % (W, G.lit_w(W, k))
        fits2 = '(%s >= %s && %s <= %s)' % (X, G.lit_w(W, G.tmin(R2)), X, G.lit_w(W, G.tmax(R2))) if W in ('i64', 'i128') else '(%s <= %s)' % (X, G.lit_w(W, G.tmax(R2)))
        xin2 = '((i128)x >= MIN_OF(%s) && (i128)x <= MAX_OF(%s))' % (R2, R2)
        neg = '(x < 0) ||' if (G.REPS[R1]['signed'] and W in ('u64', 'u128')) else ''
        body = '''
  if (!(%s 0) && %s) { %s r = %s(x); CHECK((%s)r == %s, "permitted-implicit-conversion-is-exact-multiplication-by-k"); }
''' % (neg, fits2, c2, w.name, W, X)
        obs.append(Ob(id='C06.exact.%s' % tag, prop='C06', group='C06.%s' % tag, prelude=pre, wrappers=[w], inputs=[(c1, 'x')], body=body,
                      contract='forall x:%s with x*%d in range(%s): Quantity<U2,%s>{Quantity<U1,%s>{x}} holds exactly x*%d; no UB:*' % (c1, k, c2, c2, c1, k),
                      functions_under_contract=('au::Quantity::Quantity(Quantity<OtherUnit,OtherRep>) [implicit]',)))
        body = '''
  ASSUME((i128)x >= -2147 && (i128)x <= 2147 && %s);
  %s r = %s(x);
  CHECK((i128)r == (i128)x * %s, "no-overflow-up-to-the-threshold");
''' % (xin2, c2, w.name, G.lit(k))
        obs.append(Ob(id='C06.threshold-safe.%s' % tag, prop='C06', group='C06.%s' % tag, prelude=pre, wrappers=[w], inputs=[(c1, 'x')], body=body,
                      twin=body.replace('<= 2147 &&', '<= 2147 + %d &&' % (G.tmax(R2) // k)) if R1 == R2 and R1 in ('i32', 'i64') else None,
                      contract='forall x:%s with |x| <= 2147 that %s can hold, NO other precondition: the implicit conversion by k=%d is exact and executes no UB:*' % (c1, c2, k),
                      functions_under_contract=('au::Quantity::Quantity(Quantity<OtherUnit,OtherRep>) [implicit]', 'au::detail::CanScaleThresholdWithoutOverflow')))
        if R1 == R2:
            body = '''
  if (%s) { %s r = %s(x); CHECK((%s)r == %s, "unit-only-in-is-exact-multiplication-by-k"); }
''' % (fits2, c2, wi.name, W, X)
            obs.append(Ob(id='C06.in.%s' % tag, prop='C06', group='C06.%s' % tag, prelude=pre, wrappers=[wi], inputs=[(c1, 'x')], body=body,
                          contract='forall x with x*%d in range: q.in(u) (unit-only, policy-checked) holds exactly x*%d' % (k, k),
                          functions_under_contract=('au::Quantity::in(unit)', 'au::Quantity::as(unit)')))
    # can_scale_without_overflow as a run-time function of the value
    for (rep, k) in [('i32', 1000), ('i32', 1000001), ('i64', 3600), ('u32', 7), ('i16', 15), ('u64', 4294967296), ('i8', 5)]:
        ct = G.ctype(rep)
        w = Wrapper('w_canscale_%s_%d' % (rep, k), 'bool', [(ct, 'v')], 'return au::can_scale_without_overflow<%s>(au::mag<%dULL>(), v);' % (ct, k))
        body = '''
  CHECK(%s(v) == ((i128)v * %s <= MAX_OF(%s)), "can-scale-iff-product-at-most-max");
''' % (w.name, G.lit(k), rep)
        obs.append(Ob(id='C06.can_scale.%s_%d' % (rep, k), prop='C06', group='C06.canscale', prelude='#include "au/units/meters.hh"', wrappers=[w], inputs=[(ct, 'v')], body=body,
                      twin=body.replace(G.lit(k), G.lit(k + 1)) if G.tmax(rep) // k != G.tmax(rep) // (k + 1) else None,
                      contract='forall v:%s: can_scale_without_overflow<%s>(mag<%d>(), v) == (v*%d <= max(%s))' % (ct, ct, k, k, ct),
                      functions_under_contract=('au::can_scale_without_overflow',)))
    # ---- supporting static facts (second class, reported separately): the compile-time predicate against the documented formula
    sgrid = [('i32', 'i32', 1000, 1), ('i32', 'i32', 1000000, 1), ('i32', 'i32', 1000001, 1), ('i32', 'i32', 1, 1000), ('i32', 'i32', 3, 2), ('i32', 'i32', 1, 1),
             ('u8', 'u8', 2, 1), ('u8', 'u8', 1, 1), ('i8', 'i8', 2, 1), ('i16', 'i16', 15, 1), ('i16', 'i16', 16, 1), ('u16', 'u16', 30, 1), ('u16', 'u16', 31, 1),
             ('i64', 'i64', 4294967296000, 1), ('i64', 'i64', 4300000000000000, 1), ('u64', 'u64', 8589934591999, 1), ('u32', 'u32', 2000000, 1), ('u32', 'u32', 2000001, 1),
             ('i32', 'f32', 1, 1000), ('f64', 'i32', 1, 1), ('f64', 'i32', 1000, 1), ('i32', 'f64', 7, 3), ('i8', 'i32', 1000000, 1), ('i32', 'i8', 1, 1), ('i16', 'i32', 1, 1),
             ('u8', 'i16', 15, 1), ('i32', 'u32', 1, 1), ('i64', 'i32', 1, 1), ('i16', 'i16', 100000, 1), ('u8', 'u8', 256, 1), ('i8', 'i8', 128, 1)]
    if tier == 'quick': sgrid = sgrid[::2] + [sgrid[7], sgrid[29]]
    for (R1, R2, N, D) in sgrid:
        c1, c2 = G.ctype(R1), G.ctype(R2)
        integral_k = (D == 1)
        if G.is_fp(R2): exp = True
        elif G.is_fp(R1): exp = False
        elif (N, D) == (1, 1): exp = True     # identity between integral reps (integer-promotion carve-out / assignable)
        else: exp = integral_k and 2147 * N <= G.tmax(R2)
        src = '''#include <type_traits>
#include "au/au.hh"
#include "au/units/meters.hh"
#include "au/units/seconds.hh"
struct VU_s : decltype(au::Meters{} * au::mag<%dULL>() / au::mag<%dULL>()) {};
#define VF_STATIC_FACT(c) static_assert(c, "VF_STATIC_FACT")
VF_STATIC_FACT((std::is_convertible<au::Quantity<%s, %s>, au::Quantity<au::Meters, %s>>::value) == %s);
VF_STATIC_FACT((std::is_convertible<au::Quantity<au::Seconds, %s>, au::Quantity<au::Meters, %s>>::value) == false);
int main() {}
''' % (N, D, 'VU_s' if (N, D) != (1, 1) else 'au::Meters', c1, c2, 'true' if exp else 'false', c1, c2)
        obs.append(Ob(id='C06.static.%s_%s_%d_%d' % (R1, R2, N, D), prop='C06', group='C06.static', prelude='', wrappers=[], inputs=[], body=src, kind='S',
                      contract='static fact: is_convertible<Quantity<Meters*%d/%d, %s>, Quantity<Meters, %s>> == %s (documented formula), and a dimension mismatch answers false without a hard error'
                               % (N, D, c1, c2, exp), functions_under_contract=('au::ConstructionPolicy::PermitImplicitFrom (compile-time)',)))
    # k = 1 between integral reps: every ordered pair (the clause is independent of widths and signedness), one probe TU per source rep
    for R1 in G.INT_REPS:
        lines = ['VF_STATIC_FACT((std::is_convertible<au::Quantity<au::Meters, %s>, au::Quantity<au::Meters, %s>>::value) == true);   // %s -> %s' % (G.ctype(R1), G.ctype(R2), R1, R2)
                 for R2 in G.INT_REPS]
        lines += ['VF_STATIC_FACT((std::is_convertible<au::Quantity<au::Meters, %s>, au::Quantity<au::Meters, %s>>::value) == true);' % (G.ctype(R1), f) for f in ('float', 'double')]
        src = '#include <type_traits>\n#include "au/au.hh"\n#include "au/units/meters.hh"\n#define VF_STATIC_FACT(c) static_assert(c, "VF_STATIC_FACT")\n' + '\n'.join(lines) + '\nint main() {}\n'
        obs.append(Ob(id='C06.static.identity-from-%s' % R1, prop='C06', group='C06.static', prelude='', wrappers=[], inputs=[], body=src, kind='S',
                      contract='static fact: Quantity<Meters, R2> is implicitly constructible from Quantity<Meters, %s> for every integral and floating R2 (k = 1 between integral reps)' % G.ctype(R1),
                      functions_under_contract=('au::ConstructionPolicy::PermitImplicitFrom (compile-time)', 'au::detail::PermitAsCarveOutForIntegerPromotion')))
    # the documented threshold (2147 * k <= max(Rep)) at its exact boundary for every 64-bit integer TYPE (unsigned long long / long long are distinct from the <cstdint> aliases on LP64)
    WL = []
    for (T_, mx_) in (('unsigned long long', 2**64 - 1), ('unsigned long', 2**64 - 1), ('long long', 2**63 - 1), ('long', 2**63 - 1)):
        nok = mx_ // 2147
        tg = T_.replace(' ', '_')
        WL.append('struct VOk_%s : decltype(au::Meters{} * au::mag<%dULL>()) {};\nstruct VBad_%s : decltype(au::Meters{} * au::mag<%dULL>()) {};' % (tg, nok, tg, nok + 1))
        WL.append('VF_STATIC_FACT((std::is_convertible<au::Quantity<VOk_%s, %s>, au::Quantity<au::Meters, %s>>::value) == true);' % (tg, T_, T_))
        WL.append('VF_STATIC_FACT((std::is_convertible<au::Quantity<VBad_%s, %s>, au::Quantity<au::Meters, %s>>::value) == false);' % (tg, T_, T_))
        WL.append('VF_STATIC_FACT((std::is_convertible<au::Quantity<au::Meters, %s>, au::Quantity<VOk_%s, %s>>::value) == false);' % (T_, tg, T_))
    obs.append(Ob(id='C06.static.threshold-every-64-bit-integer-type', prop='C06', group='C06.static', prelude='', wrappers=[], inputs=[], kind='S',
                  body='#include <type_traits>\n#include "au/au.hh"\n#include "au/units/meters.hh"\n#define VF_STATIC_FACT(c) static_assert(c, "VF_STATIC_FACT")\n' + '\n'.join(WL) + '\nint main() {}\n',
                  contract='static facts: for Rep in {unsigned long long, unsigned long, long long, long} the implicit conversion by an integer factor k is permitted for k = floor(max(Rep) / 2147) and refused for k + 1 (documented formula at its exact boundary), and the inverse direction is refused',
                  functions_under_contract=('au::ConstructionPolicy::PermitImplicitFrom (compile-time)', 'au::detail::CanScaleThresholdWithoutOverflow')))
    # totality at the edges of the magnitude / rep space: ratios above the range of double, and bool as a rep (the question must be answerable, never a hard error)
    TH = ('#include <type_traits>\n#include "au/au.hh"\n#include "au/units/meters.hh"\nusing namespace au;\n#define VF_STATIC_FACT(c) static_assert(c, "VF_STATIC_FACT")\n'
          'struct VBig : decltype(Meters{} * pow<400>(mag<10>())) {};\nstruct VTiny : decltype(Meters{} / pow<400>(mag<10>())) {};\nstruct VKilo : decltype(Meters{} * mag<1000>()) {};\n'
          'VF_STATIC_FACT((!std::is_convertible<Quantity<VBig, int>, Quantity<Meters, int>>::value));\n'
          'VF_STATIC_FACT((!std::is_convertible<Quantity<VBig, int64_t>, Quantity<Meters, uint64_t>>::value));\n'
          'VF_STATIC_FACT((!std::is_convertible<Quantity<VTiny, int>, Quantity<Meters, int>>::value));\n'
          'VF_STATIC_FACT((std::is_convertible<Quantity<VTiny, int>, Quantity<Meters, long double>>::value));\n'
          'VF_STATIC_FACT((!std::is_convertible<Quantity<VKilo, int>, Quantity<Meters, bool>>::value));\n'
          'VF_STATIC_FACT((!std::is_convertible<Quantity<VKilo, uint8_t>, Quantity<Meters, bool>>::value));\n'
          'VF_STATIC_FACT((std::is_convertible<Quantity<Meters, bool>, Quantity<Meters, int>>::value));\n'
          'VF_STATIC_FACT((std::is_convertible<Quantity<VKilo, bool>, Quantity<Meters, int>>::value));\nint main() {}\n')
    obs.append(Ob(id='C06.static.totality-edges', prop='C06', group='C06.static', prelude='', wrappers=[], inputs=[], body=TH, kind='S',
                  contract='static facts: the implicit-constructibility question is ANSWERED (never a hard error) for unit ratios of 10^400 and 10^-400 and for bool as source or target rep, '
                           'with the documented answers', functions_under_contract=('au::ConstructionPolicy::PermitImplicitFrom (compile-time)', 'au::can_scale_without_overflow')))
    w = Wrapper('w_threshold', 'int32_t', [], 'return au::detail::OVERFLOW_THRESHOLD;')
    obs.append(Ob(id='C06.threshold-constant', prop='C06', group='C06.canscale', prelude='#include "au/units/meters.hh"', wrappers=[w], inputs=[],
                  body='\n  CHECK(%s() == 2147, "overflow-threshold-is-2147");\n' % w.name, contract='au::detail::OVERFLOW_THRESHOLD == 2147',
                  functions_under_contract=('au::detail::OVERFLOW_THRESHOLD',)))
    # supporting static fact shared with C11: the conversion factor's numerator / denominator is evaluated in the rep through get_value<T>; a prime above 2^63 must be
    # unrepresentable in every signed rep (it would otherwise wrap to a small negative number and every contract above would be about the wrong factor)
    BP = ('#include "au/magnitude.hh"\n#include <cstdint>\n#define VF_STATIC_FACT(c) static_assert(c, "VF_STATIC_FACT")\n' +
          '\n'.join('VF_STATIC_FACT(!au::representable_in<' + t + '>(au::mag<18446744073709551557ULL>()));' for t in ('int8_t', 'int16_t', 'int32_t', 'int64_t')) +
          '\nVF_STATIC_FACT(au::representable_in<uint64_t>(au::mag<18446744073709551557ULL>()));\n'
          'VF_STATIC_FACT(!au::representable_in<int64_t>(au::mag<18446744073709551557ULL>() * au::mag<18446744073709551533ULL>()));\n'
          'VF_STATIC_FACT(!au::representable_in<int32_t>(au::mag<7>() / au::mag<18446744073709551557ULL>()));\nint main() {}\n')
    obs.append(Ob(id='C06.static.prime-above-2-63-in-signed-rep', prop='C06', group='C06.static', prelude='', wrappers=[], inputs=[], body=BP, kind='S',
                  contract='static facts: mag<2^64-59>() is not representable in any signed rep (and is in uint64_t): the factor of a conversion is never a wrapped prime',
                  functions_under_contract=('au::representable_in / get_value (compile-time)',)))
    return obs
