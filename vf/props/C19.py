"""C19 -- ZERO is the exact zero of every unit (value half).  DESIGN.md section 5."""
from core import Ob, Wrapper
import grid as G

ASSUMPTIONS = ['"never accepted where a quantity point is required" is a compile-time rejection and is not decided by a contract',
               'q + ZERO and q - ZERO are compared by value (==) with q for floating reps, as the property states; -0.0 + ZERO is +0.0, which compares equal']

UNITS = [('au::Meters', '#include "au/units/meters.hh"', 'm'), ('au::Celsius', '#include "au/units/celsius.hh"', 'degC')]
OPS = [('eq', '=='), ('ne', '!='), ('lt', '<'), ('le', '<='), ('gt', '>'), ('ge', '>=')]


def obligations(tier, seed):
    obs = []
    reps = G.INT_REPS + ['f32', 'f64'] if tier == 'thorough' else ['i8', 'u16', 'i32', 'u64', 'i64', 'f32', 'f64']
    for rep in reps:
        ct = G.ctype(rep); fp = G.is_fp(rep)
        for (U, inc, ul) in (UNITS if tier == 'thorough' or rep in ('i32', 'f64') else UNITS[:1]):
            tag = '%s_%s' % (rep, ul)
            mk = 'au::make_quantity<%s>(x)' % U
            ws = []; checks = []
            for n, op in OPS:
                w1 = Wrapper('w_q%s0_%s' % (n, tag), 'bool', [(ct, 'x')], 'return %s %s au::ZERO;' % (mk, op))
                w2 = Wrapper('w_0%sq_%s' % (n, tag), 'bool', [(ct, 'x')], 'return au::ZERO %s %s;' % (op, mk))
                ws += [w1, w2]
                checks.append('  CHECK(%s(x) == (x %s 0), "q-%s-ZERO-is-x-%s-0");' % (w1.name, op, n, n))
                checks.append('  CHECK(%s(x) == (0 %s x), "ZERO-%s-q-is-0-%s-x");' % (w2.name, op, n, n))
            obs.append(Ob(id='C19.cmp.%s' % tag, prop='C19', group='C19.%s' % tag, prelude=inc, wrappers=ws, inputs=[(ct, 'x')], body='\n' + '\n'.join(checks) + '\n', fp=fp,
                          contract='forall x:%s (every bit pattern): (q op ZERO) == (x op 0) and (ZERO op q) == (0 op x) for the six comparisons' % ct,
                          functions_under_contract=('au::operator==..>=(Quantity, Zero) via Quantity(Zero)', 'au::Zero::operator T')))
            P = G.promoted(rep) if not fp else rep; cp = G.ctype(P)
            wa = Wrapper('w_qplus0_' + tag, cp, [(ct, 'x')], 'return (%s + au::ZERO).in(%s{});' % (mk, U))
            wb = Wrapper('w_0plusq_' + tag, cp, [(ct, 'x')], 'return (au::ZERO + %s).in(%s{});' % (mk, U))
            wc = Wrapper('w_qminus0_' + tag, cp, [(ct, 'x')], 'return (%s - au::ZERO).in(%s{});' % (mk, U))
            wz = Wrapper('w_fromzero_' + tag, ct, [], 'return au::Quantity<%s, %s>{au::ZERO}.in(%s{});' % (U, ct, U))
            wasg = Wrapper('w_assignzero_' + tag, ct, [(ct, 'x')], 'auto q = %s; q = au::ZERO; return q.in(%s{});' % (mk, U))
            wt = Wrapper('w_zeroasT_' + tag, ct, [], '%s t = au::ZERO; return t;' % ct)
            eq = (lambda r: '(VF_ISNAN(x) ? VF_ISNAN(%s) : %s == x)' % (r, r)) if fp else (lambda r: '(%s == (%s)x)' % (r, cp))
            body = '''
  CHECK(%s, "q-plus-ZERO-is-q");
  CHECK(%s, "ZERO-plus-q-is-q");
  CHECK(%s, "q-minus-ZERO-is-q");
  CHECK(%s() == 0, "Quantity-from-ZERO-holds-0");
  CHECK(%s(x) == 0, "assigning-ZERO-stores-0");
  CHECK(%s() == 0, "ZERO-converts-to-0");
''' % (eq('%s(x)' % wa.name), eq('%s(x)' % wb.name), eq('%s(x)' % wc.name), wz.name, wasg.name, wt.name)
            obs.append(Ob(id='C19.arith.%s' % tag, prop='C19', group='C19.%s' % tag, prelude=inc, wrappers=[wa, wb, wc, wz, wasg, wt], inputs=[(ct, 'x')], body=body, fp=fp,
                          contract='forall x:%s: q + ZERO == ZERO + q == q - ZERO == q; Quantity(ZERO).in(u) == 0; T(ZERO) == 0; no UB:*' % ct,
                          functions_under_contract=('au::Quantity::Quantity(Zero)', 'au::operator+/-(Quantity, QLike) with Zero', 'au::Zero::operator T')))
    # chrono durations
    for (crep, rep) in (('int64_t', 'i64'), ('double', 'f64')):
        w = Wrapper('w_zero_duration_' + rep, crep, [], 'std::chrono::duration<%s, std::milli> d = au::ZERO; return d.count();' % crep)
        obs.append(Ob(id='C19.chrono.%s' % rep, prop='C19', group='C19.chrono', prelude='#include <chrono>', wrappers=[w], inputs=[],
                      body='\n  CHECK(%s() == 0, "ZERO-converts-to-a-zero-duration");\n' % w.name, fp=(rep == 'f64'),
                      contract='std::chrono::duration<%s, milli>(ZERO).count() == 0' % crep, functions_under_contract=('au::Zero::operator std::chrono::duration',)))
    return obs
