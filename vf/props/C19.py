"""C19 -- ZERO is the exact zero of every unit (value half).  DESIGN.md section 5."""
from core import Ob, Wrapper
import grid as G

ASSUMPTIONS = ['"never accepted where a quantity point is required" is a compile-time rejection and is not decided by a contract',
               'q + ZERO and q - ZERO are compared by value (==) with q for floating reps, as the property states; -0.0 + ZERO is +0.0, which compares equal']

UNITS = [('au::Meters', '#include "au/units/meters.hh"', 'm'), ('au::Celsius', '#include "au/units/celsius.hh"', 'degC')]
OPS = [('eq', '=='), ('ne', '!='), ('lt', '<'), ('le', '<='), ('gt', '>'), ('ge', '>=')]


def obligations(tier, seed):
    obs = []
    reps = G.INT_REPS + ['f32', 'f64'] if tier == 'thorough' else ['i8', 'u16', 'i32', 'u64', 'i64', 'f32', 'f64']
    for rep in reps:
        ct = G.ctype(rep); fp = G.is_fp(rep)
        for (U, inc, ul) in (UNITS if tier == 'thorough' or rep in ('i32', 'f64') else UNITS[:1]):
            tag = '%s_%s' % (rep, ul)
            mk = 'au::make_quantity<%s>(x)' % U
            ws = []; checks = []
            for n, op in OPS:
                w1 = Wrapper('w_q%s0_%s' % (n, tag), 'bool', [(ct, 'x')], 'return %s %s au::ZERO;' % (mk, op))
                w2 = Wrapper('w_0%sq_%s' % (n, tag), 'bool', [(ct, 'x')], 'return au::ZERO %s %s;' % (op, mk))
                ws += [w1, w2]
                checks.append('  CHECK(%s(x) == (x %s 0), "q-%s-ZERO-is-x-%s-0");' % (w1.name, op, n, n))
                checks.append('  CHECK(%s(x) == (0 %s x), "ZERO-%s-q-is-0-%s-x");' % (w2.name, op, n, n))
            obs.append(Ob(id='C19.cmp.%s' % tag, prop='C19', group='C19.%s' % tag, prelude=inc, wrappers=ws, inputs=[(ct, 'x')], body='\n' + '\n'.join(checks) + '\n', fp=fp,
                          contract='forall x:%s (every bit pattern): (q op ZERO) == (x op 0) and (ZERO op q) == (0 op x) for the six comparisons' % ct,
                          functions_under_contract=('au::operator==..>=(Quantity, Zero) via Quantity(Zero)', 'au::Zero::operator T')))
            P = G.promoted(rep) if not fp else rep; cp = G.ctype(P)
            wa = Wrapper('w_qplus0_' + tag, cp, [(ct, 'x')], 'return (%s + au::ZERO).in(%s{});' % (mk, U))
            wb = Wrapper('w_0plusq_' + tag, cp, [(ct, 'x')], 'return (au::ZERO + %s).in(%s{});' % (mk, U))
            wc = Wrapper('w_qminus0_' + tag, cp, [(ct, 'x')], 'return (%s - au::ZERO).in(%s{});' % (mk, U))
            wz = Wrapper('w_fromzero_' + tag, ct, [], 'return au::Quantity<%s, %s>{au::ZERO}.in(%s{});' % (U, ct, U))
            wasg = Wrapper('w_assignzero_' + tag, ct, [(ct, 'x')], 'auto q = %s; q = au::ZERO; return q.in(%s{});' % (mk, U))
            wt = Wrapper('w_zeroasT_' + tag, ct, [], '%s t = au::ZERO; return t;' % ct)
            eq = (lambda r: '(VF_ISNAN(x) ? VF_ISNAN(%s) : %s == x)' % (r, r)) if fp else (lambda r: '(%s == (%s)x)' % (r, cp))
            body = '''
  CHECK(%s, "q-plus-ZERO-is-q");
  CHECK(%s, "ZERO-plus-q-is-q");
  CHECK(%s, "q-minus-ZERO-is-q");
  CHECK(%s() == 0, "Quantity-from-ZERO-holds-0");
  CHECK(%s(x) == 0, "assigning-ZERO-stores-0");
  CHECK(%s() == 0, "ZERO-converts-to-0");
''' % (eq('%s(x)' % wa.name), eq('%s(x)' % wb.name), eq('%s(x)' % wc.name), wz.name, wasg.name, wt.name)
            obs.append(Ob(id='C19.arith.%s' % tag, prop='C19', group='C19.%s' % tag, prelude=inc, wrappers=[wa, wb, wc, wz, wasg, wt], inputs=[(ct, 'x')], body=body, fp=fp,
                          contract='forall x:%s: q + ZERO == ZERO + q == q - ZERO == q; Quantity(ZERO).in(u) == 0; T(ZERO) == 0; no UB:*' % ct,
                          functions_under_contract=('au::Quantity::Quantity(Zero)', 'au::operator+/-(Quantity, QLike) with Zero', 'au::Zero::operator T')))
    # a user-defined rep whose default-constructed state is NOT its zero: ZERO must still mean 0
    VREP = '''#include "au/units/meters.hh"
//--
struct VRep19 {
    int32_t v;
    constexpr VRep19() : v(41) {}
    constexpr VRep19(int x) : v(x) {}
    friend constexpr bool operator==(VRep19 a, VRep19 b) { return a.v == b.v; }
    friend constexpr bool operator!=(VRep19 a, VRep19 b) { return a.v != b.v; }
    friend constexpr bool operator<(VRep19 a, VRep19 b) { return a.v < b.v; }
    friend constexpr bool operator<=(VRep19 a, VRep19 b) { return a.v <= b.v; }
    friend constexpr bool operator>(VRep19 a, VRep19 b) { return a.v > b.v; }
    friend constexpr bool operator>=(VRep19 a, VRep19 b) { return a.v >= b.v; }
    friend constexpr VRep19 operator+(VRep19 a, VRep19 b) { return VRep19{(int)((unsigned)a.v + (unsigned)b.v)}; }
    friend constexpr VRep19 operator-(VRep19 a, VRep19 b) { return VRep19{(int)((unsigned)a.v - (unsigned)b.v)}; }
};'''
    mkv = 'au::make_quantity<au::Meters>(VRep19{x})'
    wv0 = Wrapper('w_vrep_fromzero', 'int32_t', [], 'au::Quantity<au::Meters, VRep19> q = au::ZERO; return q.data_in(au::Meters{}).v;')
    wv1 = Wrapper('w_vrep_ctor', 'int32_t', [], 'au::Quantity<au::Meters, VRep19> q{au::ZERO}; return q.data_in(au::Meters{}).v;')
    wv2 = Wrapper('w_vrep_lt', 'bool', [('int32_t', 'x')], 'return %s < au::ZERO;' % mkv)
    wv3 = Wrapper('w_vrep_eq', 'bool', [('int32_t', 'x')], 'return au::ZERO == %s;' % mkv)
    wv4 = Wrapper('w_vrep_plus', 'int32_t', [('int32_t', 'x')], 'return (%s + au::ZERO).in(au::Meters{}).v;' % mkv)
    body = '''
  CHECK(w_vrep_fromzero() == 0, "Quantity-initialised-from-ZERO-holds-0-not-the-default-state");
  CHECK(w_vrep_ctor() == 0, "Quantity-constructed-from-ZERO-holds-0-not-the-default-state");
'''
    obs.append(Ob(id='C19.custom-rep', prop='C19', group='C19.vrep', prelude=VREP, wrappers=[wv0, wv1], inputs=[], body=body,
                  contract='user-defined rep whose default-constructed value is 41: a Quantity initialised / constructed from ZERO holds 0, not the default state',
                  functions_under_contract=('au::Quantity::Quantity(Zero)',)))
    # chrono durations
    for (crep, rep) in (('int64_t', 'i64'), ('double', 'f64')):
        w = Wrapper('w_zero_duration_' + rep, crep, [], 'std::chrono::duration<%s, std::milli> d = au::ZERO; return d.count();' % crep)
        obs.append(Ob(id='C19.chrono.%s' % rep, prop='C19', group='C19.chrono', prelude='#include <chrono>', wrappers=[w], inputs=[],
                      body='\n  CHECK(%s() == 0, "ZERO-converts-to-a-zero-duration");\n' % w.name, fp=(rep == 'f64'),
                      contract='std::chrono::duration<%s, milli>(ZERO).count() == 0' % crep, functions_under_contract=('au::Zero::operator std::chrono::duration',)))
    # ---- supporting static facts: ZERO converts to EVERY arithmetic type and every chrono duration, and is not accepted where a point is required
    HDR = '#include <type_traits>\n#include <chrono>\n#include "au/au.hh"\n#include "au/units/meters.hh"\n#define VF_STATIC_FACT(c) static_assert(c, "VF_STATIC_FACT")\n'
    ts = ['bool', 'char', 'signed char', 'unsigned char', 'wchar_t', 'char16_t', 'char32_t', 'short', 'unsigned short', 'int', 'unsigned', 'long', 'unsigned long',
          'long long', 'unsigned long long', 'float', 'double', 'long double']
    body = HDR + '\n'.join('VF_STATIC_FACT((std::is_convertible<au::Zero, %s>::value));' % t for t in ts) + '''
VF_STATIC_FACT((std::is_convertible<au::Zero, std::chrono::nanoseconds>::value));
VF_STATIC_FACT((std::is_convertible<au::Zero, std::chrono::duration<double, std::ratio<3, 7>>>::value));
struct VTicks { constexpr VTicks() : v(0) {} constexpr VTicks(long long x) : v(x) {} long long v; };   /* a class type used as a chrono rep */
constexpr bool operator==(VTicks a, VTicks b) { return a.v == b.v; }
VF_STATIC_FACT((std::is_convertible<au::Zero, std::chrono::duration<VTicks, std::milli>>::value));
VF_STATIC_FACT((std::is_convertible<au::Zero, std::chrono::duration<unsigned char, std::ratio<3600>>>::value));
constexpr std::chrono::duration<VTicks, std::milli> vf_dt = au::ZERO; VF_STATIC_FACT(vf_dt.count() == VTicks(0));
constexpr std::chrono::duration<long long, std::pico> vf_dp = au::ZERO; VF_STATIC_FACT(vf_dp.count() == 0);
VF_STATIC_FACT((std::is_convertible<au::Zero, au::Quantity<au::Meters, float>>::value));
VF_STATIC_FACT((!std::is_convertible<au::Zero, au::QuantityPoint<au::Meters, int>>::value));
VF_STATIC_FACT((!std::is_constructible<au::QuantityPoint<au::Meters, double>, au::Zero>::value));
constexpr bool vf_b = au::ZERO; VF_STATIC_FACT(vf_b == false);
constexpr long double vf_ld = au::ZERO; VF_STATIC_FACT(vf_ld == 0.0L);
int main() {}
'''
    obs.append(Ob(id='C19.static.zero-converts-to-every-arithmetic-type', prop='C19', group='C19.static', prelude='', wrappers=[], inputs=[], body=body, kind='S',
                  contract='static facts: Zero is convertible to each of %d arithmetic types (bool and the character types included) and to chrono durations (built-in and class-type reps, any period), with value 0; '
                           'it is neither convertible to nor constructible into a QuantityPoint' % len(ts), functions_under_contract=('au::Zero::operator T (compile-time)',)))
    return obs
