"""C09 -- QuantityPoint obeys exact affine semantics (value half).  DESIGN.md section 5."""
from fractions import Fraction as Fr
from math import gcd
from core import Ob, Wrapper
import grid as G

ASSUMPTIONS = ['the "does not compile" half of C09 (point + point, scalar x point, ZERO, ...) is not decidable by a function contract',
               'inputs are bounded per obligation (|x| <= X, stated in the contract) so that the intermediate displacement, the true result '
               'AND the product by the final scale numerator are representable; the unbounded letter of the property is checked for the '
               'Fahrenheit -> milli-kelvin int32 call site and fails there (known finding KF-C09-1)',
               'floating reps for points: comparisons with NaN, and conversions on a restricted exactly-representable family (bounded, not counted); the general floating conversion has no exact specification']

# exact definitions, typed here by hand (SI / NIST): unit size u in kelvins, origin o in kelvins above absolute zero
PT = {
    'K': dict(ty='au::Kelvins', inc='#include "au/units/kelvins.hh"', u=Fr(1), o=Fr(0)),
    'C': dict(ty='au::Celsius', inc='#include "au/units/celsius.hh"', u=Fr(1), o=Fr(27315, 100)),
    'F': dict(ty='au::Fahrenheit', inc='#include "au/units/fahrenheit.hh"', u=Fr(5, 9), o=Fr(45967, 100) * Fr(5, 9)),
    'mK': dict(ty='au::Milli<au::Kelvins>', inc='#include "au/units/kelvins.hh"', u=Fr(1, 1000), o=Fr(0)),
    'X1': dict(ty='VP_X1', inc='#include "au/units/kelvins.hh"\n//--\nstruct VP_X1 : decltype(au::Kelvins{} * au::mag<2>() / au::mag<3>()) '
                               '{ static constexpr auto origin() { return (au::kelvins / au::mag<6>())(7); } };', u=Fr(2, 3), o=Fr(7, 6)),
    'X2': dict(ty='VP_X2', inc='#include "au/units/kelvins.hh"\n//--\nstruct VP_X2 : decltype(au::Kelvins{} * au::mag<5>()) '
                               '{ static constexpr auto origin() { return au::kelvins(-3); } };', u=Fr(5), o=Fr(-3)),
    'X3': dict(ty='VP_X3', inc='#include "au/units/kelvins.hh"\n//--\nstruct VP_X3 : decltype(au::Kelvins{} / au::mag<1000>()) '
                               '{ static constexpr auto origin() { return (au::kelvins / au::mag<1000>())(273150); } };', u=Fr(1, 1000), o=Fr(27315, 100)),
    'X4': dict(ty='VP_X4', inc='#include "au/units/kelvins.hh"\n//--\nstruct VP_X4 : decltype(au::Kelvins{} * au::mag<2>()) '
                               '{ static constexpr auto origin() { return au::kelvins(300); } };', u=Fr(2), o=Fr(300)),
    'X5': dict(ty='VP_X5', inc='#include "au/units/kelvins.hh"\n//--\nstruct VP_X5 : decltype(au::Kelvins{} / au::mag<4>()) '
                               '{ static constexpr auto origin() { return (au::kelvins / au::mag<4>())(1001); } };', u=Fr(1, 4), o=Fr(1001, 4)),
    'X9': dict(ty='VP_X9', inc='#include "au/units/kelvins.hh"\n//--\nstruct VP_X9 : au::Kelvins { static constexpr auto origin() { return au::kelvins(-5); } };', u=Fr(1), o=Fr(-5)),
    'cC': dict(ty='au::Centi<au::Celsius>', inc='#include "au/units/celsius.hh"\n//--\n#include "au/prefix.hh"', u=Fr(1, 100), o=Fr(27315, 100)),
    # three units whose origins need different granularities (1/10 K, none, 1/1000 K), with the lowest origin on the unit that sorts in the middle
    'X6': dict(ty='VP_X6', inc='#include "au/units/kelvins.hh"\n//--\nstruct VP_X6 : au::Kelvins '
                               '{ static constexpr auto origin() { return (au::kelvins / au::mag<10>())(5); } };', u=Fr(1), o=Fr(1, 2)),
    'X7': dict(ty='VP_X7', inc='#include "au/units/kelvins.hh"\n//--\nstruct VP_X7 : decltype(au::Kelvins{} * au::mag<5>() / au::mag<9>()) {};', u=Fr(5, 9), o=Fr(0)),
    'X8': dict(ty='VP_X8', inc='#include "au/units/kelvins.hh"\n//--\nstruct VP_X8 : decltype(au::Kelvins{} * au::mag<7>()) '
                               '{ static constexpr auto origin() { return (au::kelvins / au::mag<1000>())(1); } };', u=Fr(7), o=Fr(1, 1000)),
}
FINE = 9000   # every unit size and origin above is a multiple of 1/9000 K


def prelude(*names):
    return '\n//--\n'.join(PT[n]['inc'] for n in names) + '\n//--\n#include "au/quantity_point.hh"'


def affine(s, t):
    """target value = (x*A + B) / Dn exactly, with integers A, B, Dn > 0 in lowest terms"""
    us, os, ut, ot = PT[s]['u'], PT[s]['o'], PT[t]['u'], PT[t]['o']
    a = us / ut; b = (os - ot) / ut
    Dn = a.denominator * b.denominator // gcd(a.denominator, b.denominator)
    A = int(a * Dn); B = int(b * Dn)
    g = gcd(gcd(A, abs(B)), Dn)
    return A // g, B // g, Dn // g


QUICK_PAIRS = [('C', 'K'), ('K', 'C'), ('F', 'C'), ('C', 'F'), ('F', 'K'), ('K', 'mK'), ('F', 'mK'), ('mK', 'F'), ('C', 'mK'),
               ('X1', 'K'), ('K', 'X1'), ('X2', 'C'), ('X1', 'X2'), ('X3', 'C'), ('C', 'X3'), ('X2', 'F')]
BOUND = {'i32': 10 ** 4, 'i64': 10 ** 9}


def obligations(tier, seed):
    obs = []
    names = list(PT)
    pairs = [(s, t) for s in names for t in names if s != t] if tier == 'thorough' else QUICK_PAIRS
    for k, (s, t) in enumerate(pairs):
        for rep in ('i32', 'i64'):
            if tier == 'quick' and rep == 'i32' and k % 2 == 1: continue
            ct = G.ctype(rep)
            A, B, Dn = affine(s, t)
            X = BOUND[rep]
            tag = '%s_%s_%s' % (s, t, rep)
            w = Wrapper('w_pt_' + tag, ct, [(ct, 'x')], 'return au::make_quantity_point<%s>(x).coerce_in(%s{});' % (PT[s]['ty'], PT[t]['ty']))
            wa = Wrapper('w_ptas_' + tag, ct, [(ct, 'x')], 'return au::make_quantity_point<%s>(x).coerce_as(%s{}).in(%s{});' % (PT[s]['ty'], PT[t]['ty'], PT[t]['ty']))
            num = '((i128)x * %s + %s)' % (G.lit(A), G.lit(B))
            body = '''
  ASSUME(x >= %d && x <= %d);
  %s r = %s(x);
  CHECK((i128)r == %s / %s, "point-conversion-applies-the-exact-affine-map");
''' % (-X, X, ct, w.name, num, G.lit(Dn))
            twin = body.replace('+ %s)' % G.lit(B), '+ %s)' % G.lit(B + Dn)) if k % 3 == 0 else None
            obs.append(Ob(id='C09.conv.%s' % tag, prop='C09', group='C09.%s_%s' % (s, t), prelude=prelude(s, t), wrappers=[w], inputs=[(ct, 'x')],
                          body=body, twin=twin,
                          contract='forall %s x, |x| <= %d: %s_pt(x).coerce_in(%s) == trunc((x*%d + %d) / %d)   [exact affine map (x*u_s + o_s - o_t)/u_t]; no UB:*'
                                   % (ct, X, s, t, A, B, Dn),
                          functions_under_contract=('au::QuantityPoint::coerce_in', 'au::QuantityPoint::in<Rep>', 'au::OriginDisplacement::value')))
            if k % 4 == 0:
                body2 = body.replace(w.name, wa.name)
                obs.append(Ob(id='C09.conv-as.%s' % tag, prop='C09', group='C09.%s_%s' % (s, t), prelude=prelude(s, t), wrappers=[wa], inputs=[(ct, 'x')],
                              body=body2, contract='same contract for coerce_as(...).in(...)', functions_under_contract=('au::QuantityPoint::coerce_as',)))
    # ---- rep-changing point conversions: the affine arithmetic must run in the intermediate rep, not in the source rep
    repc = [('C', 'mK', 'i32', 'i64'), ('mK', 'C', 'u32', 'i64'), ('K', 'C', 'u32', 'i64'), ('F', 'K', 'i16', 'i32'), ('C', 'K', 'i64', 'i32'), ('X1', 'X2', 'i32', 'i64'),
            ('K', 'F', 'u16', 'i32'), ('C', 'F', 'i32', 'i64')]
    if tier == 'thorough': repc += [('F', 'mK', 'i32', 'i64'), ('X3', 'C', 'u32', 'i64'), ('mK', 'K', 'i64', 'i16'), ('X2', 'K', 'i8', 'i32'), ('C', 'X1', 'u8', 'i64')]
    for (sname, tname, r1, r2) in repc:
        c1, c2 = G.ctype(r1), G.ctype(r2)
        A, B, Dn = affine(sname, tname)
        tag = '%s_%s_%s_%s' % (sname, tname, r1, r2)
        w = Wrapper('w_ptrep_' + tag, c2, [(c1, 'x')], 'return au::make_quantity_point<%s>(x).coerce_in<%s>(%s{});' % (PT[sname]['ty'], c2, PT[tname]['ty']))
        # every source value whose exact result fits the target rep; for 64-bit sources additionally |x| <= 10^9 (intermediate products)
        bound = ' && x >= -1000000000 && x <= 1000000000' if r1 == 'i64' else ''
        num = '((i128)x * %s + %s)' % (G.lit(A), G.lit(B))
        body = '''
  ASSUME(FITS(%s, %s / %s)%s);
  %s r = %s(x);
  CHECK((i128)r == %s / %s, "rep-changing-point-conversion-applies-the-exact-affine-map");
''' % (r2, num, G.lit(Dn), bound, c2, w.name, num, G.lit(Dn))
        obs.append(Ob(id='C09.convrep.%s' % tag, prop='C09', group='C09.rep.%s_%s' % (sname, tname), prelude=prelude(sname, tname), wrappers=[w], inputs=[(c1, 'x')], body=body,
                      contract='forall %s x whose exact result fits %s%s: %s_pt(x).coerce_in<%s>(%s) == trunc((x*%d + %d) / %d); no UB:*' % (c1, c2, bound, sname, c2, tname, A, B, Dn),
                      functions_under_contract=('au::QuantityPoint::coerce_in<NewRep>', 'au::QuantityPoint::in<NewRep>', 'au::detail::IntermediateRep')))
    # ---- reps NARROWER than int (integer promotion between the origin shift and the scaling), every x for which the property's precondition holds:
    #      the displacement from the target origin, in source units, and the true result are representable in the rep
    narrow = [('cC', 'K', 'u16'), ('cC', 'K', 'i16'), ('cC', 'C', 'u16'), ('K', 'X2', 'u8'), ('K', 'X2', 'i8'), ('C', 'cC', 'i16'), ('X5', 'X4', 'u16'), ('X4', 'X5', 'u16'), ('X5', 'K', 'u16')]
    for (s_, t_, rep) in narrow:
        ct = G.ctype(rep)
        A, B, Dn = affine(s_, t_)
        tag = '%s_%s_%s' % (s_, t_, rep)
        w = Wrapper('w_ptn_' + tag, ct, [(ct, 'x')], 'return au::make_quantity_point<%s>(x).coerce_in(%s{});' % (PT[s_]['ty'], PT[t_]['ty']))
        wa = Wrapper('w_ptnas_' + tag, ct, [(ct, 'x')], 'return au::make_quantity_point<%s>(x).coerce_as(%s{}).in(%s{});' % (PT[s_]['ty'], PT[t_]['ty'], PT[t_]['ty']))
        num = '((i128)x * %s + %s)' % (G.lit(A), G.lit(B))
        body = '''
  ASSUME(FITS(%s, %s));                    /* the displacement from the target origin (numerator of the affine map) is representable in the rep */
  ASSUME(FITS(%s, %s / %s));               /* and so is the true result */
  CHECK((i128)%s(x) == %s / %s, "point-conversion-applies-the-exact-affine-map");
  CHECK((i128)%s(x) == %s / %s, "coerce_as-agrees");
''' % (rep, num, rep, num, G.lit(Dn), w.name, num, G.lit(Dn), wa.name, num, G.lit(Dn))
        obs.append(Ob(id='C09.conv-narrow.%s' % tag, prop='C09', group='C09.n.%s_%s' % (s_, t_), prelude=prelude(s_, t_), wrappers=[w, wa], inputs=[(ct, 'x')], body=body,
                      contract='forall %s x whose displacement from the target origin (x*%d + %d, in units of 1/%d of the target unit) and whose true result fit %s: %s_pt(x).coerce_in(%s_pt) == trunc((x*%d + %d) / %d) '
                               '(rep narrower than int: the origin shift must be brought back into the rep before it is scaled); no UB:*' % (ct, A, B, Dn, ct, s_, t_, A, B, Dn),
                      functions_under_contract=('au::QuantityPoint::coerce_in', 'au::QuantityPoint::in<NewRep>', 'au::detail::IntermediateRep')))
    # ---- two-point operations: comparisons, point - point, point +/- quantity
    pp = [('C', 'K'), ('F', 'C'), ('K', 'mK'), ('X1', 'X2'), ('F', 'X3')] if tier == 'quick' else [(s, t) for s in names for t in names if s < t]
    fine_ty = 'VP_FINE'
    fine_pre = '#include "au/units/kelvins.hh"\n//--\nstruct VP_FINE : decltype(au::Kelvins{} / au::mag<%d>()) {};' % FINE
    for k, (s, t) in enumerate(pp):
        for rep in ('i32',) if tier == 'quick' else ('i32', 'i64'):
            ct = G.ctype(rep)
            X = 1000 if rep == 'i32' else 10 ** 7
            tag = '%s_%s_%s' % (s, t, rep)
            p1 = 'au::make_quantity_point<%s>(a)' % PT[s]['ty']; p2 = 'au::make_quantity_point<%s>(b)' % PT[t]['ty']
            # absolute positions in units of 1/FINE kelvin
            P1 = '((i128)a * %s + %s)' % (G.lit(int(PT[s]['u'] * FINE)), G.lit(int(PT[s]['o'] * FINE)))
            P2 = '((i128)b * %s + %s)' % (G.lit(int(PT[t]['u'] * FINE)), G.lit(int(PT[t]['o'] * FINE)))
            ops = [('eq', '=='), ('ne', '!='), ('lt', '<'), ('le', '<='), ('gt', '>'), ('ge', '>=')]
            ws = [Wrapper('w_p%s_%s' % (n, tag), 'bool', [(ct, 'a'), (ct, 'b')], 'return %s %s %s;' % (p1, op, p2)) for n, op in ops]
            checks = '\n'.join('  CHECK(%s(a, b) == (%s %s %s), "%s-orders-points-by-absolute-position");' % (w.name, P1, op, P2, n) for w, (n, op) in zip(ws, ops))
            body = '\n  ASSUME(a >= %d && a <= %d && b >= %d && b <= %d);\n%s\n' % (-X, X, -X, X, checks)
            obs.append(Ob(id='C09.cmp.%s' % tag, prop='C09', group='C09.pp.%s_%s' % (s, t), prelude=prelude(s, t), wrappers=ws, inputs=[(ct, 'a'), (ct, 'b')],
                          body=body, contract='forall |a|,|b| <= %d: (%s_pt(a) op %s_pt(b)) == (a*u1 + o1  op  b*u2 + o2) with exact rationals (denominators cleared by %d)' % (X, s, t, FINE),
                          functions_under_contract=('au::operator==..>=(QuantityPoint, QuantityPoint)', 'au::detail::using_common_point_unit')))
            if rep == 'i64': continue    # 64-bit point - point / point +- quantity through the fine reading unit: undecided for several unit pairs on every back end; 32-bit instances only
            wd = Wrapper('w_pdiff_' + tag, ct, [(ct, 'a'), (ct, 'b')], 'return (%s - %s).coerce_in(%s{});' % (p1, p2, fine_ty))
            body = '''
  ASSUME(a >= %d && a <= %d && b >= %d && b <= %d);
  %s d = %s(a, b);
  CHECK((i128)d == %s - %s, "point-minus-point-is-the-exact-displacement");
''' % (-X, X, -X, X, ct, wd.name, P1, P2)
            obs.append(Ob(id='C09.diff.%s' % tag, prop='C09', group='C09.pp.%s_%s' % (s, t), prelude=prelude(s, t) + '\n//--\n' + fine_pre, wrappers=[wd],
                          inputs=[(ct, 'a'), (ct, 'b')], body=body,
                          contract='forall |a|,|b| <= %d: (%s_pt(a) - %s_pt(b)) expressed in 1/%d K == exact displacement' % (X, s, t, FINE),
                          functions_under_contract=('au::operator-(QuantityPoint, QuantityPoint)',)))
            # point +/- quantity of the other unit, read back in the fine point unit with origin at absolute zero
            q2 = 'au::make_quantity<%s>(b)' % PT[t]['ty']
            Q2 = '((i128)b * %s)' % G.lit(int(PT[t]['u'] * FINE))
            wpq = Wrapper('w_pplusq_' + tag, ct, [(ct, 'a'), (ct, 'b')], 'return (%s + %s).coerce_in(%s{});' % (p1, q2, fine_ty))
            wqp = Wrapper('w_qplusp_' + tag, ct, [(ct, 'a'), (ct, 'b')], 'return (%s + %s).coerce_in(%s{});' % (q2, p1, fine_ty))
            wmq = Wrapper('w_pminusq_' + tag, ct, [(ct, 'a'), (ct, 'b')], 'return (%s - %s).coerce_in(%s{});' % (p1, q2, fine_ty))
            for (w, sign, nm, fn) in ((wpq, '+', 'point-plus-quantity', 'au::operator+(QuantityPoint, Quantity)'),
                                      (wqp, '+', 'quantity-plus-point', 'au::operator+(Quantity, QuantityPoint)'),
                                      (wmq, '-', 'point-minus-quantity', 'au::operator-(QuantityPoint, Quantity)')):
                body = '''
  ASSUME(a >= %d && a <= %d && b >= %d && b <= %d);
  CHECK((i128)%s(a, b) == %s %s %s, "%s-shifts-by-exactly-that-displacement");
''' % (-X, X, -X, X, w.name, P1, sign, Q2, nm)
                obs.append(Ob(id='C09.shift.%s.%s' % (nm, tag), prop='C09', group='C09.pp.%s_%s' % (s, t), prelude=prelude(s, t) + '\n//--\n' + fine_pre,
                              wrappers=[w], inputs=[(ct, 'a'), (ct, 'b')], body=body,
                              contract='forall |a|,|b| <= %d: %s of %s_pt(a) and %s_qty(b) is the point at absolute position a*u1 + o1 %s b*u2' % (X, nm, s, t, sign),
                              functions_under_contract=(fn, 'au::detail::borrow_origin')))
    # ---- two-point operations with DIFFERENT reps: each operand must be widened to the common rep before it is scaled to the common point unit
    mixed = [('C', 'mK', 'u32', 'u64'), ('K', 'mK', 'i32', 'i64'), ('X2', 'C', 'i32', 'i64'), ('mK', 'K', 'i64', 'i32')]
    if tier == 'thorough': mixed += [('F', 'C', 'i16', 'i64'), ('X1', 'X5', 'u16', 'u64'), ('C', 'X3', 'u8', 'u32')]
    for (s1, t1, r1, r2) in mixed:
        c1, c2 = G.ctype(r1), G.ctype(r2)
        CR = G.common(r1, r2); cc = G.ctype(CR)
        tag = '%s_%s_%s_%s' % (s1, t1, r1, r2)
        p1 = 'au::make_quantity_point<%s>(a)' % PT[s1]['ty']; p2 = 'au::make_quantity_point<%s>(b)' % PT[t1]['ty']
        P1 = '((i128)a * %s + %s)' % (G.lit(int(PT[s1]['u'] * FINE)), G.lit(int(PT[s1]['o'] * FINE)))
        P2 = '((i128)b * %s + %s)' % (G.lit(int(PT[t1]['u'] * FINE)), G.lit(int(PT[t1]['o'] * FINE)))
        # the narrow operand ranges over its whole rep (or 2^32 for a 64-bit one), the wide one over +-10^9
        rng = lambda v, r: '1' if G.REPS[r]['bits'] <= 32 else '(%s >= %s && %s <= 1000000000)' % (v, '0' if not G.REPS[r]['signed'] else '-1000000000', v)
        pre_c = '%s && %s' % (rng('a', r1), rng('b', r2))
        for n, op in (('lt', '<'), ('eq', '=='), ('ge', '>=')):
            w = Wrapper('w_pm%s_%s' % (n, tag), 'bool', [(c1, 'a'), (c2, 'b')], 'return %s %s %s;' % (p1, op, p2))
            body = '\n  ASSUME(%s);\n  CHECK(%s(a, b) == (%s %s %s), "%s-orders-points-by-absolute-position");\n' % (pre_c, w.name, P1, op, P2, n)
            obs.append(Ob(id='C09.cmp-mixedrep.%s.%s' % (n, tag), prop='C09', group='C09.ppm.%s' % tag, prelude=prelude(s1, t1), wrappers=[w], inputs=[(c1, 'a'), (c2, 'b')], body=body,
                          contract='forall a:%s (whole range), b:%s (|b| <= 10^9): (%s_pt(a) %s %s_pt(b)) == exact comparison of absolute positions; the narrow operand is widened to %s first' % (c1, c2, s1, op, t1, cc),
                          functions_under_contract=('au::operator%s(QuantityPoint<U1,R1>, QuantityPoint<U2,R2>)' % op, 'au::detail::using_common_point_unit')))
        wd = Wrapper('w_pmdiff_' + tag, cc, [(c1, 'a'), (c2, 'b')], 'return (%s - %s).coerce_in(%s{});' % (p1, p2, fine_ty))
        nonneg = ' && %s >= %s' % (P1, P2) if not G.REPS[CR]['signed'] else ''
        body = '''
  ASSUME(%s%s);
  %s d = %s(a, b);
  CHECK((i128)d == %s - %s, "point-minus-point-is-the-exact-displacement");
''' % (pre_c, nonneg, cc, wd.name, P1, P2)
        obs.append(Ob(id='C09.diff-mixedrep.%s' % tag, prop='C09', group='C09.ppm.%s' % tag, prelude=prelude(s1, t1) + '\n//--\n' + fine_pre, wrappers=[wd],
                      inputs=[(c1, 'a'), (c2, 'b')], body=body,
                      contract='forall a:%s (whole range), b:%s bounded: (%s_pt(a) - %s_pt(b)) in 1/%d K is the exact displacement (computed in the common rep %s)' % (c1, c2, s1, t1, FINE, cc),
                      functions_under_contract=('au::operator-(QuantityPoint<U1,R1>, QuantityPoint<U2,R2>)',)))
    # ---- point +/- quantity with DIFFERENT reps (and units): the quantity must be widened to the common rep BEFORE it is negated or scaled
    smixed = [('K', 'K', 'i64', 'u32'), ('C', 'mK', 'i64', 'u32'), ('K', 'mK', 'i32', 'i64'), ('mK', 'K', 'u64', 'u32')]
    if tier == 'thorough': smixed += [('F', 'C', 'i64', 'u16'), ('X1', 'X2', 'i64', 'i16'), ('C', 'K', 'i32', 'u8')]
    for (s1, t1, r1, r2) in smixed:
        c1, c2 = G.ctype(r1), G.ctype(r2)
        CR = G.common(r1, r2); cc = G.ctype(CR)
        tag = '%s_%s_%s_%s' % (s1, t1, r1, r2)
        p1 = 'au::make_quantity_point<%s>(a)' % PT[s1]['ty']; q2 = 'au::make_quantity<%s>(b)' % PT[t1]['ty']
        P1 = '((i128)a * %s + %s)' % (G.lit(int(PT[s1]['u'] * FINE)), G.lit(int(PT[s1]['o'] * FINE)))
        Q2 = '((i128)b * %s)' % G.lit(int(PT[t1]['u'] * FINE))
        # an operand narrower than the common rep ranges over its whole rep; one that already has the width of the common rep is bounded (10^9 for 64 bits, 10^5 for 32 bits)
        # so that the scaled positions fit the common rep (an earlier version left a 32-bit operand unbounded next to a uint8_t one: the library's own int arithmetic overflowed,
        # which is outside the property's precondition - a false alarm of this grid in the thorough tier, corrected)
        cb = G.REPS[CR]['bits']
        rng = lambda v, r: '1' if G.REPS[r]['bits'] < cb else '(%s >= %s && %s <= %d)' % (v, '0' if not G.REPS[r]['signed'] else str(-(10 ** 9 if cb == 64 else 10 ** 5)), v, 10 ** 9 if cb == 64 else 10 ** 5)
        pre_c = '%s && %s' % (rng('a', r1), rng('b', r2))
        for (expr, sign, nm, fn) in (('%s + %s' % (p1, q2), '+', 'point-plus-quantity', 'au::operator+(QuantityPoint, Quantity)'),
                                     ('%s + %s' % (q2, p1), '+', 'quantity-plus-point', 'au::operator+(Quantity, QuantityPoint)'),
                                     ('%s - %s' % (p1, q2), '-', 'point-minus-quantity', 'au::operator-(QuantityPoint, Quantity)')):
            w = Wrapper('w_sm_%s_%s' % (nm.replace('-', ''), tag), cc, [(c1, 'a'), (c2, 'b')], 'return (%s).coerce_in(%s{});' % (expr, fine_ty))
            nonneg = ' && (%s %s %s) >= 0' % (P1, sign, Q2) if not G.REPS[CR]['signed'] else ''
            body = '''
  ASSUME(%s%s);
  CHECK((i128)%s(a, b) == %s %s %s, "%s-shifts-by-exactly-that-displacement");
''' % (pre_c, nonneg, w.name, P1, sign, Q2, nm)
            obs.append(Ob(id='C09.shift-mixedrep.%s.%s' % (nm, tag), prop='C09', group='C09.psm.%s' % tag, prelude=prelude(s1, t1) + '\n//--\n' + fine_pre,
                          wrappers=[w], inputs=[(c1, 'a'), (c2, 'b')], body=body,
                          contract='forall a:%s, b:%s (narrow operand over its whole range, wide one bounded): %s of %s_pt(a) and %s_qty(b), read in 1/%d K in the common rep %s, is the point at '
                                   'absolute position a*u1 + o1 %s b*u2' % (c1, c2, nm, s1, t1, FINE, cc, sign),
                          functions_under_contract=(fn,)))
    # ---- floating reps: point conversions on a restricted family (integer-valued inputs, unit pairs whose scale and origin offset are dyadic, so that every intermediate value is
    #      exactly representable and the exact rational answer is THE answer): a bounded stand-in, not counted; the general floating case has no exact specification
    for (s_, t_, rep) in (('K', 'X4', 'f64'), ('X4', 'K', 'f64'), ('X2', 'X5', 'f64'), ('K', 'mK', 'f32'), ('X5', 'X2', 'f64'), ('X4', 'X2', 'f32')):
        ctf = G.ctype(rep)
        A_, B_, Dn_ = affine(s_, t_)
        wfp = Wrapper('w_ptfp_%s_%s_%s' % (s_, t_, rep), ctf, [(ctf, 'x')], 'return au::make_quantity_point<%s>(x).coerce_in(%s{});' % (PT[s_]['ty'], PT[t_]['ty']))
        body = '''
  ASSUME(n >= -1000 && n <= 1000);
  ASSUME((((i64)n * %d + (%d)) %% %d) == 0);     /* the exact result is an integer: representable, and so is every intermediate value */
  %s x = (%s)n;
  CHECK(%s(x) == (%s)(((i64)n * %d + (%d)) / %d), "floating-point-conversion-gives-the-exact-affine-image");
''' % (A_, B_, Dn_, ctf, ctf, wfp.name, ctf, A_, B_, Dn_)
        obs.append(Ob(id='C09.convfp.family.%s_%s_%s' % (s_, t_, rep), prop='C09', group='C09.fp.%s_%s' % (s_, t_), prelude=prelude(s_, t_), wrappers=[wfp], inputs=[('int16_t', 'n')], body=body,
                      fp=True, bounded=True, budget=300,
                      contract='restricted family: integer-valued x = n, |n| <= 1000, with an integral exact image: %s_pt((%s)n).coerce_in(%s_pt) == (n*%d + %d) / %d exactly (floating rep; scale and '
                               'origin offset of this unit pair are dyadic)' % (s_, ctf, t_, A_, B_, Dn_), functions_under_contract=('au::QuantityPoint::coerce_in (floating rep)',)))
    # ---- floating reps: a NaN position is unordered (every ordering comparison false, != true), mixed units and same unit
    for (s1, t1, rep) in (('C', 'K', 'f64'), ('F', 'F', 'f32'), ('K', 'mK', 'f32')):
        ct = G.ctype(rep)
        tag = '%s_%s_%s' % (s1, t1, rep)
        p1 = 'au::make_quantity_point<%s>(a)' % PT[s1]['ty']; p2 = 'au::make_quantity_point<%s>(b)' % PT[t1]['ty']
        ops = [('eq', '=='), ('ne', '!='), ('lt', '<'), ('le', '<='), ('gt', '>'), ('ge', '>=')]
        ws = [Wrapper('w_pnan%s_%s' % (n, tag), 'bool', [(ct, 'a'), (ct, 'b')], 'return %s %s %s;' % (p1, op, p2)) for n, op in ops]
        body = '''
  ASSUME(VF_ISNAN(a) || VF_ISNAN(b));
  CHECK(!%s(a, b) && %s(a, b) && !%s(a, b) && !%s(a, b) && !%s(a, b) && !%s(a, b), "a-NaN-position-is-unordered");
''' % tuple(w.name for w in ws)
        obs.append(Ob(id='C09.cmp-nan.%s' % tag, prop='C09', group='C09.nan.%s' % tag, prelude=prelude(s1, t1), wrappers=ws, inputs=[(ct, 'a'), (ct, 'b')], body=body, fp=True,
                      contract='floating reps: if either position is NaN then ==, <, <=, >, >= are false and != is true (%s_pt vs %s_pt, %s)' % (s1, t1, ct),
                      functions_under_contract=('au::operator==..>=(QuantityPoint, QuantityPoint) (floating)',)))
    # ---- the letter of the property at one call site (known finding KF-C09-1)
    ct = 'int32_t'
    w = Wrapper('w_pt_letter_F_mK_i32', ct, [(ct, 'x')], 'return au::make_quantity_point<au::Fahrenheit>(x).coerce_in(au::Milli<au::Kelvins>{});')
    A, B, Dn = affine('F', 'mK')
    body = '''
  /* property wording: exact whenever the true result and the intermediate displacement (centi-rankines: 100 x + 45967) are representable */
  ASSUME(FITS(i32, (i128)x * 100 + 45967));
  ASSUME(FITS(i32, ((i128)x * %d + %d) / %d));
  int32_t r = %s(x);
  CHECK((i128)r == ((i128)x * %d + %d) / %d, "point-conversion-applies-the-exact-affine-map");
''' % (A, B, Dn, w.name, A, B, Dn)
    obs.append(Ob(id='C09.letter.F_mK_i32', prop='C09', group='C09.letter', prelude=prelude('F', 'mK'), wrappers=[w], inputs=[(ct, 'x')], body=body,
                  contract='forall int32 x with displacement 100x+45967 and true result in range: fahrenheit_pt(x).coerce_in(milli(kelvins_pt)) == trunc((x*%d + %d)/%d); no UB:*' % (A, B, Dn),
                  functions_under_contract=('au::QuantityPoint::coerce_in',)))
    # ---- negative compile probes: programs the property says are REJECTED must be rejected by the library's own guard (supporting static facts, decided by the compilers)
    NHDR = '#include "au/au.hh"\n#include "au/units/feet.hh"\n#include "au/units/inches.hh"\n#include "au/units/meters.hh"\n#include "au/units/seconds.hh"\n#include "au/units/hertz.hh"\n#include "au/units/percent.hh"\n#include "au/units/celsius.hh"\n#include "au/units/kelvins.hh"\nusing namespace au;\n'
    for (nm_, expr_, rx_) in [('point-plus-point', 'celsius_pt(1) + celsius_pt(2)', 'no match for|invalid operands'), ('scalar-times-point', '2 * celsius_pt(1)', 'no match for|invalid operands'), ('point-times-scalar', 'celsius_pt(1) * 2', 'no match for|invalid operands'), ('point-compared-with-quantity', 'celsius_pt(1) < celsius_qty(2)', 'no match for|invalid operands'), ('point-minus-zero', 'celsius_pt(1) - ZERO', 'no match for|invalid operands|ambiguous')]:
        obs.append(Ob(id='C09.static.rejects.' + nm_, prop='C09', group='C09.static', prelude='', wrappers=[], inputs=[], kind='S',
                      body=NHDR + 'int main() { auto vf_x = ' + expr_ + '; (void)vf_x; }\n', dfcc=dict(expect='reject', match=rx_),
                      contract='must not compile: `' + expr_ + '` (points do not add, scale or compare with quantities; diagnostic /' + rx_ + '/)',
                      functions_under_contract=('compile-time guard',)))
    return obs
