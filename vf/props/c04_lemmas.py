"""Arithmetic lemma behind the C04 contract of OverflowChecker<T,true>::would_product_overflow for signed 32- and 64-bit T (terms: vf/lemma.py; proof: Lean 4 + Mathlib)."""
import os
from lemma import *

x, m = V('x'), V('m')


def wpo(bits):
    MAX = (1 << (bits - 1)) - 1; MINE = 1 << (bits - 1)      # bit patterns of max(T) and lowest(T)
    small = And(x < K(1 << bits), m < K(1 << bits)) if bits < 64 else TRUE
    test = Or(slt(sdiv(K(MAX), m, bits), x, bits), slt(x, sdiv(K(MINE), m, bits), bits))
    fits = PApp('sprodfits%d' % bits, x, m)
    return Lemma('wpo%d' % bits, ['x', 'm'], And(small, sle(1, m, bits)), And(Imp(test, Not(fits)), Imp(Not(test), fits)),
                 proof=r'''  obtain ⟨hsmall, hm⟩ := hyp
  have s1 : sval BITS 1 = 1 := by norm_num [sval]
  rw [s1] at hm
  have smax : sval BITS MAXV = MAXV := by norm_num [sval]
  have smin : sval BITS MINE = -MINE := by norm_num [sval]
  have hm0 : (0 : Int) < sval BITS m := by omega
  have r1lo : (0 : Int) ≤ Int.tdiv MAXV (sval BITS m) := Int.tdiv_nonneg (by norm_num) (by omega)
  have r1hi : Int.tdiv MAXV (sval BITS m) ≤ MAXV := by
    rw [Int.tdiv_eq_ediv_of_nonneg (by norm_num)]
    exact Int.ediv_le_self _ (by norm_num)
  have r2 : Int.tdiv (-MINE) (sval BITS m) = -(Int.tdiv MINE (sval BITS m)) := Int.neg_tdiv _ _
  have r2lo : (0 : Int) ≤ Int.tdiv MINE (sval BITS m) := Int.tdiv_nonneg (by norm_num) (by omega)
  have r2hi : Int.tdiv MINE (sval BITS m) ≤ MINE := by
    rw [Int.tdiv_eq_ediv_of_nonneg (by norm_num)]
    exact Int.ediv_le_self _ (by norm_num)
  have e1 : sval BITS (enc BITS (Int.tdiv (sval BITS MAXV) (sval BITS m))) = Int.tdiv MAXV (sval BITS m) := by
    rw [smax]; exact sval_enc BITS (by norm_num) _ (by norm_num; omega) (by norm_num; omega)
  have e2 : sval BITS (enc BITS (Int.tdiv (sval BITS MINE) (sval BITS m))) = Int.tdiv (-MINE) (sval BITS m) := by
    rw [smin]; exact sval_enc BITS (by norm_num) _ (by norm_num; omega) (by norm_num; omega)
  rw [e1, e2]
  unfold specp_sprodfitsBITS
  have core := wpo_core (sval BITS x) (sval BITS m) MAXV (-MINE) hm (by norm_num) (by norm_num)
  constructor
  · intro h
    have := core.mp h
    omega
  · intro h
    by_contra hc
    apply h
    apply core.mpr
    omega'''.replace('BITS', str(bits)).replace('MAXV', str(MAX)).replace('MINE', str(MINE)),
                 doc='would_product_overflow for signed %d-bit T and a magnitude m >= 1: (x > max / m or x < lowest / m), with C\'s truncating division, holds exactly when x*m leaves the range of T' % bits)


WPO = [wpo(64), wpo(32)]
WPO_PRELUDE = open(os.path.join(os.path.dirname(__file__), '..', '..', 'lemmas', 'wpo_core.lean')).read()
