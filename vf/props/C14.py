"""C14 -- products, quotients and powers combine values raw-wise (value half).  DESIGN.md section 5."""
from core import Ob, Wrapper
import grid as G

ASSUMPTIONS = ['the result UNIT as a type, the integer-division guard and as_raw_number\'s rejection rules are compile-time: the wrappers name the expected product unit in '
               '.in(...), so a wrong unit no longer compiles or rescales the value; rejections themselves are not decided',
               'sqrt / cbrt go to libm: trusted stubs (argument and result are pinned, the function itself is assumed)',
               'floating-point *, / obligations are STRUCTURAL: the operator is an uninterpreted function on both sides (one application to exactly the stored values, for every meaning of the operator); '
               'the restricted families (bounded, not counted) additionally compare against the concrete IEEE operator bit for bit']

PRE = '#include "au/math.hh"\n#include "au/units/meters.hh"\n#include "au/units/seconds.hh"\n#include "au/units/feet.hh"'


def obligations(tier, seed):
    obs = []
    M, S = 'au::Meters', 'au::Seconds'
    for rep in ((G.INT_REPS + ['f32', 'f64']) if tier == 'thorough' else ('i32', 'i64', 'u32', 'i16', 'u8', 'f32', 'f64')):
        ct = G.ctype(rep); fp = G.is_fp(rep)
        P = G.promoted(rep) if not fp else rep; cp = G.ctype(P)
        bits = {'f32': 'vf_f32_bits', 'f64': 'vf_f64_bits'}.get(rep)
        qa = 'au::make_quantity<%s>(a)' % M; qb = 'au::make_quantity<%s>(b)' % S; qm = 'au::make_quantity<%s>(b)' % M
        w_mul = Wrapper('w_mul_' + rep, cp, [(ct, 'a'), (ct, 'b')], 'return (%s * %s).in(au::UnitProductT<%s, %s>{});' % (qa, qb, M, S))
        w_sq = Wrapper('w_pow2_' + rep, cp, [(ct, 'a')], 'return au::int_pow<2>(%s).in(au::UnitPowerT<%s, 2>{});' % (qa, M))
        w_cu = Wrapper('w_pow3_' + rep, cp, [(ct, 'a')], 'return au::int_pow<3>(%s).in(au::UnitPowerT<%s, 3>{});' % (qa, M))
        if fp:
            eq = lambda r, e: '(VF_ISNAN(%s) ? VF_ISNAN(%s) : %s(%s) == %s(%s))' % (e, r, bits, r, bits, e)
            body = '''
  %s e = a * b; %s r = %s(a, b);
  CHECK(%s, "quantity-product-is-raw-product");
  %s e2 = a * a; %s r2 = %s(a);
  CHECK(%s, "int_pow-2-is-raw-square");
''' % (ct, ct, w_mul.name, eq('r', 'e'), ct, ct, w_sq.name, eq('r2', 'e2'))
            # structural obligations over ALL bit patterns: the floating operator is an uninterpreted function on both sides (-DLL2C_UF_FP=1), so the
            # claim "the library applies the raw operator to exactly the stored values, once" is decided without equating two IEEE multipliers / dividers
            W_ = '32' if rep == 'f32' else '64'
            w_div = Wrapper('w_div_' + rep, ct, [(ct, 'a'), (ct, 'b')], 'return (%s / %s).in(au::UnitQuotientT<%s, %s>{});' % (qa, qb, M, S))
            w_raw = Wrapper('w_cancel_' + rep, ct, [(ct, 'a'), (ct, 'b')], '%s r = %s / %s; return r;' % (ct, qa, qm))
            w_inv = Wrapper('w_inv_' + rep, ct, [(ct, 'a')], 'return (%s{1} / %s).in(au::UnitInverseT<%s>{});' % (ct, qa, M))
            body = '''
  CHECK(%s(%s(a, b)) == %s(LL2C_FMUL%s(a, b)), "quantity-product-is-the-raw-product-of-the-stored-values");
  CHECK(%s(%s(a, b)) == %s(LL2C_FDIV%s(a, b)), "quantity-quotient-is-the-raw-quotient-of-the-stored-values");
  CHECK(%s(%s(a, b)) == %s(LL2C_FDIV%s(a, b)), "same-unit-quotient-collapses-to-the-raw-quotient");
  CHECK(%s(%s(a)) == %s(LL2C_FDIV%s(%s, a)), "one-over-quantity-is-the-raw-quotient-1-over-value");
''' % (bits, w_mul.name, bits, W_, bits, w_div.name, bits, W_, bits, w_raw.name, bits, W_, bits, w_inv.name, bits, W_, '1.0f' if rep == 'f32' else '1.0')
            obs.append(Ob(id='C14.muldiv.%s' % rep, prop='C14', group='C14.%s' % rep, prelude=PRE, wrappers=[w_mul, w_div, w_raw, w_inv], inputs=[(ct, 'a'), (ct, 'b')], body=body, fp=True,
                          budget=300, defs=('LL2C_UF_FP=1',),
                          contract='forall bit patterns a, b (%s): (m(a) * s(b)).in(m*s) is a*b, (m(a) / s(b)).in(m/s) is a/b, m(a) / m(b) is the raw number a/b, (1 / m(a)).in(1/m) is 1/a: '
                                   'one application of the raw operator to exactly the stored values, bit for bit (structural obligation: the operator is uninterpreted on both sides, '
                                   'so the statement holds for every meaning of * and /, in particular IEEE-754)' % ct,
                          functions_under_contract=('au::Quantity::operator*(Quantity)', 'au::Quantity::operator/(Quantity)', 'au::make_quantity_unless_unitless', 'au::operator/(T, Quantity)')))
            # int_pow with negative and positive exponents on a restricted family (x = n for 1 <= n <= 1000, exhaustively): 1 / (x*x...) in this order of operations
            wn2 = Wrapper('w_pown2_' + rep, ct, [(ct, 'a')], 'return au::int_pow<-2>(%s).in(au::UnitPowerT<%s, -2>{});' % (qa, M))
            wn3 = Wrapper('w_pown3_' + rep, ct, [(ct, 'a')], 'return au::int_pow<-3>(%s).in(au::UnitPowerT<%s, -3>{});' % (qa, M))
            wp3 = Wrapper('w_powp3_' + rep, ct, [(ct, 'a')], 'return au::int_pow<3>(%s).in(au::UnitPowerT<%s, 3>{});' % (qa, M))
            one = '1.0f' if rep == 'f32' else '1.0'
            bodyf = '''
  ASSUME(n >= 1 && n <= NMAX);
  %s x = (%s)n;
  CHECK(%s(%s(x)) == %s(%s / (x * x)), "int_pow-minus-2-is-1-over-x-squared");
  CHECK(%s(%s(x)) == %s(%s / (x * (x * x))), "int_pow-minus-3-is-1-over-x-cubed");
  CHECK(%s(%s(x)) == %s(x * (x * x)), "int_pow-3-is-x-cubed");
''' % (ct, ct, bits, wn2.name, bits, one, bits, wn3.name, bits, one, bits, wp3.name, bits)
            nmax = 1000 if tier == 'thorough' else (200 if rep == 'f32' else 60)
            bodyf = bodyf.replace('NMAX', str(nmax))
            obs.append(Ob(id='C14.int_pow-family.%s' % rep, prop='C14', group='C14.%s' % rep, prelude=PRE, wrappers=[wn2, wn3, wp3], inputs=[('uint16_t', 'n')], body=bodyf, fp=True,
                          bounded=True, budget=300,
                          contract='restricted family x = n, 1 <= n <= ' + str(nmax) + ' (%s): int_pow<-2>, int_pow<-3>, int_pow<3> equal 1/(x*x), 1/(x*(x*x)), x*(x*x) bit for bit (raw operators in the '
                                   'library\'s order of operations)' % ct, functions_under_contract=('au::int_pow', 'au::detail::int_pow_impl')))
            # sqrt / cbrt: stub contract
            sfx = 'f' if rep == 'f32' else ''
            w_sqrt = Wrapper('w_sqrt_' + rep, ct, [(ct, 'a')], 'return au::sqrt(au::make_quantity<au::UnitPowerT<%s, 2>>(a)).in(%s{});' % (M, M))
            stub = 'll2c_stub_sqrt%s' % sfx
            body = '''
  %s r = %s(a);
  CHECK(%s_calls == 1, "std-sqrt-called-exactly-once");
  CHECK(%s(%s_arg0) == %s(a), "std-sqrt-applied-to-the-stored-value");
  CHECK(%s(r) == %s(%s_ret), "result-is-what-std-sqrt-returned");
''' % (ct, w_sqrt.name, stub, bits, stub, bits, bits, bits, stub)
            obs.append(Ob(id='C14.sqrt.%s' % rep, prop='C14', group='C14.%s' % rep, prelude=PRE, wrappers=[w_sqrt], inputs=[(ct, 'a')], body=body, fp=True,
                          contract='au::sqrt(m^2(a)).in(m): std::sqrt is called exactly once, on the stored value bit for bit, and its return value is the result (libm function itself trusted)',
                          functions_under_contract=('au::sqrt',)))
        else:
            W = 'i128' if G.REPS[rep]['signed'] else 'u128'
            fitsP = lambda e: ('(%s >= %s && %s <= %s)' % (e, G.lit_w(W, G.tmin(P)), e, G.lit_w(W, G.tmax(P)))) if W == 'i128' else '(%s <= %s)' % (e, G.lit_w(W, G.tmax(P)))
            w_div = Wrapper('w_div_' + rep, cp, [(ct, 'a'), (ct, 'b')], 'return (%s / au::unblock_int_div(%s)).in(au::UnitQuotientT<%s, %s>{});' % (qa, qb, M, S))
            w_raw = Wrapper('w_cancel_' + rep, cp, [(ct, 'a'), (ct, 'b')], '%s r = %s / %s; return r;' % (cp, qa, qm))
            divdef = '(b != 0 && !((i128)a == MIN_OF(%s) && (i128)b == -1))' % P
            # the guard is evaluated in wide arithmetic; the value is compared with the raw operator of the promoted type itself.
            # int_pow keeps the rep R (int_pow_impl<R> returns R): for the narrow reps each product is converted back to R, as the raw expression `R r = x * x` is
            body = '''
  if (%s) CHECK(%s(a, b) == (%s)((%s)a * (%s)b), "quantity-product-is-raw-product");
  if (%s) CHECK(%s(a) == (%s)(%s)((%s)a * (%s)a), "int_pow-2-is-raw-square");
  if (%s && %s) CHECK(%s(a) == (%s)(%s)((%s)a * (%s)(%s)((%s)a * (%s)a)), "int_pow-3-is-raw-cube");
  if (%s) { CHECK(%s(a, b) == (%s)((%s)a / (%s)b), "quantity-quotient-is-raw-quotient");
            CHECK(%s(a, b) == (%s)((%s)a / (%s)b), "same-unit-quotient-collapses-to-the-raw-number"); }
''' % ('!VF_MUL_OVF(%s, a, b)' % cp, w_mul.name, cp, cp, cp, '!VF_MUL_OVF(%s, a, a)' % cp, w_sq.name, cp, ct, cp, cp,
       '!VF_MUL_OVF(%s, a, a)' % cp, '!VF_MUL_OVF(%s, a, (%s)(%s)((%s)a * (%s)a))' % (cp, cp, ct, cp, cp), w_cu.name, cp, ct, cp, cp, ct, cp, cp,
       divdef, w_div.name, cp, cp, cp, w_raw.name, cp, cp, cp)
            obs.append(Ob(id='C14.muldiv.%s' % rep, prop='C14', group='C14.%s' % rep, prelude=PRE, wrappers=[w_mul, w_sq, w_cu, w_div, w_raw], inputs=[(ct, 'a'), (ct, 'b')], body=body,
                          budget=300, contract='forall a,b:%s with the raw expression defined: product, int_pow<2>, int_pow<3>, quotient (unblock_int_div) and same-unit quotient equal the raw operator; no UB:*' % ct,
                          functions_under_contract=('au::Quantity::operator*(Quantity)', 'au::Quantity::operator/(Quantity)', 'au::int_pow', 'au::unblock_int_div')))
    # ---- units that cancel collapse to a raw number: q[m] * q[1/m], and q / q of quantity-equivalent units
    for rep in ('i32', 'f64'):
        ct = G.ctype(rep); fp = G.is_fp(rep)
        wc1 = Wrapper('w_cancelprod_' + rep, ct, [(ct, 'a'), (ct, 'b')], '%s r = au::make_quantity<au::Meters>(a) * au::make_quantity<au::UnitInverseT<au::Meters>>(b); return r;' % ct)
        if fp:
            wc1b = Wrapper('w_cancelprod_ref_' + rep, ct, [(ct, 'a'), (ct, 'b')], 'return (au::make_quantity<au::Meters>(a) * au::make_quantity<au::Seconds>(b)).in(au::UnitProductT<au::Meters, au::Seconds>{});')
            body = '''
  ASSUME(n >= 1 && n <= 200 && m >= 1 && m <= 64);
  double a = (double)n / 8.0, b = (double)m + 0.5;
  %s r = w_cancelprod_%s(a, b);
  CHECK(vf_f64_bits(r) == vf_f64_bits(a * b), "cancelling-product-is-the-raw-product");
''' % (ct, rep)
            body2 = '''
  CHECK(vf_f64_bits(w_cancelprod_%s(a, b)) == vf_f64_bits(LL2C_FMUL64(a, b)), "cancelling-product-is-the-raw-product");
''' % rep
            obs.append(Ob(id='C14.cancel.%s' % rep, prop='C14', group='C14.cancel', prelude=PRE, wrappers=[wc1], inputs=[(ct, 'a'), (ct, 'b')], body=body2, fp=True, budget=300,
                          defs=('LL2C_UF_FP=1',), contract='forall bit patterns: m(a) * (1/m)(b) collapses to the raw double a*b (structural: * uninterpreted on both sides)',
                          functions_under_contract=('au::Quantity::operator*', 'au::make_quantity_unless_unitless')))
            obs.append(Ob(id='C14.cancel.family.%s' % rep, prop='C14', group='C14.cancel', prelude=PRE, wrappers=[wc1], inputs=[('uint8_t', 'n'), ('uint8_t', 'm')], body=body, fp=True, budget=300,
                          bounded=True,
                          contract='restricted family a = n/8 (n <= 200), b = m + 0.5 (m <= 64): m(a) * (1/m)(b) collapses to the raw double a*b bit for bit',
                          functions_under_contract=('au::Quantity::operator*', 'au::make_quantity_unless_unitless')))
        else:
            body = '''
  if (!VF_MUL_OVF(%s, a, b)) CHECK(w_cancelprod_%s(a, b) == (%s)((%s)a * (%s)b), "cancelling-product-is-the-raw-product");
''' % (ct, rep, ct, ct, ct)
            obs.append(Ob(id='C14.cancel.%s' % rep, prop='C14', group='C14.cancel', prelude=PRE, wrappers=[wc1], inputs=[(ct, 'a'), (ct, 'b')], body=body,
                          contract='m(a) * (1/m)(b) collapses to the raw number a*b', functions_under_contract=('au::Quantity::operator*', 'au::make_quantity_unless_unitless')))
    # ---- raw number / unblock_int_div(quantity) with a numerator type NARROWER than the divisor's rep: the raw operator works in the common type
    inv = 'au::UnitInverseT<au::Seconds>'
    w1 = Wrapper('w_rawdiv_i32_i64', 'int64_t', [('int32_t', 'x'), ('int64_t', 'q')], 'return (x / au::unblock_int_div(au::make_quantity<au::Seconds>(q))).in(%s{});' % inv)
    w2 = Wrapper('w_rawdiv_u8_i32', 'int32_t', [('uint8_t', 'x'), ('int32_t', 'q')], 'return (x / au::unblock_int_div(au::make_quantity<au::Seconds>(q))).in(%s{});' % inv)
    body = '''
  if (q != 0) CHECK(w_rawdiv_i32_i64(x, q) == (int64_t)x / q, "int32-over-int64-quantity-divides-in-int64");
'''
    obs.append(Ob(id='C14.rawdiv-mixed.i32_i64', prop='C14', group='C14.rawdiv', prelude=PRE, wrappers=[w1], inputs=[('int32_t', 'x'), ('int64_t', 'q')], body=body,
                  contract='forall x:int32, q:int64 != 0: (x / unblock_int_div(seconds(q))).in(1/s) == (int64)x / q  (raw operator in the common type; unblock_int_div is a no-op on the value)',
                  functions_under_contract=('au::operator/(T, AlwaysDivisibleQuantity)', 'au::unblock_int_div')))
    body = '''
  if (q != 0) CHECK(w_rawdiv_u8_i32(x, q) == (int32_t)x / q, "uint8-over-int32-quantity-divides-in-int");
'''
    obs.append(Ob(id='C14.rawdiv-mixed.u8_i32', prop='C14', group='C14.rawdiv', prelude=PRE, wrappers=[w2], inputs=[('uint8_t', 'x'), ('int32_t', 'q')], body=body,
                  contract='forall x:uint8, q:int32 != 0: (x / unblock_int_div(seconds(q))).in(1/s) == (int)x / q', functions_under_contract=('au::operator/(T, AlwaysDivisibleQuantity)',)))
    w3 = Wrapper('w_rawdiv_int_f64', 'double', [('int32_t', 'x'), ('double', 'q')], 'return (x / au::unblock_int_div(au::make_quantity<au::Seconds>(q))).in(%s{});' % inv)
    body = '''
  ASSUME(x >= 0 && x <= 127 && m >= 1 && m <= 64);
  double q = (double)m + 0.5;
  CHECK(vf_f64_bits(w_rawdiv_int_f64(x, q)) == vf_f64_bits((double)x / q), "int-over-double-quantity-divides-in-double");
'''
    body3 = '''
  CHECK(vf_f64_bits(w_rawdiv_int_f64(x, q)) == vf_f64_bits(LL2C_FDIV64((double)x, q)), "int-over-double-quantity-divides-in-double");
'''
    obs.append(Ob(id='C14.rawdiv-mixed.int_f64', prop='C14', group='C14.rawdiv', prelude=PRE, wrappers=[w3], inputs=[('int32_t', 'x'), ('double', 'q')], body=body3, fp=True,
                  defs=('LL2C_UF_FP=1',), contract='forall x:int32, q:double (every bit pattern): (x / unblock_int_div(seconds(q))).in(1/s) is (double)x / q (structural: / uninterpreted on both sides)',
                  functions_under_contract=('au::operator/(T, AlwaysDivisibleQuantity)',)))
    obs.append(Ob(id='C14.rawdiv-mixed.family.int_f64', prop='C14', group='C14.rawdiv', prelude=PRE, wrappers=[w3], inputs=[('int32_t', 'x'), ('uint8_t', 'm')], body=body, fp=True,
                  bounded=True, contract='restricted family x in [0,127], q = m + 0.5 for m in [1,64]: (x / unblock_int_div(seconds(q))).in(1/s) == (double)x / q bit for bit',
                  functions_under_contract=('au::operator/(T, AlwaysDivisibleQuantity)',)))
    # ---- supporting static facts: the result UNIT / collapse to a raw number, as types (compile-time half of C14)
    RU = '#include <type_traits>\n#include "au/au.hh"\n#include "au/units/meters.hh"\n#include "au/units/seconds.hh"\n#include "au/units/hertz.hh"\n#include "au/units/feet.hh"\n#include "au/units/percent.hh"\nusing namespace au;\ntemplate <class T> struct IsQ : std::false_type {};\ntemplate <class U, class R> struct IsQ<Quantity<U, R>> : std::true_type {};\n#define VF_STATIC_FACT(c) static_assert(c, "VF_STATIC_FACT")\ntemplate <class Q, class U> constexpr bool unit_is() { return AreUnitsQuantityEquivalent<typename Q::Unit, U>::value && std::is_same<detail::DimT<typename Q::Unit>, detail::DimT<U>>::value; }\nint main(){\n  VF_STATIC_FACT((std::is_same<decltype(hertz(2) * seconds(3)), int>::value));                      // units cancel exactly: raw number\n  VF_STATIC_FACT((std::is_same<decltype(seconds(3.0) * hertz(2)), double>::value));\n  VF_STATIC_FACT((IsQ<decltype(hertz(2) * milli(seconds)(3))>::value));                             // Hz x ms does NOT cancel (magnitude 1/1000)\n  VF_STATIC_FACT((unit_is<decltype(hertz(2) * milli(seconds)(3)), decltype(Hertz{} * Milli<Seconds>{})>()));\n  VF_STATIC_FACT((std::is_same<decltype(meters(6) / meters(3)), int>::value));                         // same unit: raw number\n  VF_STATIC_FACT((IsQ<decltype(meters(6.0) / feet(3.0))>::value));                                   // same dimension, different magnitude: stays a quantity\n  VF_STATIC_FACT((unit_is<decltype(meters(2) * seconds(3)), decltype(Meters{} * Seconds{})>()));\n  VF_STATIC_FACT((unit_is<decltype(meters(2.0) / seconds(4.0)), decltype(Meters{} / Seconds{})>()));\n  VF_STATIC_FACT((unit_is<decltype(int_pow<3>(meters(2))), UnitPowerT<Meters, 3>>()));\n  VF_STATIC_FACT((unit_is<decltype(int_pow<-2>(meters(2.0))), UnitPowerT<Meters, -2>>()));\n  VF_STATIC_FACT((unit_is<decltype(sqrt(squared(meters)(4.0))), Meters>()));\n  VF_STATIC_FACT((unit_is<decltype(cbrt(cubed(meters)(8.0))), Meters>()));\n  VF_STATIC_FACT((unit_is<decltype(1.0 / seconds(4.0)), UnitInverseT<Seconds>>()));\n  VF_STATIC_FACT((unit_is<decltype(sqrt(meters(4.0))), UnitPowerT<Meters, 1, 2>>()));\n  VF_STATIC_FACT((std::is_same<decltype(as_raw_number(hertz(2) * milli(seconds)(3000.0))), double>::value));\n  VF_STATIC_FACT((std::is_same<decltype(as_raw_number(percent(50.0))), double>::value));\n}\n'
    obs.append(Ob(id='C14.static.result-units', prop='C14', group='C14.static', prelude='', wrappers=[], inputs=[], kind='S', body=RU,
                  contract='static facts: Hz x s and m / m collapse to the raw number type, Hz x ms and m / ft stay quantities; products, quotients, int_pow, sqrt, cbrt, 1/q carry the product / '
                           'quotient / power of the units; as_raw_number of a dimensionless quantity yields the rep', functions_under_contract=('au::Quantity operators, int_pow, sqrt, cbrt, as_raw_number (result types)',)))
    AR = ('#include <type_traits>\n#include <utility>\n#include "au/au.hh"\n#include "au/units/meters.hh"\n#include "au/units/seconds.hh"\n#include "au/units/percent.hh"\nusing namespace au;\n'
          '#define VF_STATIC_FACT(c) static_assert(c, "VF_STATIC_FACT")\n'
          '/* a DIMENSIONED quantity still selects the Quantity overload of as_raw_number (whose body rejects it with a static_assert): its declared result is the rep, */\n'
          '/* never the quantity itself handed back by the identity overload for raw numbers */\n'
          'VF_STATIC_FACT((std::is_same<decltype(as_raw_number(std::declval<Quantity<Meters, int>>())), int>::value));\n'
          'VF_STATIC_FACT((std::is_same<decltype(as_raw_number(std::declval<Quantity<UnitQuotientT<Meters, Seconds>, double>>())), double>::value));\n'
          'VF_STATIC_FACT((std::is_same<decltype(as_raw_number(std::declval<Quantity<Percent, float>>())), float>::value));\n'
          'VF_STATIC_FACT((std::is_same<decltype(as_raw_number(3)), int>::value));\nint main() {}\n')
    obs.append(Ob(id='C14.static.as-raw-number-overload', prop='C14', group='C14.static', prelude='', wrappers=[], inputs=[], kind='S', body=AR,
                  contract='static facts: as_raw_number applied to a quantity (dimensionless or not) resolves to the Quantity overload, whose result type is the rep and whose body rejects dimensioned '
                           'units; a raw number goes through the identity overload', functions_under_contract=('au::as_raw_number (overload resolution, compile-time)',)))
    UB = ('#include <type_traits>\n#include "au/au.hh"\n#include "au/units/meters.hh"\n#include "au/units/hertz.hh"\n#include "au/units/seconds.hh"\nusing namespace au;\n'
          '#define VF_STATIC_FACT(c) static_assert(c, "VF_STATIC_FACT")\n'
          'VF_STATIC_FACT((std::is_same<decltype(meters(6) / unblock_int_div(meters(3))), int>::value));\n'
          'VF_STATIC_FACT((std::is_same<decltype(hertz(6) / unblock_int_div(1 / unblock_int_div(seconds(3)))), int>::value));\nint main() {}\n')
    obs.append(Ob(id='C14.static.unblocked-division-collapses', prop='C14', group='C14.static', prelude='', wrappers=[], inputs=[], kind='S', body=UB,
                  contract='static facts: q1 / unblock_int_div(q2) collapses to a raw number when the units cancel, exactly as q1 / q2 does',
                  functions_under_contract=('au::operator/(Quantity, AlwaysDivisibleQuantity)',)))
    # ---- negative compile probes: programs the property says are REJECTED must be rejected by the library's own guard (supporting static facts, decided by the compilers)
    NHDR = '#include "au/au.hh"\n#include "au/units/feet.hh"\n#include "au/units/inches.hh"\n#include "au/units/meters.hh"\n#include "au/units/seconds.hh"\n#include "au/units/hertz.hh"\n#include "au/units/percent.hh"\n#include "au/units/celsius.hh"\n#include "au/units/kelvins.hh"\nusing namespace au;\n'
    for (nm_, expr_, rx_) in [('int-div-same-dimension', 'feet(10) / inches(3)', 'Integer division forbidden'), ('int-div-same-dimension-rev', 'inches(10) / feet(3)', 'Integer division forbidden'), ('int-div-raw-by-percent', '10 / percent(3)', 'Integer division forbidden'), ('int-div-different-dimension', 'meters(10) / seconds(3)', 'Integer division forbidden'), ('int-div-raw-by-quantity', '10 / seconds(3)', 'Integer division forbidden'), ('as-raw-number-dimensioned', 'as_raw_number(meters(3))', 'same-dimension units'), ('as-raw-number-dimensioned-fp', 'as_raw_number(meters(3.0) / seconds(2.0))', 'same-dimension units')]:
        obs.append(Ob(id='C14.static.rejects.' + nm_, prop='C14', group='C14.static', prelude='', wrappers=[], inputs=[], kind='S',
                      body=NHDR + 'int main() { auto vf_x = ' + expr_ + '; (void)vf_x; }\n', dfcc=dict(expect='reject', match=rx_),
                      contract='must not compile: `' + expr_ + '` (integer division of non-equivalent units needs unblock_int_div; as_raw_number accepts only dimensionless quantities; diagnostic /' + rx_ + '/)',
                      functions_under_contract=('compile-time guard',)))
    return obs
