"""C16 -- constants convert exactly or not at all (value half).  DESIGN.md section 5."""
from core import Ob, Wrapper
import grid as G

ASSUMPTIONS = ['"available exactly when representable" (can_store_value_in, static_assert in as/in, SFINAE of the implicit conversion) is compile-time: only its positive instances '
               'are exercised here (a conversion of the grid that stops compiling makes the run undecided, not a violation)',
               'constants of the grid: SPEED_OF_LIGHT, STANDARD_GRAVITY, and generated constants make_constant(Meters * mag<N>() / mag<D>())']

PRE = '#include "au/constant.hh"\n#include "au/constants/speed_of_light.hh"\n#include "au/constants/standard_gravity.hh"\n#include "au/units/meters.hh"\n#include "au/units/seconds.hh"'
CONSTS = [('c', 'au::SPEED_OF_LIGHT'), ('g0', 'au::STANDARD_GRAVITY'), ('k7_3', 'au::make_constant(au::Meters{} * au::mag<7>() / au::mag<3>())')]


def obligations(tier, seed):
    obs = []
    for rep in ((G.INT_REPS + ['f32', 'f64']) if tier == 'thorough' else ('i32', 'i64', 'u16', 'f32', 'f64')):
        ct = G.ctype(rep); fp = G.is_fp(rep)
        bits = {'f32': 'vf_f32_bits', 'f64': 'vf_f64_bits'}.get(rep)
        same = (lambda r: '%s(%s) == %s(x)' % (bits, r, bits)) if fp else (lambda r: '%s == x' % r)
        for (cn, cexpr) in (CONSTS if tier == 'thorough' or rep in ('i32', 'f64') else CONSTS[:1]):
            tag = '%s_%s' % (rep, cn)
            stored = lambda e: 'auto q = %s; return q.in(decltype(q)::unit);' % e
            ws = [Wrapper('w_xC_' + tag, ct, [(ct, 'x')], stored('x * %s' % cexpr)),
                  Wrapper('w_Cx_' + tag, ct, [(ct, 'x')], stored('%s * x' % cexpr)),
                  Wrapper('w_xdivC_' + tag, ct, [(ct, 'x')], stored('x / %s' % cexpr)),
                  Wrapper('w_qC_' + tag, ct, [(ct, 'x')], stored('au::make_quantity<au::Seconds>(x) * %s' % cexpr)),
                  Wrapper('w_Cq_' + tag, ct, [(ct, 'x')], stored('%s * au::make_quantity<au::Seconds>(x)' % cexpr)),
                  Wrapper('w_qdivC_' + tag, ct, [(ct, 'x')], stored('au::make_quantity<au::Seconds>(x) / %s' % cexpr))]
            names = ['number-times-constant', 'constant-times-number', 'number-over-constant', 'quantity-times-constant', 'constant-times-quantity', 'quantity-over-constant']
            body = '\n' + '\n'.join('  CHECK(%s, "%s-keeps-the-stored-number");' % (same('%s(x)' % w.name), n) for w, n in zip(ws, names)) + '\n'
            obs.append(Ob(id='C16.stored.%s' % tag, prop='C16', group='C16.%s' % rep, prelude=PRE, wrappers=ws, inputs=[(ct, 'x')], body=body, fp=fp,
                          contract='forall x:%s (every bit pattern): x*C, C*x, x/C, q*C, C*q, q/C store exactly x (only the unit changes), C = %s' % (ct, cexpr),
                          functions_under_contract=('au::detail::MakesQuantityFromNumber / ScalesQuantity operators of Constant',)))
    # exact values
    vals = [('c_mps_i32', 'au::SPEED_OF_LIGHT.as<int32_t>(au::meters / au::second).in(au::meters / au::second)', 'int32_t', 299792458),
            ('c_mps_i64_in', 'au::SPEED_OF_LIGHT.in<int64_t>(au::meters / au::second)', 'int64_t', 299792458),
            ('c_mmps_i64', 'au::SPEED_OF_LIGHT.in<int64_t>(au::milli(au::meters) / au::second)', 'int64_t', 299792458000),
            ('c_kmps_implicit', 'au::Quantity<decltype(au::Meters{} / au::Seconds{}), int64_t> q = au::SPEED_OF_LIGHT; return q.in(au::meters / au::second);', 'int64_t', 299792458),
            ('g0_ums2_i32', 'au::STANDARD_GRAVITY.in<int32_t>(au::micro(au::meters) / au::squared(au::second))', 'int32_t', 9806650),
            ('k7_3_third_i16', 'au::make_constant(au::Meters{} * au::mag<7>() / au::mag<3>()).in<int16_t>(au::meters / au::mag<3>())', 'int16_t', 7),
            ('k_big_u64', 'au::make_constant(au::Meters{} * au::mag<18446744073709551615ULL>()).in<uint64_t>(au::meters)', 'uint64_t', 18446744073709551615),
            ('can_store_yes', '(int)au::SPEED_OF_LIGHT.can_store_value_in<int32_t>(au::meters / au::second)', 'int32_t', 1),
            ('can_store_no_i16', '(int)au::SPEED_OF_LIGHT.can_store_value_in<int16_t>(au::meters / au::second)', 'int32_t', 0),
            ('can_store_no_frac', '(int)au::SPEED_OF_LIGHT.can_store_value_in<int64_t>(au::kilo(au::meters) / au::second)', 'int32_t', 0),
            ('can_store_edge_u8', '(int)au::make_constant(au::Meters{} * au::mag<255>()).can_store_value_in<uint8_t>(au::meters)', 'int32_t', 1),
            ('can_store_edge_u8_no', '(int)au::make_constant(au::Meters{} * au::mag<256>()).can_store_value_in<uint8_t>(au::meters)', 'int32_t', 0),
            ('can_store_edge_i8_no', '(int)au::make_constant(au::Meters{} * au::mag<128>()).can_store_value_in<int8_t>(au::meters)', 'int32_t', 0)]
    ws = []; checks = []
    for (nm, expr, ty, v) in vals:
        w = Wrapper('w_cv_' + nm, ty, [], expr if expr.rstrip().endswith(';') else 'return %s;' % expr)
        ws.append(w)
        checks.append('  CHECK((i128)%s() == %s, "%s");' % (w.name, G.lit(v), nm))
    obs.append(Ob(id='C16.values', prop='C16', group='C16.values', prelude=PRE, wrappers=ws, inputs=[], body='\n' + '\n'.join(checks) + '\n',
                  contract='C.as<T>(u) / C.in<T>(u) / implicit Quantity conversion return the independently computed exact value; can_store_value_in answers the representability '
                           'question on the listed boundary instances (constants, no inputs)', functions_under_contract=('au::Constant::as/in/operator Quantity/can_store_value_in',)))
    # ---- supporting static facts (one probe TU each, so that a hard error is attributed to its instance): availability exactly when representable
    HDR = '#include "au/constant.hh"\n#include "au/prefix.hh"\n#include "au/constants/speed_of_light.hh"\n#include "au/units/meters.hh"\n#include "au/units/seconds.hh"\n#define VF_STATIC_FACT(c) static_assert(c, "VF_STATIC_FACT")\n'
    probes = []
    for (T, mx) in (('int8_t', 127), ('uint8_t', 255), ('int16_t', 32767), ('uint16_t', 65535), ('int32_t', 2147483647), ('uint32_t', 4294967295),
                    ('int64_t', 9223372036854775807), ('uint64_t', 18446744073709551615)):
        C = 'au::make_constant(au::Meters{} * au::mag<%dULL>())' % mx
        probes.append(('max_%s' % T, 'VF_STATIC_FACT(%s.can_store_value_in<%s>(au::meters));\nVF_STATIC_FACT(%s.in<%s>(au::meters) == %s);\nVF_STATIC_FACT(%s.as<%s>(au::meters).in(au::meters) == %s);'
                       % (C, T, C, T, '%dULL' % mx if mx > (1 << 62) else '%dLL' % mx, C, T, '%dULL' % mx if mx > (1 << 62) else '%dLL' % mx)))
        if mx + 1 < (1 << 64):
            C1 = 'au::make_constant(au::Meters{} * au::mag<%dULL>())' % (mx + 1)
            probes.append(('max1_%s' % T, 'VF_STATIC_FACT(!%s.can_store_value_in<%s>(au::meters));' % (C1, T)))
    for (T, pr) in (('uint8_t', 257), ('int8_t', 131), ('uint16_t', 65537), ('int16_t', 32771), ('int32_t', 2147483659)):
        probes.append(('prime_above_%s' % T, 'VF_STATIC_FACT(!au::make_constant(au::Meters{} * au::mag<%dULL>()).can_store_value_in<%s>(au::meters));' % (pr, T)))
    probes.append(('c_i32', 'VF_STATIC_FACT(au::SPEED_OF_LIGHT.can_store_value_in<int32_t>(au::meters / au::second));\nVF_STATIC_FACT(au::SPEED_OF_LIGHT.in<int32_t>(au::meters / au::second) == 299792458);'))
    probes.append(('c_i16_no', 'VF_STATIC_FACT(!au::SPEED_OF_LIGHT.can_store_value_in<int16_t>(au::meters / au::second));'))
    probes.append(('c_km_no', 'VF_STATIC_FACT(!au::SPEED_OF_LIGHT.can_store_value_in<int64_t>(au::kilo(au::meters) / au::second));'))
    probes.append(('c_km_f64', 'VF_STATIC_FACT(au::SPEED_OF_LIGHT.can_store_value_in<double>(au::kilo(au::meters) / au::second));'))
    # floating targets: a ratio below the smallest NORMAL value but exactly representable as a subnormal is available; the largest finite value is; one binade above is not
    probes.append(('subnormal_f32', 'VF_STATIC_FACT(au::make_constant(au::Meters{} * au::mag<3>() * au::pow<-130>(au::mag<2>())).can_store_value_in<float>(au::meters));\n'
                                    'VF_STATIC_FACT(au::make_constant(au::Meters{} * au::mag<3>() * au::pow<-130>(au::mag<2>())).in<float>(au::meters) == (3.0f * std::numeric_limits<float>::min()) / 16.0f);'))
    probes.append(('subnormal_f64', 'VF_STATIC_FACT(au::make_constant(au::Meters{} * au::mag<3>() * au::pow<-1030>(au::mag<2>())).can_store_value_in<double>(au::meters));\n'
                                    'VF_STATIC_FACT(au::make_constant(au::Meters{} * au::mag<3>() * au::pow<-1030>(au::mag<2>())).in<double>(au::meters) == (3.0 * std::numeric_limits<double>::min()) / 256.0);'))
    probes.append(('binade_f32', 'VF_STATIC_FACT(au::make_constant(au::Meters{} * au::pow<127>(au::mag<2>())).can_store_value_in<float>(au::meters));\n'
                                 'VF_STATIC_FACT(!au::make_constant(au::Meters{} * au::pow<128>(au::mag<2>())).can_store_value_in<float>(au::meters));'))
    # "changes only the unit": the result UNIT (and rep) of number / quantity / magnitude / maker / constant combined with a constant, as types
    RU = '#include <type_traits>\n#include "au/au.hh"\n#include "au/constants/speed_of_light.hh"\n#include "au/units/meters.hh"\n#include "au/units/seconds.hh"\nusing namespace au;\nusing Uc = detail::SpeedOfLightUnit;\ntemplate <class Q> using UnitOf = typename Q::Unit;\n#define SAMEU(Q, U) static_assert(AreUnitsQuantityEquivalent<UnitOf<Q>, U>::value && std::is_same<detail::DimT<UnitOf<Q>>, detail::DimT<U>>::value, "unit")\nint main(){\n  constexpr auto c = SPEED_OF_LIGHT;\n  SAMEU(decltype(3 * c), Uc); SAMEU(decltype(c * 3), Uc); SAMEU(decltype(3.0 / c), UnitInverseT<Uc>); SAMEU(decltype(c / 3), Uc);\n  SAMEU(decltype(seconds(2) * c), decltype(Seconds{} * Uc{})); SAMEU(decltype(c * seconds(2)), decltype(Seconds{} * Uc{}));\n  SAMEU(decltype(seconds(2.0) / c), decltype(Seconds{} / Uc{})); SAMEU(decltype(c / seconds(2.0)), decltype(Uc{} / Seconds{}));\n  static_assert(std::is_same<decltype(3 * c)::Rep, int>::value && std::is_same<decltype(c * 2.5f)::Rep, float>::value, "rep");\n  static_assert(std::is_same<decltype(c * c), Constant<decltype(Uc{} * Uc{})>>::value, "c*c");\n  static_assert(std::is_same<decltype(c / c), Constant<decltype(Uc{} / Uc{})>>::value, "c/c");\n  static_assert(AreUnitsQuantityEquivalent<AssociatedUnitT<decltype(c * mag<3>())>, decltype(Uc{} * mag<3>())>::value, "c*mag");\n  static_assert(AreUnitsQuantityEquivalent<AssociatedUnitT<decltype(c * meters)>, decltype(Uc{} * Meters{})>::value, "c*maker");\n  static_assert(AreUnitsQuantityEquivalent<AssociatedUnitT<decltype(meters / c)>, decltype(Meters{} / Uc{})>::value, "maker/c");\n}\n'
    obs.append(Ob(id='C16.static.result-units', prop='C16', group='C16.static', prelude='', wrappers=[], inputs=[], kind='S', body=RU,
                  contract='static facts: x*C, C*x, x/C, C/x, q*C, C*q, q/C, C/q carry the product / quotient of the units (and the rep of the number); C*C, C/C are Constants of the '
                           'squared / cancelled unit; C*mag, C*maker, maker/C scale or combine the unit (C = SPEED_OF_LIGHT)', functions_under_contract=('au::Constant operators (result types, compile-time)',)))
    # multiplying / dividing a constant by the magnitude ONE (or by a ratio that cancels) changes nothing at all - not the unit, not the value
    RU1 = '#include <type_traits>\n#include "au/au.hh"\n#include "au/units/meters.hh"\n#include "au/units/seconds.hh"\nusing namespace au;\n#define VF_STATIC_FACT(c) static_assert(c, "VF_STATIC_FACT")\nconstexpr auto c = make_constant(meters / second * mag<299792458>());\nusing Uc = AssociatedUnitT<std::decay_t<decltype(c)>>;\nVF_STATIC_FACT((AreUnitsQuantityEquivalent<AssociatedUnitT<decltype(c * mag<1>())>, Uc>::value));\nVF_STATIC_FACT((AreUnitsQuantityEquivalent<AssociatedUnitT<decltype(mag<1>() * c)>, Uc>::value));\nVF_STATIC_FACT((AreUnitsQuantityEquivalent<AssociatedUnitT<decltype(c / (mag<3>() / mag<3>()))>, Uc>::value));\nVF_STATIC_FACT(((c * mag<1>()).in<int64_t>(meters / second) == 299792458));\nVF_STATIC_FACT((!(c * mag<1>()).can_store_value_in<int16_t>(meters / second)));\nVF_STATIC_FACT(((c * mag<2>() / mag<2>()).in<int64_t>(meters / second) == 299792458));\nVF_STATIC_FACT((AreUnitsQuantityEquivalent<AssociatedUnitT<decltype(c * ONE)>, Uc>::value));\nint main(){}\n'
    obs.append(Ob(id='C16.static.times-one', prop='C16', group='C16.static', prelude='', wrappers=[], inputs=[], kind='S', body=RU1,
                  contract='static facts: c * mag<1>(), mag<1>() * c, c / (mag<3>() / mag<3>()), c * ONE keep the unit of c = make_constant(m/s * mag<299792458>()) and its value in m/s; '
                           'c * mag<2>() / mag<2>() has the same value', functions_under_contract=('au::Constant operators with Magnitude<> (compile-time)',)))
    # every 64-bit integer TYPE, not only the <cstdint> aliases (unsigned long long and unsigned long are distinct types of the same width)
    for (nm, T, lit_, over) in (('ull', 'unsigned long long', '18446744073709551615ULL', None), ('ull_2_63', 'unsigned long long', '9223372036854775808ULL', None), ('ul', 'unsigned long', '18446744073709551615ULL', None),
                                ('ll', 'long long', '9223372036854775807ULL', '9223372036854775808ULL'), ('l', 'long', '9223372036854775807ULL', '9223372036854775808ULL')):
        C = 'au::make_constant(au::Meters{} * au::mag<%s>())' % lit_
        txt = 'VF_STATIC_FACT(%s.can_store_value_in<%s>(au::meters));\nVF_STATIC_FACT(%s.in<%s>(au::meters) == static_cast<%s>(%s));' % (C, T, C, T, T, lit_)
        if over: txt += '\nVF_STATIC_FACT(!au::make_constant(au::Meters{} * au::mag<%s>()).can_store_value_in<%s>(au::meters));' % (over, T)
        probes.append(('wide_type_%s' % nm, txt))
    sel = probes if tier == 'thorough' else probes[:-17][::2] + probes[-17:]
    for (nm, text) in sel:
        obs.append(Ob(id='C16.static.%s' % nm, prop='C16', group='C16.static', prelude='', wrappers=[], inputs=[], body=HDR + text + '\nint main() {}\n', kind='S',
                      contract='static fact: ' + text.replace('\n', ' '), functions_under_contract=('au::Constant::can_store_value_in / as / in (compile-time)',)))
    return obs
