"""C03 -- checker-cleared integer conversions are exact and UB-free (incl. no unsigned wrap).  DESIGN.md section 5."""
from core import Ob, Wrapper
import grid as G
from props import C04

ASSUMPTIONS = ["the checker is executed under wrap-around semantics while it decides (UB inside the checker itself is C05/C04's "
               "business and is checked there as a separate obligation); the cleared conversion is checked with every UB:* and WRAP:* assertion on"]


def obligations(tier, seed):
    obs = []
    insts = C04.instances(tier, seed)
    for k, (rep, N, D) in enumerate(insts):
        ct = G.ctype(rep)
        pre, ws, tag = C04.wrappers(rep, N, D)
        W = G.W_of(rep)
        exact = '((%s)r * %s == (%s)x * %s)' % (W, G.wlit(rep, D), W, G.wlit(rep, N))
        convs = [('coerce_in', ws['conv']), ('coerce_as', ws['conv_as'])]
        if D == 1 and 2147 * N <= G.tmax(rep):
            mk = 'au::make_quantity<au::Meters>(x)'
            u2 = 'VU_m_%d_%d' % (N, D)
            convs.append(('in', Wrapper('w_in_' + tag, ct, [(ct, 'x')], 'return %s.in(%s{});' % (mk, u2))))
            convs.append(('as', Wrapper('w_as_' + tag, ct, [(ct, 'x')], 'return %s.as(%s{}).in(%s{});' % (mk, u2, u2))))
        for cname, w in convs:
            if tier == 'quick' and cname != 'coerce_in' and k % 5 != 0:
                continue
            body = '''
  UB_OFF();
  bool l = %s(x);
  UB_ON();
  ASSUME(!l);
  %s r = %s(x);
  CHECK(%s, "result-is-exactly-value-times-factor");
''' % (ws['lossy'].name, ct, w.name, exact)
            twin = None
            if k % 6 == 0:
                twin = body.replace(exact, '((%s)r * %s == (%s)x * %s || x == 0)' % (W, G.wlit(rep, D), W, G.wlit(rep, N + 1)))
                # x == 0 always satisfies !lossy, so the twin is vacuous only if 0 is the only cleared input; then it is no twin
                if not any_nonzero_cleared(rep, N, D): twin = None
            obs.append(Ob(id='C03.%s.%s' % (cname, tag), prop='C03', group='C03.%s' % rep, prelude=pre,
                          wrappers=[ws['lossy'], w], inputs=[(ct, 'x')], body=body, wrap=True, twin=twin,
                          contract='forall x:%s. !is_conversion_lossy(q,u) ==> q.%s(u) * %d == x * %d, and no UB:* / WRAP:unsigned-* '
                                   'assertion in the conversion closure fails' % (ct, cname, D, N),
                          functions_under_contract=('au::Quantity::%s' % cname, 'au::detail::ApplyMagnitudeImpl::operator()')))
        if k % 9 == 0 and N > 1:
            # sanity (must fail): without the checker's clearance the conversion is NOT safe/exact for every x
            w = ws['conv']
            body = '''
  %s r = %s(x);
  CHECK(%s, "result-is-exactly-value-times-factor");
''' % (ct, w.name, exact)
            obs.append(Ob(id='C03.mustfail-unguarded.%s' % tag, prop='C03', group='C03.%s' % rep, prelude=pre, wrappers=[w],
                          inputs=[(ct, 'x')], body=body, wrap=True, expect_fail=True,
                          contract='(must be refuted) forall x without precondition: conversion exact and UB-free'))
    # supporting static fact shared with C11: the conversion factor's numerator / denominator is evaluated in the rep through get_value<T>; a prime above 2^63 must be
    # unrepresentable in every signed rep (it would otherwise wrap to a small negative number and every contract above would be about the wrong factor)
    BP = ('#include "au/magnitude.hh"\n#include <cstdint>\n#define VF_STATIC_FACT(c) static_assert(c, "VF_STATIC_FACT")\n' +
          '\n'.join('VF_STATIC_FACT(!au::representable_in<' + t + '>(au::mag<18446744073709551557ULL>()));' for t in ('int8_t', 'int16_t', 'int32_t', 'int64_t')) +
          '\nVF_STATIC_FACT(au::representable_in<uint64_t>(au::mag<18446744073709551557ULL>()));\n'
          'VF_STATIC_FACT(!au::representable_in<int64_t>(au::mag<18446744073709551557ULL>() * au::mag<18446744073709551533ULL>()));\n'
          'VF_STATIC_FACT(!au::representable_in<int32_t>(au::mag<7>() / au::mag<18446744073709551557ULL>()));\nint main() {}\n')
    obs.append(Ob(id='C03.static.prime-above-2-63-in-signed-rep', prop='C03', group='C03.static', prelude='', wrappers=[], inputs=[], body=BP, kind='S',
                  contract='static facts: mag<2^64-59>() is not representable in any signed rep (and is in uint64_t): the factor of a conversion is never a wrapped prime',
                  functions_under_contract=('au::representable_in / get_value (compile-time)',)))
    # every 64-bit integer TYPE as rep (unsigned long long / long long are distinct from the <cstdint> aliases on LP64): the runtime checkers and the conversion agree with exact arithmetic at the boundary
    BW = '#include "au/au.hh"\n#include "au/units/meters.hh"\n#define VF_STATIC_FACT(c) static_assert(c, "VF_STATIC_FACT")\n'
    for (T_, ok_, bad_) in (('unsigned long long', '18446744073709551ULL', '18446744073709552ULL'), ('unsigned long', '18446744073709551ULL', '18446744073709552ULL'),
                            ('long long', '9223372036854775LL', '9223372036854776LL'), ('long', '9223372036854775LL', '9223372036854776LL')):
        BW += ('VF_STATIC_FACT(!au::will_conversion_overflow(au::meters(static_cast<%s>(%s)), au::milli(au::meters)));\n' % (T_, ok_) +
               'VF_STATIC_FACT(au::will_conversion_overflow(au::meters(static_cast<%s>(%s)), au::milli(au::meters)));\n' % (T_, bad_) +
               'VF_STATIC_FACT(au::meters(static_cast<%s>(%s)).in(au::milli(au::meters)) == static_cast<%s>(%s) * 1000);\n' % (T_, ok_, T_, ok_) +
               'VF_STATIC_FACT(!au::is_conversion_lossy(au::milli(au::meters)(static_cast<%s>(%s) * 1000), au::meters));\n' % (T_, ok_) +
               'VF_STATIC_FACT(au::will_conversion_truncate(au::milli(au::meters)(static_cast<%s>(%s) * 1000 + 1), au::meters));\n' % (T_, ok_))
    obs.append(Ob(id='C03.static.every-64-bit-integer-type', prop='C03', group='C03.static', prelude='', wrappers=[], inputs=[], body=BW + 'int main() {}\n', kind='S',
                  contract='static facts: for rep in {unsigned long long, unsigned long, long long, long} the x1000 conversion of the largest fitting value is exact and not flagged, the next value is flagged as overflow, and the inverse conversion is lossless / flagged as truncating exactly when a remainder exists',
                  functions_under_contract=('au::will_conversion_overflow', 'au::will_conversion_truncate', 'au::is_conversion_lossy', 'au::Quantity::in (compile-time)')))
    # ---- negative compile probes: programs the property says are REJECTED must be rejected by the library's own guard (supporting static facts, decided by the compilers)
    NHDR = '#include "au/au.hh"\n#include "au/units/feet.hh"\n#include "au/units/inches.hh"\n#include "au/units/meters.hh"\n#include "au/units/seconds.hh"\n#include "au/units/hertz.hh"\n#include "au/units/percent.hh"\n#include "au/units/celsius.hh"\n#include "au/units/kelvins.hh"\nusing namespace au;\n'
    for (nm_, expr_, rx_) in [('unit-only-in-unsafe-int', 'meters(1).in(kilo(meters))', 'Dangerous conversion'), ('unit-only-as-overflow-risk', 'meters(int16_t{1}).as(milli(meters))', 'Dangerous conversion')]:
        obs.append(Ob(id='C03.static.rejects.' + nm_, prop='C03', group='C03.static', prelude='', wrappers=[], inputs=[], kind='S',
                      body=NHDR + 'int main() { auto vf_x = ' + expr_ + '; (void)vf_x; }\n', dfcc=dict(expect='reject', match=rx_),
                      contract='must not compile: `' + expr_ + '` (unit-only .in/.as of an integral rep is refused when the policy does not permit the conversion; diagnostic /' + rx_ + '/)',
                      functions_under_contract=('compile-time guard',)))
    return obs


def any_nonzero_cleared(rep, N, D):
    # x = D (if it fits and D*N/D = N fits) is cleared and nonzero
    return D <= G.tmax(rep) and D * N <= G.tmax(G.REPS[rep]['P']) and N <= G.tmax(rep)
