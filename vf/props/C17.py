"""C17 -- std::chrono durations round-trip through quantities unchanged.  DESIGN.md section 5."""
from fractions import Fraction as Fr
from math import gcd
from core import Ob, Wrapper
import grid as G

ASSUMPTIONS = ['"accepted exactly when the corresponding quantity would be" is a compile-time fact and is not decided by a contract',
               "libstdc++'s <chrono> templates are lowered by the same pipeline; the chrono side of the relational contract is that lowered code",
               'the unit "seconds x Period" is checked through the value: as_quantity(d).in(Seconds * num / den) == d.count() (a wrong unit would rescale)']

PERIODS = {'nano': (1, 10 ** 9), 'micro': (1, 10 ** 6), 'milli': (1, 1000), 'sec': (1, 1), 'min': (60, 1), 'hour': (3600, 1), 'sixtieth': (1, 60),
           'ntsc': (1001, 30000), 'day': (86400, 1), 'pico': (1, 10 ** 12), 'tera': (10 ** 12, 1), 'odd33': (1, 5000000029)}


def dur(rep, p):
    n, d = PERIODS[p]
    return 'std::chrono::duration<%s, std::ratio<%d, %d>>' % (G.ctype(rep), n, d)


def unit(p):
    n, d = PERIODS[p]
    if (n, d) == (1, 1): return 'au::Seconds'
    return 'decltype(au::Seconds{} * au::mag<%d>() / au::mag<%d>())' % (n, d)


PRE = '#include <chrono>\n#include "au/chrono_interop.hh"\n#include "au/units/seconds.hh"'


def obligations(tier, seed):
    obs = []
    reps = ['i32', 'i64', 'f32', 'f64']
    ps = list(PERIODS) if tier == 'thorough' else ['nano', 'milli', 'sec', 'min', 'ntsc', 'day', 'pico', 'tera', 'odd33']
    for rep in reps:
        ct = G.ctype(rep); fp = G.is_fp(rep)
        bits = {'f32': 'vf_f32_bits', 'f64': 'vf_f64_bits'}.get(rep)
        same = (lambda r: '%s(%s) == %s(c)' % (bits, r, bits)) if fp else (lambda r: '%s == c' % r)
        for p in ps:
            if tier == 'quick' and rep in ('f32', 'i32') and p in ('nano', 'day', 'min'): continue
            D = dur(rep, p); U = unit(p)
            tag = '%s_%s' % (rep, p)
            w1 = Wrapper('w_asq_' + tag, ct, [(ct, 'c')], '%s d{c}; return au::as_quantity(d).in(%s{});' % (D, U))
            w2 = Wrapper('w_roundtrip_' + tag, ct, [(ct, 'c')], '%s d{c}; au::Quantity<%s, %s> q = d; %s d2 = q; return d2.count();' % (D, U, ct, D))
            w3 = Wrapper('w_aschrono_' + tag, ct, [(ct, 'c')], 'auto d = au::as_chrono_duration(au::make_quantity<%s>(c)); '
                         'static_assert(std::is_same<decltype(d), %s>::value, "period"); return d.count();' % (U, D))
            body = '''
  CHECK(%s, "as_quantity-has-the-duration-count-in-seconds-times-period");
  CHECK(%s, "quantity-converts-back-to-an-equal-duration");
  CHECK(%s, "as_chrono_duration-keeps-value-and-period");
''' % (same('%s(c)' % w1.name), same('%s(c)' % w2.name), same('%s(c)' % w3.name))
            obs.append(Ob(id='C17.roundtrip.%s' % tag, prop='C17', group='C17.%s' % tag, prelude=PRE, wrappers=[w1, w2, w3], inputs=[(ct, 'c')], body=body, fp=fp,
                          contract='forall count c:%s (every bit pattern): as_quantity(duration<%s,%d/%d>{c}).in(seconds*%d/%d) == c; implicit Quantity->duration->count == c; '
                                   'as_chrono_duration(q).count() == c with the same Period (static_assert in the lowered wrapper)' % ((ct, ct) + PERIODS[p] + PERIODS[p]),
                          functions_under_contract=('au::as_quantity', 'au::Quantity::operator T (CorrespondingQuantity)', 'au::as_chrono_duration',
                                                    'au::CorrespondingQuantity<std::chrono::duration>::extract_value/construct_from_value')))
    # supporting static facts, one probe per (rep, period): the unit of as_quantity(d) is quantity-equivalent to seconds x Period, the rep is d's rep,
    # and as_chrono_duration gives back the same Period (a wrong unit would otherwise only show up as a driver that no longer compiles)
    for p in ps:
        n_, d_ = PERIODS[p]
        for rep in ('i64', 'f64') if tier == 'quick' else reps:
            D = dur(rep, p); U = unit(p)
            src = '''#include <chrono>
#include <type_traits>
#include "au/chrono_interop.hh"
#include "au/units/seconds.hh"
#define VF_STATIC_FACT(c) static_assert(c, "VF_STATIC_FACT")
using D = %s;
using Q = decltype(au::as_quantity(D{}));
VF_STATIC_FACT((std::is_same<typename Q::Rep, %s>::value));
VF_STATIC_FACT((au::AreUnitsQuantityEquivalent<typename Q::Unit, %s>::value));
VF_STATIC_FACT((std::is_same<decltype(au::as_chrono_duration(au::make_quantity<%s>(%s{}))), D>::value));
VF_STATIC_FACT((std::is_convertible<D, au::Quantity<%s, %s>>::value));
int main() {}
''' % (D, G.ctype(rep), U, U, G.ctype(rep), U, G.ctype(rep))
            obs.append(Ob(id='C17.static.%s_%s' % (rep, p), prop='C17', group='C17.static', prelude='', wrappers=[], inputs=[], body=src, kind='S',
                          contract='static facts: as_quantity(duration<%s, %d/%d>) has rep %s and a unit quantity-equivalent to seconds*%d/%d; as_chrono_duration returns the same Period; '
                                   'the duration converts implicitly to that quantity type' % (G.ctype(rep), n_, d_, G.ctype(rep), n_, d_),
                          functions_under_contract=('au::CorrespondingQuantity<std::chrono::duration> (compile-time)',)))
    # supporting static facts: a duration is implicitly accepted by a quantity type exactly when the corresponding quantity (built here independently) would be
    acc = [('double', 'sec', 'au::Seconds', 'int32_t'), ('double', 'sec', 'au::Seconds', 'double'), ('int64_t', 'milli', 'au::Seconds', 'int64_t'), ('int64_t', 'sec', 'au::Milli<au::Seconds>', 'int64_t'),
           ('int32_t', 'hour', 'au::Seconds', 'int32_t'), ('float', 'milli', 'au::Seconds', 'float'), ('float', 'milli', 'au::Seconds', 'int64_t'), ('int32_t', 'sec', 'au::Seconds', 'double'),
           ('int64_t', 'nano', 'au::Milli<au::Seconds>', 'int64_t'), ('int16_t', 'min', 'au::Seconds', 'int16_t'), ('int32_t', 'min', 'au::Seconds', 'int16_t')]
    for i, (crep, p, tu, trep) in enumerate(acc if tier == 'thorough' else acc[:8]):
        n_, d_ = PERIODS[p]
        U = unit(p)
        src = '''#include <chrono>
#include <type_traits>
#include "au/chrono_interop.hh"
#include "au/units/seconds.hh"
#define VF_STATIC_FACT(c) static_assert(c, "VF_STATIC_FACT")
using D = std::chrono::duration<%s, std::ratio<%d, %d>>;
using QD = au::Quantity<%s, %s>;          // the corresponding quantity, spelled out independently of CorrespondingQuantity
using QT = au::Quantity<%s, %s>;
VF_STATIC_FACT((std::is_convertible<D, QT>::value) == (std::is_convertible<QD, QT>::value));
VF_STATIC_FACT((std::is_constructible<QT, D>::value) == (std::is_constructible<QT, QD>::value));
int main() {}
''' % (crep, n_, d_, U, crep, tu, trep)
        obs.append(Ob(id='C17.static.accept.%02d_%s_%s_to_%s' % (i, crep.replace('_t', ''), p, trep.replace('_t', '')), prop='C17', group='C17.static', prelude='', wrappers=[], inputs=[], body=src, kind='S',
                      contract='static fact: duration<%s, %d/%d> is implicitly convertible to / constructible into Quantity<%s, %s> exactly when Quantity<seconds*%d/%d, %s> is'
                               % (crep, n_, d_, tu, trep, n_, d_, crep), functions_under_contract=('au::Quantity::Quantity(T&&) [corresponding quantity] (compile-time)',)))
    # value category / cv-qualification of the duration must not matter: const, reference and rvalue durations are accepted exactly like plain ones
    CVH = '''#include <chrono>
#include <type_traits>
#include <utility>
#include "au/chrono_interop.hh"
#include "au/units/seconds.hh"
#define VF_STATIC_FACT(c) static_assert(c, "VF_STATIC_FACT")
using D = std::chrono::milliseconds;
using Q = au::Quantity<au::Milli<au::Seconds>, D::rep>;
VF_STATIC_FACT((std::is_convertible<D, Q>::value && std::is_convertible<const D, Q>::value && std::is_convertible<D &, Q>::value && std::is_convertible<const D &, Q>::value && std::is_convertible<D &&, Q>::value && std::is_convertible<const D &&, Q>::value));
VF_STATIC_FACT((std::is_same<au::CorrespondingQuantityT<const D>, au::CorrespondingQuantityT<D>>::value));
VF_STATIC_FACT((std::is_same<decltype(au::as_quantity(std::declval<D>())), Q>::value && std::is_same<decltype(au::as_quantity(std::declval<const D>())), Q>::value));
VF_STATIC_FACT((std::is_same<decltype(au::as_quantity(std::declval<const D &>())), Q>::value && std::is_same<decltype(au::as_quantity(std::declval<D &>())), Q>::value));
VF_STATIC_FACT((std::is_same<decltype(std::declval<const D>() + std::declval<Q>()), decltype(std::declval<D>() + std::declval<Q>())>::value));
VF_STATIC_FACT((std::is_same<decltype(std::declval<Q>() < std::declval<const D>()), bool>::value));
int main() {}
'''
    obs.append(Ob(id='C17.static.cv-and-value-category', prop='C17', group='C17.static', prelude='', wrappers=[], inputs=[], body=CVH, kind='S',
                  contract='static facts: D, const D, D&, const D&, D&&, const D&& (D = std::chrono::milliseconds) all convert implicitly to the corresponding quantity; as_quantity and the mixed '
                           'operators accept const rvalues', functions_under_contract=('au::CorrespondingQuantity<const T> / as_quantity (compile-time)',)))
    # mixed duration / quantity operations agree with chrono itself
    mixed = [('i64', 'milli', 'sec'), ('i64', 'nano', 'milli'), ('i64', 'pico', 'nano'), ('i32', 'milli', 'sec'), ('i64', 'sec', 'hour'), ('i64', 'ntsc', 'milli'), ('i32', 'sec', 'min')]
    if tier == 'thorough': mixed += [('i64', 'micro', 'min'), ('i64', 'sixtieth', 'ntsc'), ('i32', 'min', 'hour'), ('i64', 'day', 'sec')]
    for (rep, p1, p2) in mixed:
        ct = G.ctype(rep)
        r1, r2 = Fr(*PERIODS[p1]), Fr(*PERIODS[p2])
        g = Fr(gcd(r1.numerator * r2.denominator, r2.numerator * r1.denominator), r1.denominator * r2.denominator)
        k1, k2 = int(r1 / g), int(r2 / g)
        tag = '%s_%s_%s' % (rep, p1, p2)
        D1, D2, U2 = dur(rep, p1), dur(rep, p2), unit(p2)
        W = G.W_for(rep)
        A = '((%s)a * %s)' % (W, G.lit_w(W, k1)); B = '((%s)b * %s)' % (W, G.lit_w(W, k2))
        fits = lambda e: '(%s >= %s && %s <= %s)' % (e, G.lit_w(W, G.tmin(rep)), e, G.lit_w(W, G.tmax(rep)))
        ops = [('eq', '=='), ('ne', '!='), ('lt', '<'), ('le', '<='), ('gt', '>'), ('ge', '>=')]
        for n, op in ops:
            wa = Wrapper('w_au_%s_%s' % (n, tag), 'bool', [(ct, 'a'), (ct, 'b')], 'return %s{a} %s au::make_quantity<%s>(b);' % (D1, op, U2))
            wr = Wrapper('w_aur_%s_%s' % (n, tag), 'bool', [(ct, 'a'), (ct, 'b')], 'return au::make_quantity<%s>(b) %s %s{a};' % (U2, op, D1))
            wc = Wrapper('w_chrono_%s_%s' % (n, tag), 'bool', [(ct, 'a'), (ct, 'b')], 'return %s{a} %s %s{b};' % (D1, op, D2))
            wcr = Wrapper('w_chronor_%s_%s' % (n, tag), 'bool', [(ct, 'a'), (ct, 'b')], 'return %s{b} %s %s{a};' % (D2, op, D1))
            checks = ['  CHECK(%s(a, b) == %s(a, b), "duration-%s-quantity-agrees-with-chrono");' % (wa.name, wc.name, n),
                      '  CHECK(%s(a, b) == %s(a, b), "quantity-%s-duration-agrees-with-chrono");' % (wr.name, wcr.name, n),
                      '  CHECK(%s(a, b) == (%s %s %s), "duration-%s-quantity-is-the-exact-order");' % (wa.name, A, op, B, n),
                      '  CHECK(%s(a, b) == (%s %s %s), "quantity-%s-duration-is-the-exact-order");' % (wr.name, B, op, A, n)]
            body = '\n  ASSUME(%s && %s);\n%s\n' % (fits(A), fits(B), '\n'.join(checks))
            obs.append(Ob(id='C17.mixed-cmp.%s.%s' % (n, tag), prop='C17', group='C17.mixed.%s' % tag, prelude=PRE, wrappers=[wa, wr, wc, wcr], inputs=[(ct, 'a'), (ct, 'b')], body=body,
                          contract='forall a,b with a*%d, b*%d in range(%s) [chrono\'s own common-type products do not overflow]: duration<%s>{a} %s quantity(b, %s), and the mirrored '
                                   'quantity %s duration, equal the same comparison done inside chrono and the exact order of a*%d vs b*%d' % (k1, k2, ct, p1, op, p2, op, k1, k2),
                          functions_under_contract=('au::operator%s(QLike, Quantity)' % op, 'au::operator%s(Quantity, QLike)' % op, 'au::as_quantity')))
        wsum = Wrapper('w_au_sum_' + tag, ct, [(ct, 'a'), (ct, 'b')], 'auto s = %s{a} + au::make_quantity<%s>(b); return s.in(au::CommonUnitT<%s, %s>{});' % (D1, U2, unit(p1), U2))
        wdif = Wrapper('w_au_dif_' + tag, ct, [(ct, 'a'), (ct, 'b')], 'auto s = au::make_quantity<%s>(b) - %s{a}; return s.in(au::CommonUnitT<%s, %s>{});' % (U2, D1, unit(p1), U2))
        wcs = Wrapper('w_chrono_sum_' + tag, ct, [(ct, 'a'), (ct, 'b')], 'return (%s{a} + %s{b}).count();' % (D1, D2))
        wcd = Wrapper('w_chrono_dif_' + tag, ct, [(ct, 'a'), (ct, 'b')], 'return (%s{b} - %s{a}).count();' % (D2, D1))
        body = '''
  ASSUME(%s && %s && %s && %s);
  CHECK(%s(a, b) == %s(a, b), "duration-plus-quantity-agrees-with-chrono");
  CHECK(%s(a, b) == %s(a, b), "quantity-minus-duration-agrees-with-chrono");
''' % (fits(A), fits(B), fits('(%s + %s)' % (A, B)), fits('(%s - %s)' % (B, A)), wsum.name, wcs.name, wdif.name, wcd.name)
        obs.append(Ob(id='C17.mixed-addsub.%s' % tag, prop='C17', group='C17.mixed.%s' % tag, prelude=PRE, wrappers=[wsum, wdif, wcs, wcd], inputs=[(ct, 'a'), (ct, 'b')], body=body,
                      contract='forall a,b for which chrono\'s own computation does not overflow: (duration + quantity) and (quantity - duration), read in the common unit, equal '
                               'the count chrono computes for the same operands', functions_under_contract=('au::operator+(QLike, Quantity)', 'au::operator-(Quantity, QLike)')))
    # ---- sums and differences with DIFFERENT reps on the two sides (the duration's rep narrower and unsigned, or narrower and signed): each operand is widened to the common rep
    #      before anything else happens to it, exactly as chrono does
    for (rq, rd, per) in (('i64', 'u32', 'sec'), ('i64', 'u16', 'milli'), ('i32', 'i16', 'sec'), ('u64', 'u32', 'sec'), ('i32', 'i64', 'sec'), ('u16', 'i64', 'milli')) + ((('i64', 'i32', 'min'), ('u32', 'u8', 'sec')) if tier == 'thorough' else ()):
        cq, cd = G.ctype(rq), G.ctype(rd)
        CRr = G.common(rq, rd); ccr = G.ctype(CRr)
        tag = '%s_%s_%s' % (rq, rd, per)
        DD = dur(rd, per); DQ = 'std::chrono::duration<%s>' % cq
        Q = 'au::make_quantity<au::Seconds>(b)'; CU = 'au::CommonUnitT<%s, au::Seconds>' % unit(per)
        ws = []
        checks = []
        for nm, au_e, ch_e in (('quantity-minus-duration', '%s - %s{a}' % (Q, DD), '%s{b} - %s{a}' % (DQ, DD)), ('duration-minus-quantity', '%s{a} - %s' % (DD, Q), '%s{a} - %s{b}' % (DD, DQ)),
                               ('quantity-plus-duration', '%s + %s{a}' % (Q, DD), '%s{b} + %s{a}' % (DQ, DD)), ('duration-plus-quantity', '%s{a} + %s' % (DD, Q), '%s{a} + %s{b}' % (DD, DQ))):
            wa = Wrapper('w_mr_au_%s_%s' % (nm.replace('-', ''), tag), ccr, [(cd, 'a'), (cq, 'b')], 'auto s = %s; return s.in(%s{});' % (au_e, CU))
            wc = Wrapper('w_mr_ch_%s_%s' % (nm.replace('-', ''), tag), ccr, [(cd, 'a'), (cq, 'b')], 'return (%s).count();' % ch_e)
            ws += [wa, wc]
            checks.append('  CHECK(%s(a, b) == %s(a, b), "%s-agrees-with-chrono");' % (wa.name, wc.name, nm))
        bnd = '(b >= %s && b <= 1000000000)' % ('0' if not G.REPS[rq]['signed'] else '-1000000000')
        if G.REPS[rd]['bits'] > G.REPS[rq]['bits']:
            # the DURATION has the wider rep (the quantity must be widened, never the duration narrowed): the duration is bounded so that chrono's own arithmetic stays in range
            bnd = '(a >= -1000000000000LL && a <= 1000000000000LL)'
        # the six comparisons, both operand orders, against chrono's own mixed-rep comparison
        for n_, op_ in (('eq', '=='), ('ne', '!='), ('lt', '<'), ('le', '<='), ('gt', '>'), ('ge', '>=')):
            for side, au_e, ch_e in (('dq', '%s{a} %s %s' % (DD, op_, Q), '%s{a} %s %s{b}' % (DD, op_, DQ)), ('qd', '%s %s %s{a}' % (Q, op_, DD), '%s{b} %s %s{a}' % (DQ, op_, DD))):
                wa = Wrapper('w_mr_au_%s_%s_%s' % (n_, side, tag), 'bool', [(cd, 'a'), (cq, 'b')], 'return %s;' % au_e)
                wc = Wrapper('w_mr_ch_%s_%s_%s' % (n_, side, tag), 'bool', [(cd, 'a'), (cq, 'b')], 'return %s;' % ch_e)
                ws += [wa, wc]
                checks.append('  CHECK(%s(a, b) == %s(a, b), "%s-%s-agrees-with-chrono");' % (wa.name, wc.name, side, n_))
        body = '\n  ASSUME(%s);\n%s\n' % (bnd, '\n'.join(checks))
        obs.append(Ob(id='C17.mixed-addsub-mixedrep.%s' % tag, prop='C17', group='C17.mixedrep.%s' % tag, prelude=PRE, wrappers=ws, inputs=[(cd, 'a'), (cq, 'b')], body=body,
                      contract='forall a:%s (whole range), |b| <= 10^9 (%s): quantity<Seconds,%s>(b) -/+ duration<%s, ratio<%d,%d>>{a} and the mirrored forms, read in the common unit and the common '
                               'rep %s, equal the count chrono computes for duration<%s>{b} -/+ the same duration (unsigned results are compared modulo 2^N, as chrono computes them); the six comparisons in both operand orders equal chrono\'s'
                               % (cd, cq, cq, cd, PERIODS[per][0], PERIODS[per][1], ccr, cq),
                      functions_under_contract=('au::operator-(Quantity, QLike)', 'au::operator-(QLike, Quantity)', 'au::operator+(Quantity, QLike)', 'au::operator+(QLike, Quantity)')))
    return obs
