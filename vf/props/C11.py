"""C11 -- magnitude evaluation: the cast-safety layer under function contracts (mode D), guarded products attempted.  DESIGN.md section 5."""
from core import Ob, Wrapper
import grid as G

ASSUMPTIONS = [
    'decided: stdx::cmp_* / in_range / safe_to_cast_to equal the mathematical relation for all values (the gate between the widened product and T in get_value_result)',
    'decided for uint64_t: checked_int_pow answers OK exactly when base^exp fits and then returns base^exp (lemma-based obligation; arithmetic lemmas checked by Lean). Also decided for intmax_t (signed division / multiplication as uninterpreted functions, lemmas cps_*). NOT decided (assumed): product returns the exact product, root, everything computed in long double; '
    'representable_in / is_integer / is_rational / numerator / denominator are compile-time classifications (type level)',
    'per-instance values of get_value<T>(m) are checked as constants inside every C03-C10 obligation against the independent N, D']

CODE = {'i8': 'a', 'u8': 'h', 'i16': 's', 'u16': 't', 'i32': 'i', 'u32': 'j', 'i64': 'l', 'u64': 'm'}
FN = {'cmp_equal': '9cmp_equal', 'cmp_not_equal': '13cmp_not_equal', 'cmp_less': '8cmp_less', 'cmp_greater': '11cmp_greater',
      'cmp_less_equal': '14cmp_less_equal', 'cmp_greater_equal': '17cmp_greater_equal'}
OPC = {'cmp_equal': '==', 'cmp_not_equal': '!=', 'cmp_less': '<', 'cmp_greater': '>', 'cmp_less_equal': '<=', 'cmp_greater_equal': '>='}
RV = '__CPROVER_return_value'
PRE = '#include "au/stdx/utility.hh"\n#include "au/magnitude.hh"'


def mangled(fn, T, U):
    return '_ZN2au4stdx%sI%s%sEEbT_T0_' % (FN[fn], CODE[T], CODE[U])


def view(rep, name):
    """exact mathematical value of the (unsigned-storage) C parameter"""
    if G.REPS[rep]['signed']: return '(__int128)(%s)%s' % (G.ctype(rep), name)
    return '(__int128)%s' % name


def cmp_contract(fn, T, U):
    return dict(requires=['1'], ensures=['%s == ((%s) %s (%s))' % (RV, view(T, 'v_t'), OPC[fn], view(U, 'v_u'))], assigns='')


def callees(fn, T, U):
    """(callee fn, T', U') that fn<T,U> delegates to"""
    return {'cmp_not_equal': [('cmp_equal', T, U)], 'cmp_greater': [('cmp_less', U, T)], 'cmp_less_equal': [('cmp_greater', T, U)],
            'cmp_greater_equal': [('cmp_less', T, U)]}.get(fn, [])


QUICK_PAIRS = [('i32', 'u64'), ('u64', 'i8'), ('i64', 'u64'), ('u32', 'i32'), ('i8', 'u8'), ('u16', 'i64'), ('i64', 'i64'), ('u8', 'u8'), ('i16', 'u32'), ('u64', 'i64')]


def obligations(tier, seed):
    obs = []
    pairs = [(a, b) for a in G.INT_REPS for b in G.INT_REPS] if tier == 'thorough' else QUICK_PAIRS
    # one driver wrapper per pair instantiates the whole family
    for (T, U) in pairs:
        ct, cu = G.ctype(T), G.ctype(U)
        tag = '%s_%s' % (T, U)
        w = Wrapper('w_c11_inst_' + tag, 'int32_t', [(ct, 't'), (cu, 'u')],
                    'using namespace au::stdx; return cmp_equal(t,u) + cmp_not_equal(t,u) + cmp_less(t,u) + cmp_greater(t,u) + cmp_less_equal(t,u) + cmp_greater_equal(t,u) '
                    '+ cmp_less(u,t) + in_range<%s>(u) + au::detail::safe_to_cast_to<%s>(u);' % (ct, ct))
        for fn in FN:
            cal = callees(fn, T, U)
            contracts = {mangled(fn, T, U): cmp_contract(fn, T, U)}
            for (cf, a, b) in cal: contracts[mangled(cf, a, b)] = cmp_contract(cf, a, b)
            tc, uc = G.REPS[T]['c'].replace('int', 'uint') if G.REPS[T]['signed'] else ct, G.REPS[U]['c'].replace('int', 'uint') if G.REPS[U]['signed'] else cu
            obs.append(Ob(id='C11.contract.%s.%s' % (fn, tag), prop='C11', group='C11.%s' % tag, prelude=PRE, wrappers=[w], inputs=[], body='', kind='D', promote=False,
                          dfcc=dict(target=mangled(fn, T, U), replace=[mangled(cf, a, b) for (cf, a, b) in cal], contracts=contracts,
                                    harness='  %s t; %s u;\n  f_%s(t, u);' % (tc, uc, mangled(fn, T, U)), must_have=['postcondition'] + (['precondition'] if cal else []),
                                    loops=False),
                          contract='stdx::%s<%s,%s>(t,u) == (t %s u) as mathematical integers, for all values%s' % (
                              fn, ct, cu, OPC[fn], '; verified against the contract of ' + ', '.join('%s<%s,%s>' % (cf, a, b) for cf, a, b in cal) if cal else ''),
                          functions_under_contract=('au::stdx::%s<%s,%s>' % (fn, ct, cu),)))
        # in_range<T>(u) and safe_to_cast_to<T>(u), verified against the cmp_* contracts
        lo, hi = G.tmin(T), G.tmax(T)
        in_m = '_ZN2au4stdx8in_rangeI%s%sEEbT0_' % (CODE[T], CODE[U])
        spec = '%s == ((%s) >= %s && (%s) <= %s)' % (RV, view(U, 'v_t'), G.lit(lo).replace('i128', '__int128'), view(U, 'v_t'), G.lit(hi).replace('i128', '__int128'))
        c_ge = mangled('cmp_greater_equal', U, T); c_le = mangled('cmp_less_equal', U, T)
        contracts = {in_m: dict(requires=['1'], ensures=[spec], assigns=''), c_ge: cmp_contract('cmp_greater_equal', U, T), c_le: cmp_contract('cmp_less_equal', U, T)}
        uc = G.REPS[U]['c'].replace('int', 'uint') if G.REPS[U]['signed'] else cu
        obs.append(Ob(id='C11.contract.in_range.%s' % tag, prop='C11', group='C11.%s' % tag, prelude=PRE, wrappers=[w], inputs=[], body='', kind='D', promote=False,
                      dfcc=dict(target=in_m, replace=[c_ge, c_le], contracts=contracts, harness='  %s t;\n  f_%s(t);' % (uc, in_m), must_have=['postcondition', 'precondition'], loops=False),
                      contract='stdx::in_range<%s>(%s t) == (min(%s) <= t <= max(%s)); verified against the cmp_greater_equal / cmp_less_equal contracts' % (ct, cu, ct, ct),
                      functions_under_contract=('au::stdx::in_range<%s,%s>' % (ct, cu),)))
    # ---- classification and evaluation on boundary magnitudes: compile-time answers, checked as constants of the lowered code against
    #      independently computed expectations (exact integer arithmetic here)
    CT = {'i8': 'int8_t', 'u8': 'uint8_t', 'i16': 'int16_t', 'u16': 'uint16_t', 'i32': 'int32_t', 'u32': 'uint32_t', 'i64': 'int64_t', 'u64': 'uint64_t'}
    facts = []
    for rep in G.INT_REPS:
        mx = G.tmax(rep)
        facts.append(('rep_%s_max' % rep, 'au::representable_in<%s>(au::mag<%dULL>())' % (CT[rep], mx), 1))
        if mx + 1 < (1 << 64): facts.append(('rep_%s_max1' % rep, 'au::representable_in<%s>(au::mag<%dULL>())' % (CT[rep], mx + 1), 0))
        facts.append(('rep_%s_frac' % rep, 'au::representable_in<%s>(au::mag<3>() / au::mag<2>())' % CT[rep], 0))
        facts.append(('val_%s_max' % rep, '(au::get_value<%s>(au::mag<%dULL>()) == %s)' % (CT[rep], mx, ('%dULL' % mx) if mx > (1 << 62) else '%dLL' % mx), 1))
    # a single PRIME factor just above max(T): the factor must not be narrowed to T before the range check
    for rep, pr in (('u8', 257), ('i8', 131), ('u16', 65537), ('i16', 32771), ('u32', 4294967311), ('i32', 2147483659)):
        facts.append(('rep_%s_prime_above' % rep, 'au::representable_in<%s>(au::mag<%dULL>())' % (CT[rep], pr), 0))
    # primes above 2^63 (the property's grid goes up to 2^64-59): the base must not wrap when it is widened to intmax_t for a signed T
    for rep in ('i8', 'i16', 'i32', 'i64'):
        facts.append(('rep_%s_prime_2_64_m59' % rep, 'au::representable_in<%s>(au::mag<18446744073709551557ULL>())' % CT[rep], 0))
    facts += [('rep_i64_prime_above', 'au::representable_in<int64_t>(au::mag<9223372036854775837ULL>())', 0),
              ('rep_u64_prime_2_64_m59', 'au::representable_in<uint64_t>(au::mag<18446744073709551557ULL>())', 1),
              ('val_u64_prime_2_64_m59', '(au::get_value<uint64_t>(au::mag<18446744073709551557ULL>()) == 18446744073709551557ULL)', 1),
              ('rep_i64_prime_2_64_m59_squared', 'au::representable_in<int64_t>(au::pow<2>(au::mag<18446744073709551557ULL>()))', 0),
              # a magnitude is never zero: a floating T either cannot represent it or yields a strictly positive value
              ('val_f32_1e_m60_not_zero', '(au::detail::get_value_result<float>(au::pow<-60>(au::mag<10>())).outcome != au::detail::MagRepresentationOutcome::OK || '
                                          'au::detail::get_value_result<float>(au::pow<-60>(au::mag<10>())).value > 0.0f)', 1),
              ('val_f64_1e_m400_not_zero', '(au::detail::get_value_result<double>(au::pow<-400>(au::mag<10>())).outcome != au::detail::MagRepresentationOutcome::OK || '
                                           'au::detail::get_value_result<double>(au::pow<-400>(au::mag<10>())).value > 0.0)', 1),
              ('rep_f32_subnormal', 'au::representable_in<float>(au::mag<3>() * au::pow<-130>(au::mag<2>()))', 1),
              ('val_f32_subnormal', '(au::get_value<float>(au::mag<3>() * au::pow<-130>(au::mag<2>())) == (3.0f * std::numeric_limits<float>::min()) / 16.0f)', 1),
              ('rep_f64_subnormal', 'au::representable_in<double>(au::mag<3>() * au::pow<-1030>(au::mag<2>()))', 1),
              ('val_f32_1e_m30_positive', '(au::get_value<float>(au::pow<-30>(au::mag<10>())) > 0.0f)', 1)]
    facts += [('rep_ull_2_63', 'au::representable_in<unsigned long long>(au::pow<63>(au::mag<2>()))', 1), ('val_ull_max', '(au::get_value<unsigned long long>(au::mag<18446744073709551615ULL>()) == 18446744073709551615ULL)', 1),
              ('rep_ul_2_63', 'au::representable_in<unsigned long>(au::pow<63>(au::mag<2>()))', 1), ('rep_ll_2_63', 'au::representable_in<long long>(au::pow<63>(au::mag<2>()))', 0),
              ('rep_uchar_255', 'au::representable_in<unsigned char>(au::mag<255>())', 1), ('rep_char16_65535', 'au::representable_in<char16_t>(au::mag<65535>())', 1)]
    facts += [('rep_u64_2_64', 'au::representable_in<uint64_t>(au::pow<64>(au::mag<2>()))', 0), ('rep_u64_2_63', 'au::representable_in<uint64_t>(au::pow<63>(au::mag<2>()))', 1),
              ('rep_i64_2_63', 'au::representable_in<int64_t>(au::pow<63>(au::mag<2>()))', 0),
              ('rep_f32_2_127', 'au::representable_in<float>(au::pow<127>(au::mag<2>()))', 1), ('rep_f32_2_128', 'au::representable_in<float>(au::pow<128>(au::mag<2>()))', 0),
              ('rep_f32_1e38', 'au::representable_in<float>(au::pow<38>(au::mag<10>()))', 1), ('rep_f32_1e39', 'au::representable_in<float>(au::pow<39>(au::mag<10>()))', 0),
              ('rep_f64_2_1023', 'au::representable_in<double>(au::pow<1023>(au::mag<2>()))', 1), ('rep_f64_2_1024', 'au::representable_in<double>(au::pow<1024>(au::mag<2>()))', 0),
              ('rep_f64_1e308', 'au::representable_in<double>(au::pow<308>(au::mag<10>()))', 1), ('rep_f64_1e309', 'au::representable_in<double>(au::pow<309>(au::mag<10>()))', 0),
              ('rep_f32_tiny', 'au::representable_in<float>(au::pow<-30>(au::mag<10>()))', 1),
              ('is_int_12', 'au::is_integer(au::mag<12>())', 1), ('is_int_3_4', 'au::is_integer(au::mag<3>() / au::mag<4>())', 0),
              ('is_rat_3_4', 'au::is_rational(au::mag<3>() / au::mag<4>())', 1), ('is_rat_pi', 'au::is_rational(au::Magnitude<au::Pi>{})', 0),
              ('is_rat_sqrt2', 'au::is_rational(au::root<2>(au::mag<2>()))', 0),
              ('is_rat_inv_pi', 'au::is_rational(au::mag<1>() / au::Magnitude<au::Pi>{})', 0), ('is_rat_180_over_pi', 'au::is_rational(au::mag<180>() / au::Magnitude<au::Pi>{})', 0),
              ('is_rat_inv_sqrt2', 'au::is_rational(au::mag<1>() / au::root<2>(au::mag<2>()))', 0), ('is_rat_pi_over_180', 'au::is_rational(au::Magnitude<au::Pi>{} / au::mag<180>())', 0),
              ('is_int_inv_pi', 'au::is_integer(au::mag<1>() / au::Magnitude<au::Pi>{})', 0), ('is_rat_cbrt9', 'au::is_rational(au::root<3>(au::mag<9>()))', 0),
              ('is_rat_pi_sq_over_pi', 'au::is_rational(au::pow<2>(au::Magnitude<au::Pi>{}) / au::Magnitude<au::Pi>{})', 0),
              ('is_rat_sqrt2_sq', 'au::is_rational(au::pow<2>(au::root<2>(au::mag<2>())) / au::mag<3>())', 1), ('is_int_pi_over_pi', 'au::is_integer(au::Magnitude<au::Pi>{} / au::Magnitude<au::Pi>{} * au::mag<4>())', 1),
              ('num_of_irr', '(au::numerator(au::mag<3>() / au::Magnitude<au::Pi>{} / au::mag<7>()) == au::mag<3>())', 1),
              ('den_of_irr', '(au::denominator(au::mag<3>() / au::Magnitude<au::Pi>{} / au::mag<7>()) == au::mag<7>() * au::Magnitude<au::Pi>{})', 1), ('is_int_sqrt4', 'au::is_integer(au::root<2>(au::mag<4>()))', 1),
              ('num_den', '(au::get_value<int>(au::numerator(au::mag<18>() / au::mag<12>())) == 3 && au::get_value<int>(au::denominator(au::mag<18>() / au::mag<12>())) == 2)', 1),
              ('int_part', '(au::get_value<int>(au::integer_part(au::mag<18>() / au::mag<4>() * au::Magnitude<au::Pi>{})) == 9)', 1),
              ('mag_eq', '(au::mag<6>() * au::mag<35>() == au::mag<210>())', 1), ('mag_ne', '(au::mag<6>() * au::mag<35>() == au::mag<211>())', 0),
              ('val_f64_1000', '(au::get_value<double>(au::mag<1000>()) == 1000.0)', 1), ('val_f32_inv8', '(au::get_value<float>(au::mag<1>() / au::mag<8>()) == 0.125f)', 1),
              ('val_i64_prod', '(au::get_value<int64_t>(au::pow<18>(au::mag<10>())) == 1000000000000000000LL)', 1)]
    ws = []; checks = []
    for (nm, expr, exp) in facts:
        if nm.endswith('_not_zero'): continue      # decided as static probes only (known finding KF-C11-1 is identified by the probe)
        w = Wrapper('w_fact_' + nm, 'int32_t', [], 'constexpr bool vf_c = (%s); return (int)vf_c;' % expr)
        ws.append(w); checks.append('  CHECK(%s() == %d, "%s");' % (w.name, exp, nm))
    step = 12
    for i in range(0, len(ws), step):
        obs.append(Ob(id='C11.classification.%02d' % (i // step), prop='C11', group='C11.facts%d' % (i // step), prelude=PRE, wrappers=ws[i:i + step], inputs=[],
                      body='\n' + '\n'.join(checks[i:i + step]) + '\n',
                      contract='compile-time classification / evaluation on boundary magnitudes (constants of the lowered code vs independently computed answers): '
                               + ', '.join(f[0] for f in facts[i:i + step]),
                      functions_under_contract=('au::representable_in', 'au::get_value', 'au::is_integer', 'au::is_rational', 'au::numerator', 'au::denominator', 'au::integer_part')))
    # ---- the same boundary facts as supporting static facts (one probe TU each): a hard error or a different answer is attributed to its instance
    HDR = '#include "au/magnitude.hh"\n#include <cstdint>\n#define VF_STATIC_FACT(c) static_assert(c, "VF_STATIC_FACT")\n'
    sel = facts if tier == 'thorough' else [f for f in facts if f[0].startswith(('rep_u8', 'rep_i8', 'val_u8', 'val_i64_max', 'val_u64', 'rep_f32', 'rep_f64_2', 'rep_u64', 'rep_i64_2', 'val_i16', 'rep_i64_prime', 'rep_i32_prime', 'val_f32_1e', 'val_f64_1e', 'is_rat_inv', 'is_rat_180', 'rep_ull', 'val_ull', 'rep_ul_', 'rep_ll_')) or f[0].endswith('prime_above')]
    for (nm, expr, exp) in sel:
        obs.append(Ob(id='C11.static.%s' % nm, prop='C11', group='C11.static', prelude='', wrappers=[], inputs=[],
                      body=HDR + 'VF_STATIC_FACT((%s) == %s);\nint main() {}\n' % (expr, 'true' if exp else 'false'), kind='S',
                      contract='static fact: (%s) == %s' % (expr, bool(exp)), functions_under_contract=('au::representable_in / get_value (compile-time)',)))
    # ---- guarded products: outcome OK ==> no multiplication wrapped / overflowed, no division by zero (own loop VCs, int-blast route)
    # the intmax_t instantiation (signed division in the guards) stayed undecided after 50 minutes on every back end: not generated, listed as assumed
    for (T, code, sgn) in (('uint64_t', 'm', False),):
        tgt = '_ZN2au6detail15checked_int_powI%sEENS0_24MagRepresentationOrErrorIT_EES3_m' % code
        bv = '(int64_t)m_base_addr' if sgn else 'm_base_addr'
        rv = '(int64_t)m_result.f1' if sgn else 'm_result.f1'
        cs = {tgt: dict(requires=[], ensures=[], assigns='',
                        loops={0: dict(invariant=['%s >= 1' % bv, '%s >= 1' % rv, 'm_result.f0 == 0'], decreases='m_exp_addr',
                                       assigns='m_result, m_base_addr, m_exp_addr, m_retval')})}
        w = Wrapper('w_c11_pow_' + code, 'uint64_t', [(T, 'b'), ('uint64_t', 'e')], 'return (uint64_t)au::detail::checked_int_pow<%s>(b, e).value;' % T)
        body = '''
  ASSUME(%sbase >= 1);
  struct L__i32_i64_ r = TARGET((uint64_t)base, exp);
  CHECK(r.f0 == 0 || r.f0 == 3, "outcome-is-OK-or-CANNOT_FIT");
  CHECK(r.f0 != 0 || %sr.f1 >= 1, "value-stays-positive");
''' % ('(int64_t)' if sgn else '', '(int64_t)' if sgn else '')
        obs.append(Ob(id='C11.guarded.checked_int_pow.%s' % T, prop='C11', group='C11.pow', prelude=PRE, wrappers=[w], inputs=[('uint64_t', 'base'), ('uint64_t', 'exp')],
                      body=body, kind='L', promote=False, wrap=True, dfcc=dict(target=tgt, contracts=cs), budget=600,
                      contract='checked_int_pow<%s>(base, exp), requires base >= 1 (every caller passes a prime or its power): no multiplication wraps/overflows and no division by '
                               'zero on any path (UB:*/WRAP:* assertions), outcome is OK or ERR_CANNOT_FIT; loop invariant base >= 1 && result.value >= 1; decreases exp. '
                               'NOT proved: value == base^exp' % T,
                      functions_under_contract=('au::detail::checked_int_pow<%s>' % T,)))
    # ---- lemma-based exactness of checked_int_pow<uint64_t> (vf/lemma.py, props/c11_lemmas.py): outcome OK <=> base^exp fits, and then value == base^exp
    import lemma as LM
    from props import c11_lemmas as CL
    obs.append(Ob(id='C11.lemmas.checked_int_pow', prop='C11', group='C11.lemmas', kind='S', budget=600, body='', prelude='', wrappers=[], inputs=[],
                  dfcc=dict(tool='lean', text=LM.lean_file(CL.CHECKED_POW, CL.CHECKED_POW_PRELUDE)),
                  contract='Lean 4 + Mathlib accept: ' + '; '.join('%s (%s)' % (l.name, l.doc) for l in CL.CHECKED_POW)))
    tgt = '_ZN2au6detail15checked_int_powImEENS0_24MagRepresentationOrErrorIT_EES3_m'
    w = Wrapper('w_c11_pow_m', 'uint64_t', [('uint64_t', 'b'), ('uint64_t', 'e')], 'return (uint64_t)au::detail::checked_int_pow<uint64_t>(b, e).value;')
    inv = ['m_result.f0 == 0 && m_base_addr >= 1 && m_result.f1 >= 1', 'SPECP_poweq(m_result.f1, m_base_addr, m_exp_addr, vf_ghost[0], vf_ghost[1])']
    obs.append(Ob(id='C11.exact.checked_int_pow.uint64_t', prop='C11', group='C11.pow', prelude=PRE, wrappers=[w], inputs=[('uint64_t', 'base'), ('uint64_t', 'exp')],
                  body="""
  ASSUME(base >= 1);
  vf_ghost[0] = base; vf_ghost[1] = exp;
  ASSUME(%s);   /* lemma cp_init at (base, exp) */
  struct L__i32_i64_ r = TARGET(base, exp);
  CHECK(r.f0 == 0 || r.f0 == 3, "outcome-is-OK-or-CANNOT_FIT");
  CHECK(r.f0 != 0 || (SPECP_powfits(base, exp) && r.f1 == SPEC_pow(base, exp)), "OK-means-the-power-fits-and-value-is-exactly-base-to-the-exp");
  CHECK(r.f0 != 3 || !SPECP_powfits(base, exp), "CANNOT_FIT-is-answered-only-when-the-power-exceeds-the-type");
""" % CL.cp_init.inst(b0='base', e0='exp'),
                  kind='L', promote=False, wrap=True, budget=300, defs=('LL2C_UF_ARITH=1',), needs=('C11.lemmas.checked_int_pow',),
                  dfcc=dict(target=tgt,
                            native_search=dict(pre='base >= 1', call='au::detail::checked_int_pow<uint64_t>(base, exp)', ret='auto',
                                               post='ref_ok(base, exp, (int)r.outcome, r.value)',
                                               helpers='static bool ref_ok(uint64_t b, uint64_t e, int oc, uint64_t v) { u128 p = 1; bool fits = true; '
                                                       'if (b > 1) { for (uint64_t i = 0; i < e && fits; ++i) { p *= b; if (p > (u128)~0ULL) fits = false; } } '
                                                       'return fits ? (oc == 0 && v == (uint64_t)p) : (oc == 3); }'),
                            contracts={tgt: dict(requires=[], ensures=[], assigns='',
                                                 loops={0: dict(invariant=inv, decreases='m_exp_addr', assigns='m_result, m_base_addr, m_exp_addr, m_retval',
                                                                lemmas=[CL.cp_step.inst(v='m_result.f1', b='m_base_addr', e='m_exp_addr', b0='vf_ghost[0]', e0='vf_ghost[1]'),
                                                                        CL.cp_exit.inst(v='m_result.f1', b='m_base_addr', b0='vf_ghost[0]', e0='vf_ghost[1]')])})}),
                  contract='checked_int_pow<uint64_t>(base, exp), base >= 1: the outcome is OK EXACTLY when base^exp <= max(uint64_t) and then value == base^exp; otherwise ERR_CANNOT_FIT. '
                           'Loop invariant value * base^exp == base0^exp0 (over the naturals), value >= 1, base >= 1; no multiplication wraps, no division by zero, decreases exp. '
                           'Arithmetic by lemmas cp_init, cp_step, cp_exit (Lean)',
                  functions_under_contract=('au::detail::checked_int_pow<uint64_t>',)))
    # ---- the signed instantiation (every signed integral T is evaluated in intmax_t): same contract, two's-complement reading, signed division / comparison / multiplication
    obs.append(Ob(id='C11.lemmas.checked_int_pow_signed', prop='C11', group='C11.lemmas', kind='S', budget=600, body='', prelude='', wrappers=[], inputs=[],
                  dfcc=dict(tool='lean', text=LM.lean_file(CL.CHECKED_POW_SIGNED, CL.CHECKED_POW_SIGNED_PRELUDE)),
                  contract='Lean 4 + Mathlib accept: ' + '; '.join('%s (%s)' % (l.name, l.doc) for l in CL.CHECKED_POW_SIGNED)))
    tgts = '_ZN2au6detail15checked_int_powIlEENS0_24MagRepresentationOrErrorIT_EES3_m'
    ws = Wrapper('w_c11_pow_l', 'int64_t', [('int64_t', 'b'), ('uint64_t', 'e')], 'return (int64_t)au::detail::checked_int_pow<int64_t>(b, e).value;')
    invs = ['m_result.f0 == 0 && (int64_t)m_base_addr >= 1 && (int64_t)m_result.f1 >= 1', 'SPECP_spoweq(m_result.f1, m_base_addr, m_exp_addr, vf_ghost[0], vf_ghost[1])']
    obs.append(Ob(id='C11.exact.checked_int_pow.int64_t', prop='C11', group='C11.pow', prelude=PRE, wrappers=[ws], inputs=[('uint64_t', 'base'), ('uint64_t', 'exp')],
                  body="""
  ASSUME((int64_t)base >= 1);
  vf_ghost[0] = base; vf_ghost[1] = exp;
  ASSUME(%s);   /* lemma cps_init at (base, exp) */
  struct L__i32_i64_ r = TARGET(base, exp);
  CHECK(r.f0 == 0 || r.f0 == 3, "outcome-is-OK-or-CANNOT_FIT");
  CHECK(r.f0 != 0 || (SPECP_spowfits(base, exp) && r.f1 == SPEC_spow(base, exp)), "OK-means-the-power-fits-and-value-is-exactly-base-to-the-exp");
  CHECK(r.f0 != 3 || !SPECP_spowfits(base, exp), "CANNOT_FIT-is-answered-only-when-the-power-exceeds-the-type");
""" % CL.cps_init.inst(b0='base', e0='exp'),
                  kind='L', promote=False, wrap=True, budget=300, defs=('LL2C_UF_ARITH=1', 'LL2C_UF_DIV=1', 'LL2C_UF_SMUL=1'), needs=('C11.lemmas.checked_int_pow_signed',),
                  dfcc=dict(target=tgts,
                            native_search=dict(pre='(int64_t)base >= 1', call='au::detail::checked_int_pow<int64_t>((int64_t)base, exp)', ret='auto',
                                               post='ref_oks((int64_t)base, exp, (int)r.outcome, r.value)',
                                               helpers='static bool ref_oks(int64_t b, uint64_t e, int oc, int64_t v) { __int128 p = 1; bool fits = true; '
                                                       'if (b > 1) { for (uint64_t i = 0; i < e && fits; ++i) { p *= b; if (p > (__int128)INT64_MAX) fits = false; } } '
                                                       'return fits ? (oc == 0 && v == (int64_t)p) : (oc == 3); }'),
                            contracts={tgts: dict(requires=[], ensures=[], assigns='',
                                                  loops={0: dict(invariant=invs, decreases='m_exp_addr', assigns='m_result, m_base_addr, m_exp_addr, m_retval',
                                                                 lemmas=[CL.cps_step.inst(v='m_result.f1', b='m_base_addr', e='m_exp_addr', b0='vf_ghost[0]', e0='vf_ghost[1]'),
                                                                         CL.cps_exit.inst(v='m_result.f1', b='m_base_addr', b0='vf_ghost[0]', e0='vf_ghost[1]')])})}),
                  contract='checked_int_pow<intmax_t>(base, exp), base >= 1: the outcome is OK EXACTLY when base^exp <= max(int64_t) and then value == base^exp; otherwise ERR_CANNOT_FIT. '
                           'Loop invariant value * base^exp == base0^exp0 (over the integers), value >= 1, base >= 1; no signed multiplication overflows, no division by zero or MIN / -1, decreases exp. '
                           'Arithmetic by lemmas cps_init, cps_step, cps_exit (Lean)',
                  functions_under_contract=('au::detail::checked_int_pow<intmax_t>',)))
    return obs
