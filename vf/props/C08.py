"""C08 -- mixed-unit comparison, addition, subtraction and modulo are exact.  DESIGN.md section 5."""
from core import Ob, Wrapper
import grid as G

ASSUMPTIONS = ['floating reps: relational contract (bit-identical to scaling each operand by its integer factor in the common rep and '
               'applying the raw operator); the "few ulp" distance to the exact rational is not decided',
               'mutual consistency / antisymmetry / transitivity follow from equality with the total order on exact products and are not separate obligations']

QUICK = [('i32', 'i32', 12, 1), ('i32', 'i32', 1250, 381), ('i32', 'i32', 5, 9), ('i32', 'i32', 1001, 30000), ('i32', 'i32', 1000000, 1),
         ('i64', 'i64', 12, 1), ('i64', 'i64', 1250, 381), ('i64', 'i64', 1000000007, 998244353),
         ('u32', 'u32', 12, 1), ('u32', 'u32', 5, 9), ('u64', 'u64', 1250, 381), ('u64', 'u64', 1000, 1),
         ('i16', 'i16', 12, 1), ('i16', 'i16', 3, 5), ('u16', 'u16', 12, 1),
         ('i32', 'i64', 1250, 381), ('i16', 'i32', 12, 1), ('u16', 'u64', 5, 9), ('i8', 'i32', 12, 1), ('i64', 'i32', 1, 12)]
MORE = [('i32', 'i32', 3600, 1), ('i32', 'i32', 1, 1000), ('i32', 'i32', 381, 1250), ('i32', 'i32', 999983, 1000000), ('i64', 'i64', 3600, 1),
        ('i64', 'i64', 1, 1000000000), ('i64', 'i64', 4294967291, 4294967279), ('u32', 'u32', 1250, 381), ('u32', 'u32', 2000000, 1),
        ('u64', 'u64', 12, 1), ('u64', 'u64', 8589934583, 3), ('i16', 'i16', 15, 14), ('u16', 'u16', 30, 29), ('u8', 'u32', 12, 1),
        ('i32', 'i16', 5, 9), ('u32', 'u64', 1001, 30000), ('i8', 'i64', 1250, 381), ('u8', 'u16', 5, 3)]
FP = [('f32', 'f32', 1250, 381), ('f64', 'f64', 12, 1), ('f32', 'f64', 5, 9), ('f32', 'f32', 1001, 30000)]
OPS = [('eq', '=='), ('ne', '!='), ('lt', '<'), ('le', '<='), ('gt', '>'), ('ge', '>=')]


def units(N, D):
    # U1 / U2 == N / D with U2 = Meters; common unit = Meters / D; a scales by N, b by D
    u1 = 'VU_c_%d_%d' % (N, D)
    pre = '#include "au/units/meters.hh"\n//--\nstruct %s : decltype(au::Meters{} * au::mag<%dULL>() / au::mag<%dULL>()) {};' % (u1, N, D)
    return pre, u1, 'au::Meters'


# the same ratios between units built on DIFFERENT bases (so that the pair is not "a unit and a scaling of itself"), incl. the spellings `base * mag<K>() / mag<1>()` and
# `base * mag<1>() / mag<K>()`: the ratio is fixed by the SI definition of the inch (0.0254 m), typed here by hand
XUNITS = {
    'm127_in': ('#include "au/units/meters.hh"\n//--\n#include "au/units/inches.hh"\n//--\nstruct VU_x127 : decltype(au::Meters{} * au::mag<127ULL>() / au::mag<1ULL>()) {};', 'VU_x127', 'au::Inches'),       # 127 m / 0.0254 m = 5000
    'm5000th_in': ('#include "au/units/meters.hh"\n//--\n#include "au/units/inches.hh"\n//--\nstruct VU_x5000 : decltype(au::Meters{} * au::mag<1ULL>() / au::mag<5000ULL>()) {};', 'VU_x5000', 'au::Inches'),  # (1/5000 m) / 0.0254 m = 1/127
    'ft_in': ('#include "au/units/feet.hh"\n//--\n#include "au/units/inches.hh"', 'au::Feet', 'au::Inches'),
    'anon_ft_m': ('#include "au/units/feet.hh"\n//--\n#include "au/units/meters.hh"', 'decltype(au::Feet{} * au::mag<1250ULL>() / au::mag<1ULL>())', 'au::Meters'),     # 1250 ft = 381 m
}
XQUICK = [('i32', 'i32', 5000, 1, 'm127_in'), ('i32', 'i32', 1, 127, 'm5000th_in'), ('i64', 'i32', 12, 1, 'ft_in'), ('i32', 'i32', 381, 1, 'anon_ft_m')]


def obligations(tier, seed):
    obs = []
    insts = QUICK + XQUICK + (MORE if tier == 'thorough' else [])
    for k, inst in enumerate(insts):
        (R1, R2, N, D) = inst[:4]
        c1, c2 = G.ctype(R1), G.ctype(R2)
        CR = G.common(R1, R2); RT = G.promoted(CR)
        W = G.W_for(R1, R2, CR, RT)
        pre, u1, u2 = units(N, D) if len(inst) == 4 else XUNITS[inst[4]]
        tag = '%s_%s_%d_%d' % (R1, R2, N, D) + ('' if len(inst) == 4 else '_' + inst[4])
        q1 = 'au::make_quantity<%s>(a)' % u1; q2 = 'au::make_quantity<%s>(b)' % u2
        A = '((%s)a * %s)' % (W, G.lit_w(W, N)); B = '((%s)b * %s)' % (W, G.lit_w(W, D))
        fits = lambda e, r: '(%s >= %s && %s <= %s)' % (e, G.lit_w(W, G.tmin(r)), e, G.lit_w(W, G.tmax(r))) if W in ('i64', 'i128') \
            else '(%s <= %s)' % (e, G.lit_w(W, G.tmax(r)))
        grp = 'C08.%s' % tag
        # --- comparisons
        ws = [Wrapper('w_%s_%s' % (n, tag), 'bool', [(c1, 'a'), (c2, 'b')], 'return %s %s %s;' % (q1, op, q2)) for n, op in OPS]
        checks = '\n'.join('  CHECK(%s(a, b) == (%s %s %s), "%s-agrees-with-exact-rational-order");' % (w.name, A, op, B, n)
                           for w, (n, op) in zip(ws, OPS))
        body = '\n  ASSUME(%s && %s);\n%s\n' % (fits(A, CR), fits(B, CR), checks)
        twin = body.replace('%s < %s' % (A, B), '%s <= %s' % (A, B)) if k % 4 == 0 else None
        obs.append(Ob(id='C08.cmp.%s' % tag, prop='C08', group=grp, prelude=pre, wrappers=ws, inputs=[(c1, 'a'), (c2, 'b')], body=body, twin=twin,
                      contract='forall a:%s, b:%s with a*%d and b*%d in range(%s): (U1(a) op U2(b)) == (a*%d op b*%d) for op in == != < <= > >= (U1/U2 = %d/%d)'
                               % (c1, c2, N, D, G.ctype(CR), N, D, N, D),
                      functions_under_contract=('au::operator==,!=,<,<=,>,>=(Quantity<U1,R1>, Quantity<U2,R2>)', 'au::detail::using_common_type',
                                                'au::detail::cast_to_common_type')))
        # --- plus / minus
        rt = G.ctype(RT)
        cu = 'au::CommonUnitT<%s, %s>' % (u1, u2)
        wp = Wrapper('w_plus_' + tag, rt, [(c1, 'a'), (c2, 'b')], 'return (%s + %s).in(%s{});' % (q1, q2, cu))
        wm = Wrapper('w_minus_' + tag, rt, [(c1, 'a'), (c2, 'b')], 'return (%s - %s).in(%s{});' % (q1, q2, cu))
        if W in ('u64', 'u128'):
            body = '''
  ASSUME(%s && %s);
  if (%s) { %s s = %s(a, b); CHECK((%s)s == %s + %s, "sum-is-exact-in-common-unit"); }
  if (%s >= %s) { %s d = %s(a, b); CHECK((%s)d == %s - %s, "difference-is-exact-in-common-unit"); }
''' % (fits(A, CR), fits(B, CR), fits('(%s + %s)' % (A, B), RT), rt, wp.name, W, A, B, A, B, rt, wm.name, W, A, B)
        else:
            body = '''
  ASSUME(%s && %s);
  if (%s) { %s s = %s(a, b); CHECK((%s)s == %s + %s, "sum-is-exact-in-common-unit"); }
  if (%s) { %s d = %s(a, b); CHECK((%s)d == %s - %s, "difference-is-exact-in-common-unit"); }
''' % (fits(A, CR), fits(B, CR), fits('(%s + %s)' % (A, B), RT), rt, wp.name, W, A, B, fits('(%s - %s)' % (A, B), RT), rt, wm.name, W, A, B)
        obs.append(Ob(id='C08.addsub.%s' % tag, prop='C08', group=grp, prelude=pre, wrappers=[wp, wm], inputs=[(c1, 'a'), (c2, 'b')], body=body,
                      contract='forall a, b with a*%d, b*%d in range(%s): (U1(a) +/- U2(b)).in(common unit) == a*%d +/- b*%d whenever that fits %s; no UB:* in the closure'
                               % (N, D, G.ctype(CR), N, D, rt),
                      functions_under_contract=('au::operator+,-(Quantity<U1,R1>, Quantity<U2,R2>)',)))
        # --- modulo: each operand scaled in its own rep, then raw %
        MT = G.promoted(G.common(R1, R2)) if R1 != R2 else G.promoted(R1)
        mt = G.ctype(MT)
        wmod = Wrapper('w_mod_' + tag, mt, [(c1, 'a'), (c2, 'b')], 'return (%s %% %s).in(%s{});' % (q1, q2, cu))
        # the scaled operands are exact (precondition: they fit their own reps); the remainder is then taken by the raw
        # operator of the promoted common type, which is what the spec applies to the exactly scaled operands as well
        body = '''
  ASSUME(%s && %s && b != 0);
  %s m = %s(a, b);
  CHECK(m == (%s)((%s)%s %% (%s)%s), "remainder-is-raw-remainder-of-exactly-scaled-operands");
''' % (fits(A, R1), fits(B, R2), mt, wmod.name, mt, mt, A, mt, B)
        slow_mod = (R1 != R2 or R1 == 'i16')   # symbolic-divisor remainders across widths: two different dividers that no back end equated within 75 minutes;
        # they are covered by the bounded family below (mod-mixed-family) in both tiers and are not generated unbounded
        if slow_mod and (2147 * N <= G.tmax(R1) or N == 1) and (2147 * D <= G.tmax(R2) or D == 1) and not (G.REPS[R1]['signed'] != G.REPS[R2]['signed']):
            # STRUCTURAL obligation, unbounded: the remainder operator of the promoted common type is uninterpreted on both sides (-DLL2C_UF_DIV=1), so the claim is that the
            # library applies it once to the exactly scaled operands, for every meaning of %, hence the machine's; no two dividers have to be equated
            rem = 'LL2C_%sREM%d' % ('S' if G.REPS[MT]['signed'] else 'U', G.REPS[MT]['bits'])
            body_s = '''
  ASSUME(%s && %s && b != 0);
  %s m = %s(a, b);
  CHECK(m == (%s)%s((%s)%s, (%s)%s), "remainder-is-the-raw-remainder-operator-applied-to-the-exactly-scaled-operands");
''' % (fits(A, R1), fits(B, R2), mt, wmod.name, mt, rem, mt, A, mt, B)
            obs.append(Ob(id='C08.mod.%s' % tag, prop='C08', group=grp, prelude=pre, wrappers=[wmod], inputs=[(c1, 'a'), (c2, 'b')], body=body_s, budget=120, defs=('LL2C_UF_DIV=1',),
                          contract='forall a, b != 0 with a*%d in range(%s), b*%d in range(%s): (U1(a) %% U2(b)).in(common unit) is ONE application of the raw %% of %s to (a*%d, b*%d) '
                                   '(structural: the operator is uninterpreted on both sides; division by zero and INT_MIN %% -1 stay bit-precise assertions)'
                                   % (N, c1, D, c2, mt, N, D), functions_under_contract=('au::operator%(Quantity<U1,R1>, Quantity<U2,R2>)',)))
        if (2147 * N <= G.tmax(R1) or N == 1) and (2147 * D <= G.tmax(R2) or D == 1) and not (G.REPS[R1]['signed'] != G.REPS[R2]['signed']) \
                and not slow_mod:
            obs.append(Ob(id='C08.mod.%s' % tag, prop='C08', group=grp, prelude=pre, wrappers=[wmod], inputs=[(c1, 'a'), (c2, 'b')], body=body, budget=900 if slow_mod else 120,
                          contract='forall a, b != 0 with a*%d in range(%s), b*%d in range(%s): (U1(a) %% U2(b)).in(common unit) == (a*%d) %% (b*%d)'
                                   % (N, c1, D, c2, N, D), functions_under_contract=('au::operator%(Quantity<U1,R1>, Quantity<U2,R2>)',)))
        if R1 != R2 and not G.REPS[R1]['signed'] != G.REPS[R2]['signed'] and (2147 * N <= G.tmax(R1) or N == 1) and (2147 * D <= G.tmax(R2) or D == 1):
            # mixed-width %: a restricted family (16 divisors beyond the narrower rep's range, every dividend) that the SAT back ends decide quickly;
            # bounded stand-in for the thorough-tier obligation above, not counted as proved
            wide, narrow = (R2, R1) if G.REPS[R2]['bits'] > G.REPS[R1]['bits'] else (R1, R2)
            base = G.tmax(narrow) // (D if wide == R2 else N) + 1000
            var = 'b' if wide == R2 else 'a'
            if wide == R2 and G.REPS[wide]['bits'] > G.REPS[narrow]['bits'] and base * D <= G.tmax(wide) // 4:
                bodyf = '''
  ASSUME(%s >= %d && %s <= %d);
  ASSUME(%s && %s && b != 0);
  %s m = %s(a, b);
  CHECK(m == (%s)((%s)%s %% (%s)%s), "remainder-is-raw-remainder-of-exactly-scaled-operands");
''' % (var, base, var, base + 15, fits(A, R1), fits(B, R2), mt, wmod.name, mt, mt, A, mt, B)
                obs.append(Ob(id='C08.mod-mixed-family.%s' % tag, prop='C08', group=grp, prelude=pre, wrappers=[wmod], inputs=[(c1, 'a'), (c2, 'b')], body=bodyf, bounded=True,
                              contract='restricted family: %s in [%d, %d] (scaled value beyond range(%s)), every value of the other operand: mixed-width %% equals the raw %% of the '
                                       'exactly scaled operands' % (var, base, base + 15, G.ctype(narrow)), functions_under_contract=('au::operator%(Quantity<U1,R1>, Quantity<U2,R2>)',)))
        # --- C++20 three-way comparison agrees with the six operators
        if k % 3 == 0 or tier == 'thorough':
            w3 = Wrapper('w_spaceship_' + tag, 'int32_t', [(c1, 'a'), (c2, 'b')], 'auto c = (%s <=> %s); return c < 0 ? -1 : (c > 0 ? 1 : 0);' % (q1, q2))
            body = '''
  ASSUME(%s && %s);
  int32_t c = %s(a, b);
  CHECK(c == (%s < %s ? -1 : (%s > %s ? 1 : 0)), "three-way-comparison-agrees-with-exact-order");
''' % (fits(A, R1), fits(B, R2), w3.name, A, B, A, B)
            if (2147 * N <= G.tmax(R1) or N == 1) and (2147 * D <= G.tmax(R2) or D == 1) and R1 == R2:
                obs.append(Ob(id='C08.spaceship.%s' % tag, prop='C08', group=grp + '.20', prelude=pre, wrappers=[w3], inputs=[(c1, 'a'), (c2, 'b')],
                              body=body, std='c++20', contract='C++20: (U1(a) <=> U2(b)) is less/equal/greater exactly as a*%d vs b*%d' % (N, D),
                              functions_under_contract=('au::operator<=>(Quantity, Quantity)',)))
    # ---- the same operators through the overloads for Quantity-EQUIVALENT types (anything with a CorrespondingQuantity, here std::chrono::duration), both operand orders
    for (crep, per, k_d) in (('int64_t', 'std::milli', 1000), ('int32_t', 'std::ratio<60>', 60)):
        big = k_d > 1 and per != 'std::milli'
        # milli: duration unit is 1/1000 s (quantity scales by 1000); minutes: duration unit is 60 s (duration scales by 60)
        Dx = 'std::chrono::duration<%s, %s>{a}' % (crep, per); Qx = 'au::make_quantity<au::Seconds>(b)'
        Aexp, Bexp = ('(i128)a', '((i128)b * 1000)') if per == 'std::milli' else ('((i128)a * 60)', '(i128)b')
        X_ = 10 ** 9 if crep == 'int64_t' else 10 ** 6
        ws_ = []; checks_ = []
        for n, op in OPS:
            wl = Wrapper('w_ql_%s_%s' % (n, crep[:5] + per[-3:-1]), 'bool', [(crep, 'a'), (crep, 'b')], 'return %s %s %s;' % (Dx, op, Qx))
            wr = Wrapper('w_qr_%s_%s' % (n, crep[:5] + per[-3:-1]), 'bool', [(crep, 'a'), (crep, 'b')], 'return %s %s %s;' % (Qx, op, Dx))
            ws_ += [wl, wr]
            checks_.append('  CHECK(%s(a, b) == (%s %s %s), "quantity-like-on-the-left-%s");' % (wl.name, Aexp, op, Bexp, n))
            checks_.append('  CHECK(%s(a, b) == (%s %s %s), "quantity-like-on-the-right-%s");' % (wr.name, Bexp, op, Aexp, n))
        obs.append(Ob(id='C08.cmp-quantity-like.%s_%s' % (crep.replace('_t', ''), per.replace('std::', '').replace('<', '').replace('>', '')), prop='C08', group='C08.qlike.%s' % crep, 
                      prelude='#include <chrono>\n#include "au/chrono_interop.hh"\n#include "au/units/seconds.hh"', wrappers=ws_, inputs=[(crep, 'a'), (crep, 'b')],
                      body='\n  ASSUME(a >= -%d && a <= %d && b >= -%d && b <= %d);\n%s\n' % (X_, X_, X_ // 1000, X_ // 1000, '\n'.join(checks_)),
                      contract='forall bounded a, b: the six comparisons between a Quantity-equivalent value (std::chrono::duration<%s, %s>{a}) and seconds(b), in both operand orders, equal the exact '
                               'order of the two durations' % (crep, per), functions_under_contract=('au::operator==..>=(QLike, Quantity)', 'au::operator==..>=(Quantity, QLike)')))
    for (R1, R2, N, D) in (FP if tier == 'thorough' else FP[:3]):
        c1, c2 = G.ctype(R1), G.ctype(R2)
        CR = G.common(R1, R2); cr = G.ctype(CR)
        pre, u1, u2 = units(N, D)
        tag = '%s_%s_%d_%d' % (R1, R2, N, D)
        q1 = 'au::make_quantity<%s>(a)' % u1; q2 = 'au::make_quantity<%s>(b)' % u2
        cu = 'au::CommonUnitT<%s, %s>' % (u1, u2)
        sfx = 'f' if CR == 'f32' else ''
        bits = 'vf_f32_bits' if CR == 'f32' else 'vf_f64_bits'
        # the library's own conversion of each operand to the common unit in the common rep
        s1 = Wrapper('w_scale1_' + tag, cr, [(c1, 'a')], 'return au::rep_cast<%s>(au::make_quantity<%s>(a)).coerce_in(%s{});' % (cr, u1, cu))
        s2 = Wrapper('w_scale2_' + tag, cr, [(c2, 'b')], 'return au::rep_cast<%s>(au::make_quantity<%s>(b)).coerce_in(%s{});' % (cr, u2, cu))
        for (w, v, c, K) in ((s1, 'a', c1, N), (s2, 'b', c2, D)):
            body = '''
  %s r = %s(%s);
  %s e = (%s)%s * %d.0%s;
  CHECK(VF_ISNAN(e) ? VF_ISNAN(r) : %s(r) == %s(e), "operand-is-scaled-by-its-integer-factor");
''' % (cr, w.name, v, cr, cr, v, K, sfx, bits, bits)
            obs.append(Ob(id='C08.fp.callee-contract.%s.%s' % (w.name[2:8], tag), prop='C08', group='C08.fp.%s' % tag, prelude=pre, wrappers=[w],
                          inputs=[(c, v)], body=body, fp=True,
                          contract='forall bit patterns: converting the operand to the common unit multiplies it by %d in %s (bit-exact)' % (K, cr),
                          functions_under_contract=('au::detail::ApplyMagnitudeImpl<Mag, ..., %s, false>::operator()' % cr,)))
        ws = [Wrapper('w_%s_%s' % (n, tag), 'bool', [(c1, 'a'), (c2, 'b')], 'return %s %s %s;' % (q1, op, q2)) for n, op in OPS]
        wp = Wrapper('w_plus_' + tag, cr, [(c1, 'a'), (c2, 'b')], 'return (%s + %s).in(%s{});' % (q1, q2, cu))
        wm = Wrapper('w_minus_' + tag, cr, [(c1, 'a'), (c2, 'b')], 'return (%s - %s).in(%s{});' % (q1, q2, cu))
        # same-unit operators on the common quantity type (the callee the mixed-unit operator delegates to)
        sp = Wrapper('w_sameplus_' + tag, cr, [(cr, 'x'), (cr, 'y')], 'return (au::make_quantity<%s>(x) + au::make_quantity<%s>(y)).in(%s{});' % (cu, cu, cu))
        sm = Wrapper('w_sameminus_' + tag, cr, [(cr, 'x'), (cr, 'y')], 'return (au::make_quantity<%s>(x) - au::make_quantity<%s>(y)).in(%s{});' % (cu, cu, cu))
        for (w, op, nm) in ((sp, '+', 'plus'), (sm, '-', 'minus')):
            body = '''
  %s r = %s(x, y);
  %s e = x %s y;
  CHECK(VF_ISNAN(e) ? VF_ISNAN(r) : %s(r) == %s(e), "same-unit-operator-is-raw-operator");
''' % (cr, w.name, cr, op, bits, bits)
            obs.append(Ob(id='C08.fp.callee-contract.same%s.%s' % (nm, tag), prop='C08', group='C08.fp.%s' % tag, prelude=pre, wrappers=[w],
                          inputs=[(cr, 'x'), (cr, 'y')], body=body, fp=True,
                          contract='forall bit patterns: same-unit operator%s on Quantity<CommonUnit,%s> is the raw operator (bit-exact)' % (op, cr),
                          functions_under_contract=('au::operator%s(Quantity<U,R>, Quantity<U,R>)' % op,)))
        checks = '\n'.join('  CHECK(%s(a, b) == (A %s B), "%s-is-raw-operator-on-operands-in-common-unit");' % (w.name, op, n) for w, (n, op) in zip(ws, OPS))
        body = '''
  %s A = %s(a), B = %s(b);
  %s s = %s(a, b), d = %s(a, b);
  %s es = %s(A, B), ed = %s(A, B);
%s
  CHECK(VF_ISNAN(s) ? VF_ISNAN(es) : %s(s) == %s(es), "sum-is-same-unit-sum-in-common-unit");
  CHECK(VF_ISNAN(d) ? VF_ISNAN(ed) : %s(d) == %s(ed), "difference-is-same-unit-difference-in-common-unit");
''' % (cr, s1.name, s2.name, cr, wp.name, wm.name, cr, sp.name, sm.name, checks, bits, bits, bits, bits)
        from props.C05 import APPLY_FP
        obs.append(Ob(id='C08.fp.%s' % tag, prop='C08', group='C08.fp.%s' % tag, prelude=pre, wrappers=ws + [wp, wm, s1, s2, sp, sm], inputs=[(c1, 'a'), (c2, 'b')],
                      body=body, fp=True, abstract=(APPLY_FP, r'^_ZN2au(pl|mi)ENS_8QuantityI'),
                      contract='forall bit patterns a, b: comparisons, + and - equal the raw operator applied to the two operands converted to the common unit '
                               '(scaling step under its purity contract; its value is the callee-contract obligation)',
                      functions_under_contract=('au::operator==..>=,+,- (floating reps)',)))
    return obs
