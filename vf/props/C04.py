"""C04 -- same-rep runtime conversion checkers are exact (iff, both directions).  DESIGN.md section 5."""
from core import Ob, Wrapper
import grid as G
from math import gcd

LEVEL_NOTE = ('per (rep, N/D) instance of the stated grid, all stored values; integral reps: both checkers as an '
              'equality with the exact predicate; floating reps: the two implications of the property')


def instances(tier, seed):
    out = []
    for rep in G.INT_REPS:
        special = G.rep_special_factors(rep)
        lib = list(G.LIB_FACTORS)
        if tier == 'thorough':
            rnd = G.random_factors(rep, seed, 12)
        else:
            rnd = G.random_factors(rep, seed, 1)
            # quick: every boundary factor of every rep is kept; the library factors are thinned for the reps other than i32 / i64 / u8
            if rep not in ('i32', 'i64', 'u8'):
                lib = [f for i, f in enumerate(lib) if (i + seed) % 3 == 0]
        seen = set()
        for (n, d) in lib + special + rnd:
            if (n, d) in seen or not G.conv_compiles(rep, n, d): continue
            seen.add((n, d))
            out.append((rep, n, d))
    return out


def spec_ovf(rep, N, D, x='x'):
    T, P = rep, G.REPS[rep]['P']
    W = G.W_of(rep)
    prod = '((%s)%s * %s)' % (W, x, G.wlit(rep, N))
    if W in ('u64', 'u128'):
        c = ['!(%s <= %s)' % (prod, G.wlit(rep, G.tmax(P)))]
    else:
        c = ['!(%s >= %s && %s <= %s)' % (prod, G.wlit(rep, G.tmin(P)), prod, G.wlit(rep, G.tmax(P)))]
    c.append('%s > %s' % (prod, G.wlit(rep, G.tmax(T) * D)))
    if G.tmin(T) < 0:
        c.append('%s < %s' % (prod, G.wlit(rep, G.tmin(T) * D)))
    return '(' + ' || '.join(c) + ')'


def spec_trunc(rep, N, D, x='x'):
    """property-level predicate: value x N/D is not an integer, i.e. D does not divide x*N.  N/D is in lowest terms
    (gcd checked here), so by Euclid's lemma this is `D does not divide x` -- the form the solvers can decide."""
    assert gcd(N, D) == 1
    # D <= max(P) for every conversion that compiles, so the remainder can be taken in 64 bits
    if G.REPS[rep]['signed'] or G.REPS[rep]['bits'] < 32:
        assert D < (1 << 63)
        return '((((i64)%s) %% ((i64)%dLL)) != 0)' % (x, D)
    return '((((u64)%s) %% ((u64)%dULL)) != 0)' % (x, D)


def wrappers(rep, N, D):
    ct = G.ctype(rep)
    tag = '%s_%d_%d' % (rep, N, D)
    pre, u1, u2 = G.unit_prelude('m', N, D)
    mk = 'au::make_quantity<%s>(x)' % u1
    ws = {
        'ovf': Wrapper('w_ovf_' + tag, 'bool', [(ct, 'x')], 'return au::will_conversion_overflow(%s, %s{});' % (mk, u2)),
        'trunc': Wrapper('w_trunc_' + tag, 'bool', [(ct, 'x')], 'return au::will_conversion_truncate(%s, %s{});' % (mk, u2)),
        'lossy': Wrapper('w_lossy_' + tag, 'bool', [(ct, 'x')], 'return au::is_conversion_lossy(%s, %s{});' % (mk, u2)),
        'conv': Wrapper('w_conv_' + tag, ct, [(ct, 'x')], 'return %s.coerce_in(%s{});' % (mk, u2)),
        'conv_as': Wrapper('w_convas_' + tag, ct, [(ct, 'x')], 'return %s.coerce_as(%s{}).in(%s{});' % (mk, u2, u2)),
    }
    return pre, ws, tag


def make_twin(rep, N, D, body):
    """a contract that differs from the real one on at least one input (witness computed here), so it must be refuted"""
    T, P = rep, G.REPS[rep]['P']
    if D > 1 and D <= G.tmax(T):
        # truncation twin: claims x == D truncates
        st = spec_trunc(rep, N, D)
        return body.replace(st, '(%s || x == %d)' % (st, D))
    x0 = (G.tmax(T) * D) // N
    if N > 1 and 1 <= x0 <= G.tmax(T) and x0 * N <= G.tmax(P):
        # overflow twin: threshold lowered by N, so x0 = floor(max(T)*D/N) is wrongly called overflowing
        so = spec_ovf(rep, N, D)
        lim = G.wlit(rep, G.tmax(T) * D)
        assert so.count('> ' + lim) == 1
        return body.replace(so, so.replace('> ' + lim, '> ' + G.wlit(rep, G.tmax(T) * D - N)))
    st = spec_trunc(rep, N, D)
    return body.replace(st, '(%s && x != 1)' % st)


def obligations(tier, seed):
    from props.internal import c04_internal
    obs = fp_obligations(tier, seed) + c04_internal(tier)
    if tier == 'thorough':
        import os
        obs.append(Ob(id='C04.lemma.euclid', prop='C04', group='C04.lemma', prelude='', wrappers=[], inputs=[], body='', kind='S', budget=1800,
                      dfcc=dict(tool='lean', file=os.path.join(os.path.dirname(os.path.dirname(os.path.dirname(os.path.abspath(__file__)))), 'lemmas', 'Euclid.lean')),
                      contract="Euclid's lemma (gcd(D,N)=1 ==> (D | x*N <=> D | x)) and `x tmod D = 0 <=> D | x`, machine-checked by Lean 4 + Mathlib: justifies stating "
                               "'value x N/D is not an integer' as 'x % D != 0' in the C03/C04 contracts"))
    for k, (rep, N, D) in enumerate(instances(tier, seed)):
        ct = G.ctype(rep)
        pre, ws, tag = wrappers(rep, N, D)
        body = '''
  bool o = %s(x), t = %s(x), l = %s(x);
  CHECK(o == %s, "overflow-iff-exact-range");
  CHECK(t == %s, "truncate-iff-not-integer");
  CHECK(l == (o || t), "lossy-is-disjunction");
''' % (ws['ovf'].name, ws['trunc'].name, ws['lossy'].name, spec_ovf(rep, N, D), spec_trunc(rep, N, D))
        twin = make_twin(rep, N, D, body) if k % 7 == 0 else None
        obs.append(Ob(id='C04.int.%s' % tag, prop='C04', group='C04.%s' % rep, prelude=pre,
                      wrappers=[ws['ovf'], ws['trunc'], ws['lossy']], inputs=[(ct, 'x')], body=body, twin=twin,
                      contract='forall x:%s. will_conversion_overflow == (x*%d outside range(P) or x*%d/%d outside range(T)); '
                               'will_conversion_truncate == (%d does not divide x*%d); is_conversion_lossy == disjunction' % (ct, N, N, D, D, N),
                      functions_under_contract=('au::will_conversion_overflow', 'au::will_conversion_truncate', 'au::is_conversion_lossy')))
    return obs


FP_FACTORS = [(1000, 1), (1, 1000), (1250, 381), (381, 1250), (3600, 1), (1, 12), (1000000000000, 1), (1 << 40, 3)]


def fp_obligations(tier, seed):
    """floating reps: overflow is reported for every finite value whose scaled magnitude exceeds the largest finite value
    (contract: not reported ==> the product the conversion computes is finite) and never for values safely below it
    (contract: reported ==> the computed product is not below max * (1 - 2^-20) resp. (1 - 2^-49))."""
    obs = []
    for rep, ct, fin, big in (('f32', 'float', 'VF_ISFINITE_F32', '(FLT_MAX * (1.0f - 0x1p-20f))'),
                              ('f64', 'double', 'VF_ISFINITE_F64', '(DBL_MAX * (1.0 - 0x1p-49))')):
        fs = FP_FACTORS if tier == 'thorough' else FP_FACTORS[:4]
        for (N, D) in fs:
            tag = '%s_%d_%d' % (rep, N, D)
            pre, u1, u2 = G.unit_prelude('m', N, D)
            mk = 'au::make_quantity<%s>(x)' % u1
            wo = Wrapper('w_ovf_' + tag, 'bool', [(ct, 'x')], 'return au::will_conversion_overflow(%s, %s{});' % (mk, u2))
            wt = Wrapper('w_trunc_' + tag, 'bool', [(ct, 'x')], 'return au::will_conversion_truncate(%s, %s{});' % (mk, u2))
            wl = Wrapper('w_lossy_' + tag, 'bool', [(ct, 'x')], 'return au::is_conversion_lossy(%s, %s{});' % (mk, u2))
            wc = Wrapper('w_conv_' + tag, ct, [(ct, 'x')], 'return %s.coerce_in(%s{});' % (mk, u2))
            body = '''
  ASSUME(%s(x));
  %s k_lib = %s(1);                 /* the factor the library multiplies by (1 * k is exact) */
  %s edge = MAXF / k_lib;           /* the checker's own threshold fl(max / k) */
/*KF-EXCLUDE*/
  bool o = %s(x), t = %s(x), l = %s(x);
  %s p = %s(x);
  CHECK(o || %s(p), "not-reported-implies-product-finite");
  CHECK(!o || !(p <= %s && p >= -%s), "reported-only-near-or-beyond-the-limit");
  CHECK(!t, "floating-reps-never-truncate-by-convention");
  CHECK(l == (o || t), "lossy-is-disjunction");
''' % (fin, ct, wc.name, ct, wo.name, wt.name, wl.name, ct, wc.name, fin, big, big)
            body = body.replace('MAXF', 'FLT_MAX' if rep == 'f32' else 'DBL_MAX')
            obs.append(Ob(id='C04.fp.%s' % tag, prop='C04', group='C04.%s' % rep, prelude=pre, wrappers=[wo, wt, wl, wc], inputs=[(ct, 'x')],
                          body=body, fp=True,
                          contract='forall finite %s x. !will_conversion_overflow ==> x*k (as computed by the conversion) is finite; '
                                   'will_conversion_overflow ==> |x*k| is not below max*(1-2^-20 | 2^-49); is_conversion_lossy == disjunction' % ct,
                          functions_under_contract=('au::will_conversion_overflow', 'au::detail::OverflowChecker::would_product_overflow')))
    # supporting static fact shared with C11: the conversion factor's numerator / denominator is evaluated in the rep through get_value<T>; a prime above 2^63 must be
    # unrepresentable in every signed rep (it would otherwise wrap to a small negative number and every contract above would be about the wrong factor)
    BP = ('#include "au/magnitude.hh"\n#include <cstdint>\n#define VF_STATIC_FACT(c) static_assert(c, "VF_STATIC_FACT")\n' +
          '\n'.join('VF_STATIC_FACT(!au::representable_in<' + t + '>(au::mag<18446744073709551557ULL>()));' for t in ('int8_t', 'int16_t', 'int32_t', 'int64_t')) +
          '\nVF_STATIC_FACT(au::representable_in<uint64_t>(au::mag<18446744073709551557ULL>()));\n'
          'VF_STATIC_FACT(!au::representable_in<int64_t>(au::mag<18446744073709551557ULL>() * au::mag<18446744073709551533ULL>()));\n'
          'VF_STATIC_FACT(!au::representable_in<int32_t>(au::mag<7>() / au::mag<18446744073709551557ULL>()));\nint main() {}\n')
    obs.append(Ob(id='C04.static.prime-above-2-63-in-signed-rep', prop='C04', group='C04.static', prelude='', wrappers=[], inputs=[], body=BP, kind='S',
                  contract='static facts: mag<2^64-59>() is not representable in any signed rep (and is in uint64_t): the factor of a conversion is never a wrapped prime',
                  functions_under_contract=('au::representable_in / get_value (compile-time)',)))
    return obs
