"""C15 -- unit-aware math functions (rounding family, inverse, cmath wrappers).  DESIGN.md section 5."""
from core import Ob, Wrapper
import grid as G
from props.C05 import APPLY_FP

ASSUMPTIONS = ['"exact" in the rounding contracts is the value the library itself obtains by converting q to the rounding unit in the floating type std::round/floor/ceil work in '
               '(relational; "up to the rounding error of the floating type", as the property says); that conversion step is under its purity contract',
               'std::floor/ceil/round use CBMC\'s library models; sin cos tan asin acos atan atan2 sqrt cbrt hypot fmod remainder are trusted stubs: the wrapper is proved to call '
               'the function exactly once on the bit-exact value in the required unit and to return (a scaling of) its result; the libm function itself is assumed',
               'compile-time refusal of integral inversions with K < 10^6 is not decided']

PRE = ('#include "au/math.hh"\n#include "au/units/meters.hh"\n#include "au/units/feet.hh"\n#include "au/units/inches.hh"\n#include "au/units/seconds.hh"\n#include "au/units/hertz.hh"\n'
       '#include "au/units/degrees.hh"\n#include "au/units/radians.hh"')

INTEGRAL = {'f64': lambda r: '(%s >= 0x1p52 || %s <= -0x1p52 || (double)(int64_t)%s == %s)' % (r, r, r, r),
            'f32': lambda r: '(%s >= 0x1p23f || %s <= -0x1p23f || (float)(int32_t)%s == %s)' % (r, r, r, r)}


def obligations(tier, seed):
    obs = []
    # ---- rounding family: (source rep, rounding rep)
    for (rep, rr, u1, u2, tag) in (('i32', 'f64', 'au::Feet', 'au::Inches', 'i32_ft_in'), ('f64', 'f64', 'au::Inches', 'au::Feet', 'f64_in_ft'),
                                   ('f32', 'f32', 'au::Meters', 'au::Feet', 'f32_m_ft'), ('i64', 'f64', 'au::Inches', 'au::Feet', 'i64_in_ft')):
        if tier == 'quick' and tag == 'i64_in_ft': continue
        ct, cr = G.ctype(rep), G.ctype(rr)
        q = 'au::make_quantity<%s>(x)' % u1
        wv = Wrapper('w_v_' + tag, cr, [(ct, 'x')], 'return %s.coerce_in<%s>(%s{});' % (q, cr, u2))
        fin = 'VF_ISFINITE_F64' if rr == 'f64' else 'VF_ISFINITE_F32'
        one = '1.0' if rr == 'f64' else '1.0f'; half = '0.5' if rr == 'f64' else '0.5f'
        for fn, br in (('floor', 'r <= v && v < r + %s' % one), ('ceil', 'r - %s < v && v <= r' % one), ('round', 'r - v <= %s && v - r <= %s' % (half, half))):
            w = Wrapper('w_%s_%s' % (fn, tag), cr, [(ct, 'x')], 'return au::%s_in(%s{}, %s);' % (fn, u2, q))
            wa = Wrapper('w_%sas_%s' % (fn, tag), cr, [(ct, 'x')], 'return au::%s_as(%s{}, %s).in(%s{});' % (fn, u2, q, u2))
            bits = 'vf_f64_bits' if rr == 'f64' else 'vf_f32_bits'
            body = '''
  %s v = %s(x);
  ASSUME(%s(v) && v < LIM && v > -LIM);   /* below the point where the floating type has no fractional bits left */
  %s r = %s(x);
  CHECK(%s, "result-is-integral");
  CHECK(%s, "%s-brackets-the-exact-value");
  CHECK(%s(%s(x)) == %s(r), "%s_as-agrees-with-%s_in");
''' % (cr, wv.name, fin, cr, w.name, INTEGRAL[rr]('r'), br, fn, bits, wa.name, bits, fn, fn)
            body = body.replace('LIM', '0x1p51' if rr == 'f64' else '0x1p22f')
            obs.append(Ob(id='C15.%s.%s' % (fn, tag), prop='C15', group='C15.round.%s' % tag, prelude=PRE, wrappers=[wv, w, wa], inputs=[(ct, 'x')], body=body, fp=True,
                          abstract=(APPLY_FP,), budget=300,
                          contract='forall %s x with finite v = q.in<%s>(unit): %s_in(unit, q) is integral and satisfies %s; %s_as agrees' % (ct, cr, fn, br, fn),
                          functions_under_contract=('au::%s_in' % fn, 'au::%s_as' % fn)))
    # ---- inverse
    for rep in ('i32', 'i64'):
        ct = G.ctype(rep)
        qk = 'au::make_quantity<au::Kilo<au::Hertz>>(x)'
        w = Wrapper('w_inv_' + rep, ct, [(ct, 'x')], 'return au::inverse_in(au::nano(au::seconds), %s);' % qk)
        we = Wrapper('w_inve_' + rep, 'int64_t', [(ct, 'x')], 'return au::inverse_in<int64_t>(au::nano(au::seconds), %s);' % qk)
        wa = Wrapper('w_inva_' + rep, ct, [(ct, 'x')], 'return au::inverse_as(au::nano(au::seconds), %s).in(au::nano(au::seconds));' % qk)
        wrt = Wrapper('w_invrt_' + rep, ct, [(ct, 'x')], 'return au::inverse_in(au::kilo(au::hertz), au::inverse_as(au::nano(au::seconds), %s));' % qk)
        body = '''
  ASSUME(x != 0);
  CHECK((i128)%s(x) == (i128)1000000 / (i128)x, "inverse_in-is-trunc-K-over-x");
  CHECK((i128)%s(x) == (i128)1000000 / (i128)x, "inverse_in-explicit-rep-is-trunc-K-over-x");
  CHECK((i128)%s(x) == (i128)1000000 / (i128)x, "inverse_as-is-trunc-K-over-x");
  if (x >= 1 && x <= 1000) CHECK(%s(x) == x, "inverse-of-inverse-is-identity-up-to-1000");
''' % (w.name, we.name, wa.name, wrt.name)
        obs.append(Ob(id='C15.inverse.%s' % rep, prop='C15', group='C15.inverse', prelude=PRE, wrappers=[w, we, wa, wrt], inputs=[(ct, 'x')], body=body,
                      contract='forall x != 0: inverse_in/inverse_as(ns, kHz(x)) == trunc(10^6 / x) (K = 10^6 is the exact conversion constant); inverse(inverse(n)) == n for 1 <= n <= 1000; no UB:*',
                      functions_under_contract=('au::inverse_in', 'au::inverse_as')))
    # ---- inverse with a floating input and an explicit integral target rep: trunc(K / x) with the division done in the common (floating) type
    for (rep, tr) in (('f64', 'i32'), ('f32', 'i64')):
        ct, ctt = G.ctype(rep), G.ctype(tr)
        qh = 'au::make_quantity<au::Hertz>(x)'
        w = Wrapper('w_invfi_%s_%s' % (rep, tr), ctt, [(ct, 'x')], 'return au::inverse_in<%s>(au::micro(au::seconds), %s);' % (ctt, qh))
        wq = Wrapper('w_invff_%s' % rep, ct, [(ct, 'x')], 'return au::inverse_in<%s>(au::micro(au::seconds), %s);' % (ct, qh))
        half = '0.5' if rep == 'f64' else '0.5f'
        body = '''
  ASSUME(n >= 1 && n <= 1000);
  %s x = (%s)n + %s;     /* half-integers: exactly representable, and K/x is never within rounding distance of an integer unless it is one */
  CHECK((i64)%s(x) == (i64)2000000 / (2 * (i64)n + 1), "explicit-integral-rep-is-trunc-K-over-x");
''' % (ct, ct, half, w.name)
        obs.append(Ob(id='C15.inverse-float-to-int.%s_%s' % (rep, tr), prop='C15', group='C15.inversef', prelude=PRE, wrappers=[w], inputs=[('uint16_t', 'n')], body=body, fp=True, budget=300, bounded=True,
                      contract='for every half-integer x = n + 0.5, 1 <= n <= 1000 (as %s): inverse_in<%s>(us, hertz(x)) == trunc(10^6 / x) == floor(2*10^6 / (2n+1)) -- the division '
                               'happens in the common floating type and the cast comes last (a restricted input family: the full floating domain makes two IEEE dividers that no back end equates)' % (ct, ctt),
                      functions_under_contract=('au::inverse_in<TargetRep>',)))
        # the same claim for EVERY bit pattern, as a structural obligation: the floating division is uninterpreted on both sides
        lo, hi = ('-2147483649.0', '2147483648.0') if tr == 'i32' else ('-9223373136366403584.0f', '9223372036854775808.0f')
        fdiv = 'LL2C_FDIV64(1000000.0, x)' if rep == 'f64' else 'LL2C_FDIV32(1000000.0f, x)'
        body_s = '''
  ASSUME(%s == %s);    /* the uninterpreted * agrees with IEEE-754 at this one constant point (1 x 10^6, the library's conversion of the constant 1) */
  %s q = %s;
  ASSUME(q > %s && q < %s);    /* the raw cast (TargetRep)q is defined */
  CHECK(%s(x) == (%s)q, "explicit-integral-rep-is-the-cast-of-K-over-x-divided-in-the-common-floating-type");
''' % ((('LL2C_FMUL64(1.0, 1000000.0)', '1000000.0') if rep == 'f64' else ('LL2C_FMUL32(1.0f, 1000000.0f)', '1000000.0f')) + (ct, fdiv, lo, hi, w.name, ctt))
        obs.append(Ob(id='C15.inverse-float-to-int.structural.%s_%s' % (rep, tr), prop='C15', group='C15.inversef', prelude=PRE, wrappers=[w], inputs=[(ct, 'x')], body=body_s, fp=True, budget=300,
                      defs=('LL2C_UF_FP=1',),
                      contract='forall bit patterns x (%s) for which the cast is defined: inverse_in<%s>(us, hertz(x)) == (%s)(10^6 / x), ONE division in the common floating type applied to the '
                               'exact constant and the stored value, cast last (structural: / uninterpreted on both sides); no UB:*' % (ct, ctt, ctt),
                      functions_under_contract=('au::inverse_in<TargetRep>',)))
    # ---- trig / cmath wrappers against libm stubs
    for (rep, sfx) in (('f64', ''), ('f32', 'f')):
        ct = G.ctype(rep); bits = 'vf_f64_bits' if rep == 'f64' else 'vf_f32_bits'
        qd = 'au::make_quantity<au::Degrees>(x)'
        wrad = Wrapper('w_rad_' + rep, ct, [(ct, 'x')], 'return %s.coerce_in<%s>(au::Radians{});' % (qd, ct))
        for fn in ('sin', 'cos', 'tan'):
            w = Wrapper('w_%s_%s' % (fn, rep), ct, [(ct, 'x')], 'return au::%s(%s);' % (fn, qd))
            stub = 'll2c_stub_%s%s' % (fn, sfx)
            body = '''
  %s inrad = %s(x);
  int before = %s_calls;
  %s r = %s(x);
  CHECK(%s_calls == before + 1, "std-function-called-exactly-once");
  CHECK(VF_ISNAN(inrad) ? VF_ISNAN(%s_arg0) : %s(%s_arg0) == %s(inrad), "applied-to-the-value-in-radians");
  CHECK(%s(r) == %s(%s_ret), "returns-what-the-std-function-returned");
''' % (ct, wrad.name, stub, ct, w.name, stub, stub, bits, stub, bits, bits, bits, stub)
            obs.append(Ob(id='C15.trig.%s.%s' % (fn, rep), prop='C15', group='C15.trig.%s' % rep, prelude=PRE, wrappers=[wrad, w], inputs=[(ct, 'x')], body=body, fp=True,
                          abstract=(APPLY_FP,),
                          contract='au::%s(degrees(x)): std::%s is called exactly once, on q expressed in radians (the library\'s own conversion, bit for bit), and its value is returned' % (fn, fn),
                          functions_under_contract=('au::%s' % fn, 'au::detail::in_radians')))
        w = Wrapper('w_asin_' + rep, ct, [(ct, 'x')], 'return au::arcsin(x).in(au::Radians{});')
        stub = 'll2c_stub_asin%s' % sfx
        body = '''
  %s r = %s(x);
  CHECK(%s_calls == 1 && %s(%s_arg0) == %s(x), "std-asin-called-once-on-x");
  CHECK(%s(r) == %s(%s_ret), "result-is-its-value-in-radians");
''' % (ct, w.name, stub, bits, stub, bits, bits, bits, stub)
        obs.append(Ob(id='C15.trig.arcsin.%s' % rep, prop='C15', group='C15.trig.%s' % rep, prelude=PRE, wrappers=[w], inputs=[(ct, 'x')], body=body, fp=True,
                      contract='au::arcsin(x).in(radians) is std::asin(x), called once on x', functions_under_contract=('au::arcsin',)))
    # ---- two-argument cmath wrappers on mixed units (double): std function called once on both operands in the common unit (scaling step under its purity contract)
    for (fn, stubname) in (('hypot', 'hypot'), ('fmod', 'fmod'), ('remainder', 'remainder')):
        qa = 'au::make_quantity<au::Feet>(a)'; qb = 'au::make_quantity<au::Inches>(b)'; cu2 = 'au::CommonUnitT<au::Feet, au::Inches>'
        w = Wrapper('w_%s_f64' % fn, 'double', [('double', 'a'), ('double', 'b')], 'return au::%s(%s, %s).in(%s{});' % (fn, qa, qb, cu2))
        wa = Wrapper('w_%s_a' % fn, 'double', [('double', 'a')], 'return %s.coerce_in<double>(%s{});' % (qa, cu2))
        wb = Wrapper('w_%s_b' % fn, 'double', [('double', 'b')], 'return %s.coerce_in<double>(%s{});' % (qb, cu2))
        stub = 'll2c_stub_' + stubname
        body = '''
  double A = %s(a), B = %s(b);
  int before = %s_calls;
  double r = %s(a, b);
  CHECK(%s_calls == before + 1, "std-function-called-exactly-once");
  CHECK(VF_ISNAN(A) ? VF_ISNAN(%s_arg0) : vf_f64_bits(%s_arg0) == vf_f64_bits(A), "first-operand-in-the-common-unit");
  CHECK(VF_ISNAN(B) ? VF_ISNAN(%s_arg1) : vf_f64_bits(%s_arg1) == vf_f64_bits(B), "second-operand-in-the-common-unit");
  CHECK(vf_f64_bits(r) == vf_f64_bits(%s_ret), "result-is-its-value-in-the-common-unit");
''' % (wa.name, wb.name, stub, w.name, stub, stub, stub, stub, stub, stub)
        obs.append(Ob(id='C15.cmath2.%s.f64' % fn, prop='C15', group='C15.cmath2', prelude=PRE, wrappers=[w, wa, wb], inputs=[('double', 'a'), ('double', 'b')], body=body, fp=True,
                      abstract=(APPLY_FP,), contract='au::%s(feet(a), inches(b)).in(common unit): std::%s is called exactly once on both operands expressed in the common unit (bit for bit) '
                                                     'and its value is the result in that unit (libm function trusted)' % (fn, fn), functions_under_contract=('au::%s' % fn,)))
    # integral operands: both are converted to the common unit in the type std::fmod works in (double), NOT in their own rep
    wfi = Wrapper('w_fmod_u32', 'double', [('uint32_t', 'a'), ('uint32_t', 'b')], 'return au::fmod(au::make_quantity<au::Feet>(a), au::make_quantity<au::Inches>(b)).in(au::CommonUnitT<au::Feet, au::Inches>{});')
    wri = Wrapper('w_remainder_i32', 'double', [('int32_t', 'a'), ('int32_t', 'b')], 'return au::remainder(au::make_quantity<au::Feet>(a), au::make_quantity<au::Inches>(b)).in(au::CommonUnitT<au::Feet, au::Inches>{});')
    for (w, stub, cta, nm) in ((wfi, 'll2c_stub_fmod', 'uint32_t', 'fmod.u32'), (wri, 'll2c_stub_remainder', 'int32_t', 'remainder.i32')):
        body = '''
  double r = %s(a, b);
  CHECK(%s_calls == 1, "std-function-called-exactly-once");
  CHECK(%s_arg0 == (double)a * 12.0, "first-operand-scaled-in-double-not-in-its-own-rep");
  CHECK(%s_arg1 == (double)b, "second-operand-in-double");
  CHECK(vf_f64_bits(r) == vf_f64_bits(%s_ret), "result-is-its-value-in-the-common-unit");
''' % (w.name, stub, stub, stub, stub)
        obs.append(Ob(id='C15.cmath2.%s' % nm, prop='C15', group='C15.cmath2i', prelude=PRE, wrappers=[w], inputs=[(cta, 'a'), (cta, 'b')], body=body, fp=True,
                      contract='%s(feet(a), inches(b)) with 32-bit integral reps, all values: std function called once on (double)a*12 and (double)b (exact in double: the operands '
                               'are converted in the floating type, so nothing wraps in the 32-bit rep)' % nm, functions_under_contract=('au::' + nm.split('.')[0],)))
    # two-argument wrappers with DIFFERENT reps, same unit: the std function of the PROMOTED pair is called (std::hypot(float, double) is the double overload), each operand converted, not narrowed
    for (fn, stubname) in (('hypot', 'hypot'), ('fmod', 'fmod'), ('remainder', 'remainder')):
        for (r1, r2) in (('f32', 'f64'), ('f64', 'f32')) + ((('i32', 'f64'),) if fn == 'hypot' else ()):
            c1, c2 = G.ctype(r1), G.ctype(r2)
            w = Wrapper('w_%s_mr_%s_%s' % (fn, r1, r2), 'double', [(c1, 'a'), (c2, 'b')], 'return au::%s(au::make_quantity<au::Feet>(a), au::make_quantity<au::Feet>(b)).in(au::Feet{});' % fn)
            stub = 'll2c_stub_' + stubname
            body = '''
  int before = %s_calls;
  double r = %s(a, b);
  CHECK(%s_calls == before + 1, "the-double-overload-of-the-std-function-is-called-exactly-once");
  CHECK(VF_ISNAN((double)a) ? VF_ISNAN(%s_arg0) : vf_f64_bits(%s_arg0) == vf_f64_bits((double)a), "first-operand-converted-to-double-not-narrowed");
  CHECK(VF_ISNAN((double)b) ? VF_ISNAN(%s_arg1) : vf_f64_bits(%s_arg1) == vf_f64_bits((double)b), "second-operand-converted-to-double-not-narrowed");
  CHECK(vf_f64_bits(r) == vf_f64_bits(%s_ret), "result-is-its-value");
''' % (stub, w.name, stub, stub, stub, stub, stub, stub)
            obs.append(Ob(id='C15.cmath2.%s.mixedrep.%s_%s' % (fn, r1, r2), prop='C15', group='C15.cmath2mr', prelude=PRE, wrappers=[w], inputs=[(c1, 'a'), (c2, 'b')], body=body, fp=True,
                          contract='au::%s(feet((%s)a), feet((%s)b)): the double overload of std::%s is called exactly once on ((double)a, (double)b) and its value is the result in feet '
                                   '(neither operand is narrowed to the other\'s rep)' % (fn, c1, c2, fn), functions_under_contract=('au::' + fn,)))
    # isnan / copysign
    wn = Wrapper('w_isnan_f64', 'bool', [('double', 'a')], 'return au::isnan(au::make_quantity<au::Feet>(a));')
    wnp = Wrapper('w_isnan_pt_f32', 'bool', [('float', 'c')], 'return au::isnan(au::make_quantity_point<au::Feet>(c));')
    wcs = Wrapper('w_copysign_qq', 'double', [('double', 'a'), ('double', 'b')], 'return au::copysign(au::make_quantity<au::Feet>(a), au::make_quantity<au::Seconds>(b)).in(au::Feet{});')
    body = '''
  CHECK(w_isnan_f64(a) == VF_ISNAN(a), "isnan-on-a-quantity-is-raw-isnan");
  CHECK(w_isnan_pt_f32(c) == VF_ISNAN(c), "isnan-on-a-point-is-raw-isnan");
  double r = w_copysign_qq(a, b);
  CHECK((vf_f64_bits(r) & 0x7fffffffffffffffULL) == (vf_f64_bits(a) & 0x7fffffffffffffffULL), "copysign-keeps-the-magnitude-bits");
  CHECK((vf_f64_bits(r) >> 63) == (vf_f64_bits(b) >> 63), "copysign-takes-the-sign-of-the-second-operand");
'''
    obs.append(Ob(id='C15.isnan-copysign', prop='C15', group='C15.cmath1', prelude=PRE, wrappers=[wn, wnp, wcs], inputs=[('double', 'a'), ('double', 'b'), ('float', 'c')], body=body, fp=True,
                  contract='isnan(q), isnan(p) equal the raw isnan; copysign(feet(a), seconds(b)) has a\'s magnitude bits and b\'s sign bit, in feet',
                  functions_under_contract=('au::isnan', 'au::copysign')))
    # abs on floating reps: std::abs clears the sign bit and nothing else (also for -0.0 and for NaNs), for every bit pattern
    for rep in ('f64', 'f32'):
        ctf = G.ctype(rep); bitsf = 'vf_f64_bits' if rep == 'f64' else 'vf_f32_bits'; mask = '0x7fffffffffffffffULL' if rep == 'f64' else '0x7fffffffu'
        wabsf = Wrapper('w_abs_' + rep, ctf, [(ctf, 'a')], 'return au::abs(au::make_quantity<au::Feet>(a)).in(au::Feet{});')
        obs.append(Ob(id='C15.abs.%s' % rep, prop='C15', group='C15.cmath1', prelude=PRE, wrappers=[wabsf], inputs=[(ctf, 'a')], fp=True,
                      body='\n  CHECK(%s(%s(a)) == (%s(a) & %s), "abs-is-std-abs-the-sign-bit-is-cleared-and-nothing-else-changes");\n' % (bitsf, wabsf.name, bitsf, mask),
                      contract='forall bit patterns a (%s): abs(feet(a)).in(feet) is std::abs(a): a with the sign bit cleared (also -0.0 -> +0.0 and NaNs)' % ctf,
                      functions_under_contract=('au::abs',)))
    # ---- min / max / clamp / abs on quantities (integral, mixed units): equal to the operation on exactly scaled values in the common unit
    ct = 'int32_t'
    qa = 'au::make_quantity<au::Feet>(a)'; qb = 'au::make_quantity<au::Inches>(b)'; cu = 'au::CommonUnitT<au::Feet, au::Inches>'
    wmax = Wrapper('w_max', ct, [(ct, 'a'), (ct, 'b')], 'return au::max(%s, %s).in(%s{});' % (qa, qb, cu))
    wmin = Wrapper('w_min', ct, [(ct, 'a'), (ct, 'b')], 'return au::min(%s, %s).in(%s{});' % (qa, qb, cu))
    wabs = Wrapper('w_abs', ct, [(ct, 'a')], 'return au::abs(%s).in(au::Feet{});' % qa)
    wcl = Wrapper('w_clamp', ct, [(ct, 'a'), (ct, 'b'), (ct, 'c')], 'return au::clamp(%s, %s, au::make_quantity<au::Inches>(c)).in(%s{});' % (qa, qb, cu))
    body = '''
  ASSUME(FITS(i32, (i64)a * 12));
  i64 A = (i64)a * 12, B = b;
  CHECK((i64)w_max(a, b) == (A > B ? A : B), "max-in-common-unit");
  CHECK((i64)w_min(a, b) == (A < B ? A : B), "min-in-common-unit");
  if (a != INT32_MIN) CHECK((i64)w_abs(a) == (a < 0 ? -(i64)a : (i64)a), "abs-is-raw-abs");
  if (b <= c) CHECK((i64)w_clamp(a, b, c) == (A < B ? B : (A > c ? (i64)c : A)), "clamp-in-common-unit");
'''
    # clamp / min / max with DIFFERENT reps: the result lives in the common rep of all operands
    wclm = Wrapper('w_clamp_mixed', 'int64_t', [('int32_t', 'a'), ('int32_t', 'b'), ('int64_t', 'c')],
                   'return au::clamp(au::make_quantity<au::Feet>(a), au::make_quantity<au::Feet>(b), au::make_quantity<au::Inches>(c)).in(%s{});' % cu)
    wclm2 = Wrapper('w_clamp_mixed_lo', 'int64_t', [('int32_t', 'a'), ('int64_t', 'b'), ('int32_t', 'c')],
                    'return au::clamp(au::make_quantity<au::Feet>(a), au::make_quantity<au::Inches>(b), au::make_quantity<au::Feet>(c)).in(%s{});' % cu)
    wmaxm = Wrapper('w_max_mixed', 'int64_t', [('int32_t', 'a'), ('int64_t', 'c')], 'return au::max(au::make_quantity<au::Feet>(a), au::make_quantity<au::Inches>(c)).in(%s{});' % cu)
    wminm = Wrapper('w_min_mixed', 'int64_t', [('int64_t', 'c'), ('int32_t', 'a')], 'return au::min(au::make_quantity<au::Inches>(c), au::make_quantity<au::Feet>(a)).in(%s{});' % cu)
    bodym = '''
  ASSUME(c >= -1000000000000LL && c <= 1000000000000LL);
  i64 A = (i64)a * 12, B = (i64)b * 12, C = c;
  if (B <= C) CHECK((i64)w_clamp_mixed(a, b, c) == (A < B ? B : (A > C ? C : A)), "clamp-with-a-wider-upper-bound-rep");
  CHECK((i64)w_max_mixed(a, c) == (A > C ? A : C), "max-with-mixed-reps");
  CHECK((i64)w_min_mixed(c, a) == (A < C ? A : C), "min-with-mixed-reps");
'''
    obs.append(Ob(id='C15.minmax-mixedrep', prop='C15', group='C15.minmax', prelude=PRE, wrappers=[wclm, wmaxm, wminm], inputs=[('int32_t', 'a'), ('int32_t', 'b'), ('int64_t', 'c')],
                  body=bodym, contract='forall a, b: int32 feet, c: int64 inches (|c| <= 10^12): clamp(v, lo, hi), max, min with a wider rep on one operand equal the operation on '
                                       'the exactly scaled values in the common unit AND the common rep (int64)', functions_under_contract=('au::clamp', 'au::max', 'au::min')))
    bodym2 = '''
  ASSUME(b >= -1000000000000LL && b <= 1000000000000LL);
  i64 A = (i64)a * 12, B = b, C = (i64)c * 12;
  if (B <= C) CHECK((i64)w_clamp_mixed_lo(a, b, c) == (A < B ? B : (A > C ? C : A)), "clamp-with-a-wider-lower-bound-rep");
'''
    obs.append(Ob(id='C15.clamp-mixedrep-lo', prop='C15', group='C15.minmax', prelude=PRE, wrappers=[wclm2], inputs=[('int32_t', 'a'), ('int64_t', 'b'), ('int32_t', 'c')],
                  body=bodym2, contract='clamp with the wider rep on the lower bound: result in the common rep', functions_under_contract=('au::clamp',)))
    obs.append(Ob(id='C15.minmax.i32_ft_in', prop='C15', group='C15.minmax', prelude=PRE, wrappers=[wmax, wmin, wabs, wcl], inputs=[(ct, 'a'), (ct, 'b'), (ct, 'c')], body=body,
                  contract='forall a (feet), b, c (inches) with a*12 in range: max/min/clamp equal the operation on the exactly scaled values in the common unit (inches); abs is raw abs',
                  functions_under_contract=('au::max', 'au::min', 'au::clamp', 'au::abs')))
    # ---- negative compile probes: programs the property says are REJECTED must be rejected by the library's own guard (supporting static facts, decided by the compilers)
    NHDR = '#include "au/au.hh"\n#include "au/units/feet.hh"\n#include "au/units/inches.hh"\n#include "au/units/meters.hh"\n#include "au/units/seconds.hh"\n#include "au/units/hertz.hh"\n#include "au/units/percent.hh"\n#include "au/units/celsius.hh"\n#include "au/units/kelvins.hh"\nusing namespace au;\n'
    for (nm_, expr_, rx_) in [('inverse-as-small-K', 'inverse_as(seconds, hertz(5))', 'Dangerous inversion'), ('inverse-in-small-K', 'inverse_in(milli(seconds), hertz(5))', 'Dangerous inversion')]:
        obs.append(Ob(id='C15.static.rejects.' + nm_, prop='C15', group='C15.static', prelude='', wrappers=[], inputs=[], kind='S',
                      body=NHDR + 'int main() { auto vf_x = ' + expr_ + '; (void)vf_x; }\n', dfcc=dict(expect='reject', match=rx_),
                      contract='must not compile: `' + expr_ + '` (integral inversions with K < 10^6 are refused at compile time; diagnostic /' + rx_ + '/)',
                      functions_under_contract=('compile-time guard',)))
    return obs
