"""Arithmetic lemmas behind the C11 exactness obligation for checked_int_pow<uint64_t> (terms: vf/lemma.py; proofs: Lean 4 + Mathlib)."""
import os
from lemma import *

MAX = W - 1
v, b, e, b0, e0 = V('v'), V('b'), V('e'), V('b0'), V('e0')

cp_init = Lemma('cp_init', ['b0', 'e0'], TRUE, PApp('poweq', 1, b0, e0, b0, e0),
                proof=r'''  unfold specp_poweq; ring''', doc='1 * b0^e0 = b0^e0')
cp_exit = Lemma('cp_exit', ['v', 'b', 'b0', 'e0'], PApp('poweq', v, b, 0, b0, e0),
                And(PApp('powfits', b0, e0), eq(App('pow', b0, e0), v)),
                proof=r'''  unfold specp_poweq at hyp
  rw [pow_zero, Nat.mul_one] at hyp
  unfold specp_powfits spec_pow
  rw [← hyp]
  exact ⟨hW_v, Nat.mod_eq_of_lt hW_v⟩''', doc='exit: v * b^0 = b0^e0 means b0^e0 = v fits')
_odd = eq(urem(e, 2), 1); _err1 = And(_odd, udiv(K(MAX), v) < b)
_v1 = Ite(_odd, umul(v, b), v); _e1 = udiv(e, 2); _big = udiv(K(MAX), b) < b; _bb = umul(b, b)
cp_step = Lemma('cp_step', ['v', 'b', 'e', 'b0', 'e0'], And(K(1) <= v, K(1) <= b, K(0) < e, PApp('poweq', v, b, e, b0, e0)),
                And(Imp(_err1, Not(PApp('powfits', b0, e0))),
                    Imp(Not(_err1), And(Imp(_odd, Not(umulovf(v, b))), K(1) <= _v1,
                                        Imp(And(_big, eq(_e1, 0)), And(PApp('powfits', b0, e0), eq(App('pow', b0, e0), _v1))),
                                        Imp(And(_big, ne(_e1, 0)), Not(PApp('powfits', b0, e0))),
                                        Imp(Not(_big), And(Not(umulovf(b, b)), K(1) <= _bb, PApp('poweq', _v1, _bb, _e1, b0, e0)))))),
                proof=r'''  obtain ⟨hv, hb, he, hpe⟩ := hyp
  unfold specp_poweq at hpe
  unfold specp_powfits specp_poweq spec_pow
  have hWv : W = 18446744073709551616 := rfl
  have hsplit := pow_split b e
  refine ⟨?_, ?_⟩
  · rintro ⟨hodd, hbig⟩
    have := cp_err1_core v b e (b0 ^ e0) hv hb hpe hodd hbig
    omega
  · intro hne
    rcases Nat.mod_two_eq_zero_or_one e with hev | hodd
    · -- e even: no multiplication, v1 = v
      have hif : (if e % 2 = 1 then v * b % W else v) = v := by simp [hev]
      simp only [hif]
      have hP : v * (b * b) ^ (e / 2) = b0 ^ e0 := by rw [← hpe, hsplit, hev]; simp
      have hk : 0 < e / 2 := by omega
      refine ⟨by intro h; omega, hv, ?_, ?_, ?_⟩
      · rintro ⟨_, h0⟩; omega
      · rintro ⟨hbig, _⟩
        have := cp_big_core v b (e / 2) (b0 ^ e0) hv hb hP hk hbig
        omega
      · intro hnb
        have hbb : b * b < W := div_ge_imp_mul_le b b hb hnb
        have ebb : b * b % W = b * b := Nat.mod_eq_of_lt hbb
        rw [ebb]
        exact ⟨by omega, by nlinarith, hP⟩
    · -- e odd: v1 = v * b
      have hnb1 : ¬ 18446744073709551615 / v < b := fun h => hne ⟨hodd, h⟩
      have hvb : v * b < W := div_ge_imp_mul_le v b hv hnb1
      have evb : v * b % W = v * b := Nat.mod_eq_of_lt hvb
      have hif : (if e % 2 = 1 then v * b % W else v) = v * b := by simp [hodd, evb]
      simp only [hif]
      have hP : (v * b) * (b * b) ^ (e / 2) = b0 ^ e0 := by rw [← hpe, hsplit, hodd]; ring
      have hv1 : 1 ≤ v * b := by nlinarith
      refine ⟨by intro _; omega, hv1, ?_, ?_, ?_⟩
      · rintro ⟨_, h0⟩
        rw [h0, pow_zero, Nat.mul_one] at hP
        rw [← hP]
        exact ⟨hvb, Nat.mod_eq_of_lt hvb⟩
      · rintro ⟨hbig, hk0⟩
        have := cp_big_core (v * b) b (e / 2) (b0 ^ e0) hv1 hb hP (Nat.pos_of_ne_zero hk0) hbig
        omega
      · intro hnb
        have hbb : b * b < W := div_ge_imp_mul_le b b hb hnb
        have ebb : b * b % W = b * b := Nat.mod_eq_of_lt hbb
        rw [ebb]
        exact ⟨by omega, by nlinarith, hP⟩''',
                doc='checked_int_pow loop body from a state with value * base^exp = base0^exp0, value >= 1, base >= 1, exp > 0: the first guard fires only if base0^exp0 does not fit; '
                    'otherwise value*base does not wrap; if base*base does not fit, the answer is value1 when exp/2 == 0 and "cannot fit" is right otherwise; else the invariant is re-established')
CHECKED_POW = [cp_init, cp_step, cp_exit]
CHECKED_POW_PRELUDE = open(os.path.join(os.path.dirname(__file__), '..', '..', 'lemmas', 'checked_pow_core.lean')).read()

# ---------------------------------------------------------------------------------------------------------------- checked_int_pow<intmax_t> (base >= 1)
MAX63 = (1 << 63) - 1
def _one_le(t): return sle(1, t, 64)
cps_init = Lemma('cps_init', ['b0', 'e0'], TRUE, PApp('spoweq', 1, b0, e0, b0, e0),
                 proof=r'''  unfold specp_spoweq
  have s1 : sval 64 1 = 1 := by norm_num [sval]
  rw [s1]; ring''', doc='1 * b0^e0 = b0^e0 (two\'s-complement reading)')
cps_exit = Lemma('cps_exit', ['v', 'b', 'b0', 'e0'], PApp('spoweq', v, b, 0, b0, e0),
                 And(PApp('spowfits', b0, e0), eq(App('spow', b0, e0), v)),
                 proof=r'''  unfold specp_spoweq at hyp
  rw [pow_zero, Int.mul_one] at hyp
  unfold specp_spowfits spec_spow
  rw [← hyp]
  have hr := sval_range v hW_v
  refine ⟨hr.2, ?_⟩
  rw [enc_sval v hW_v]
  exact Nat.mod_eq_of_lt hW_v''', doc='exit: v * b^0 = b0^e0 means b0^e0 = v, which fits')
_sodd = eq(urem(e, 2), 1); _serr1 = And(_sodd, slt(sdiv(K(MAX63), v, 64), b, 64))
_sv1 = Ite(_sodd, smul(v, b), v); _se1 = udiv(e, 2); _sbig = slt(sdiv(K(MAX63), b, 64), b, 64); _sbb = smul(b, b)
cps_step = Lemma('cps_step', ['v', 'b', 'e', 'b0', 'e0'], And(_one_le(v), _one_le(b), K(0) < e, PApp('spoweq', v, b, e, b0, e0)),
                 And(Imp(_serr1, Not(PApp('spowfits', b0, e0))),
                     Imp(Not(_serr1), And(Imp(_sodd, Not(smulovf(v, b))), _one_le(_sv1),
                                          Imp(And(_sbig, eq(_se1, 0)), And(PApp('spowfits', b0, e0), eq(App('spow', b0, e0), _sv1))),
                                          Imp(And(_sbig, ne(_se1, 0)), Not(PApp('spowfits', b0, e0))),
                                          Imp(Not(_sbig), And(Not(smulovf(b, b)), _one_le(_sbb), PApp('spoweq', _sv1, _sbb, _se1, b0, e0)))))),
                 proof=r'''  obtain ⟨hv, hb, he, hpe⟩ := hyp
  have s1 : sval 64 1 = 1 := by norm_num [sval]
  have smax : sval 64 9223372036854775807 = 9223372036854775807 := by norm_num [sval]
  rw [s1] at hv hb
  simp only [s1, smax]
  unfold specp_spoweq at hpe
  unfold specp_spowfits specp_spoweq spec_spow
  have hVr := sval_range v hW_v
  have hBr := sval_range b hW_b
  have d1lo : (0 : Int) ≤ Int.tdiv 9223372036854775807 (sval 64 v) := Int.tdiv_nonneg (by norm_num) (by omega)
  have d1hi : Int.tdiv 9223372036854775807 (sval 64 v) ≤ 9223372036854775807 := by
    rw [Int.tdiv_eq_ediv_of_nonneg (by norm_num)]; exact Int.ediv_le_self _ (by norm_num)
  have d2lo : (0 : Int) ≤ Int.tdiv 9223372036854775807 (sval 64 b) := Int.tdiv_nonneg (by norm_num) (by omega)
  have d2hi : Int.tdiv 9223372036854775807 (sval 64 b) ≤ 9223372036854775807 := by
    rw [Int.tdiv_eq_ediv_of_nonneg (by norm_num)]; exact Int.ediv_le_self _ (by norm_num)
  have e1 : sval 64 (enc 64 (Int.tdiv 9223372036854775807 (sval 64 v))) = Int.tdiv 9223372036854775807 (sval 64 v) :=
    sval_enc 64 (by norm_num) _ (by norm_num; omega) (by norm_num; omega)
  have e2 : sval 64 (enc 64 (Int.tdiv 9223372036854775807 (sval 64 b))) = Int.tdiv 9223372036854775807 (sval 64 b) :=
    sval_enc 64 (by norm_num) _ (by norm_num; omega) (by norm_num; omega)
  simp only [e1, e2]
  have g1 := iguard_iff (sval 64 v) (sval 64 b) hv
  have g2 := iguard_iff (sval 64 b) (sval 64 b) hb
  rw [g1, g2]
  have hsplit := ipow_split (sval 64 b) e
  refine ⟨?_, ?_⟩
  · rintro ⟨hodd, hbig⟩
    have := icp_err1_core (sval 64 v) (sval 64 b) _ e hv hb hpe hodd hbig
    omega
  · intro hne
    rcases Nat.mod_two_eq_zero_or_one e with hev | hodd
    · have hif : (if e % 2 = 1 then enc 64 (sval 64 v * sval 64 b) else v) = v := by simp [hev]
      simp only [hif]
      have hP : sval 64 v * (sval 64 b * sval 64 b) ^ (e / 2) = sval 64 b0 ^ e0 := by rw [← hpe, hsplit, hev]; simp
      have hk : 0 < e / 2 := by omega
      refine ⟨by intro h; omega, hv, ?_, ?_, ?_⟩
      · rintro ⟨_, h0⟩; omega
      · rintro ⟨hbig, _⟩
        have := icp_big_core (sval 64 v) (sval 64 b) _ (e / 2) hv hb hP hk hbig
        omega
      · intro hnb
        have hbb : sval 64 b * sval 64 b ≤ 9223372036854775807 := by omega
        have hbb1 : 1 ≤ sval 64 b * sval 64 b := by nlinarith
        have ebb : sval 64 (enc 64 (sval 64 b * sval 64 b)) = sval 64 b * sval 64 b :=
          sval_enc 64 (by norm_num) _ (by norm_num; omega) (by norm_num; omega)
        rw [ebb]
        exact ⟨by omega, hbb1, hP⟩
    · have hnb1 : ¬ 9223372036854775807 < sval 64 v * sval 64 b := fun h => hne ⟨hodd, h⟩
      have hvb : sval 64 v * sval 64 b ≤ 9223372036854775807 := by omega
      have hvb1 : 1 ≤ sval 64 v * sval 64 b := by nlinarith
      have evb : sval 64 (enc 64 (sval 64 v * sval 64 b)) = sval 64 v * sval 64 b :=
        sval_enc 64 (by norm_num) _ (by norm_num; omega) (by norm_num; omega)
      have hif : (if e % 2 = 1 then enc 64 (sval 64 v * sval 64 b) else v) = enc 64 (sval 64 v * sval 64 b) := by simp [hodd]
      simp only [hif, evb]
      have hP : (sval 64 v * sval 64 b) * (sval 64 b * sval 64 b) ^ (e / 2) = sval 64 b0 ^ e0 := by rw [← hpe, hsplit, hodd]; ring
      refine ⟨by intro _; omega, hvb1, ?_, ?_, ?_⟩
      · rintro ⟨_, h0⟩
        rw [h0, pow_zero, Int.mul_one] at hP
        rw [← hP]
        exact ⟨by omega, Nat.mod_eq_of_lt (enc_lt _)⟩
      · rintro ⟨hbig, hk0⟩
        have := icp_big_core (sval 64 v * sval 64 b) (sval 64 b) _ (e / 2) hvb1 hb hP (Nat.pos_of_ne_zero hk0) hbig
        omega
      · intro hnb
        have hbb : sval 64 b * sval 64 b ≤ 9223372036854775807 := by omega
        have hbb1 : 1 ≤ sval 64 b * sval 64 b := by nlinarith
        have ebb : sval 64 (enc 64 (sval 64 b * sval 64 b)) = sval 64 b * sval 64 b :=
          sval_enc 64 (by norm_num) _ (by norm_num; omega) (by norm_num; omega)
        rw [ebb]
        exact ⟨by omega, hbb1, hP⟩''',
                 doc='checked_int_pow<intmax_t> loop body, two\'s-complement reading, from a state with value * base^exp = base0^exp0, value >= 1, base >= 1, exp > 0: same statement as cp_step with '
                     'signed division, comparison and multiplication')
CHECKED_POW_SIGNED = [cps_init, cps_step, cps_exit]
CHECKED_POW_SIGNED_PRELUDE = open(os.path.join(os.path.dirname(__file__), '..', '..', 'lemmas', 'checked_pow_signed_core.lean')).read() + r'''
theorem sval_range (x : Nat) (hx : x < W) : (-9223372036854775808 : Int) ≤ sval 64 x ∧ sval 64 x < 9223372036854775808 := by
  unfold sval W at *
  by_cases h : x < 2 ^ (64 - 1)
  · simp only [h, if_true]
    have h' : x < 9223372036854775808 := by norm_num at h; exact h
    have : (x : Int) < 9223372036854775808 := by exact_mod_cast h'
    omega
  · simp only [h, if_false]
    have h' : 9223372036854775808 ≤ x := by norm_num at h; exact h
    have h1 : (9223372036854775808 : Int) ≤ (x : Int) := by exact_mod_cast h'
    have h2 : (x : Int) < 18446744073709551616 := by exact_mod_cast hx
    norm_num
    omega

theorem enc_lt (z : Int) : enc 64 z < W := by
  unfold enc W
  have h1 : 0 ≤ z % 2 ^ 64 := Int.emod_nonneg _ (by norm_num)
  have h2 : z % 2 ^ 64 < 2 ^ 64 := Int.emod_lt_of_pos _ (by norm_num)
  have : ((z % 2 ^ 64).toNat : Int) < 18446744073709551616 := by rw [Int.toNat_of_nonneg h1]; norm_num at h2 ⊢; exact h2
  exact_mod_cast this

theorem enc_sval (x : Nat) (hx : x < W) : enc 64 (sval 64 x) = x := by
  unfold enc sval W at *
  by_cases h : x < 2 ^ (64 - 1)
  · simp only [h, if_true]
    have h2 : (x : Int) < 18446744073709551616 := by exact_mod_cast hx
    have : (x : Int) % 2 ^ 64 = (x : Int) := Int.emod_eq_of_lt (by omega) (by norm_num; omega)
    rw [this]; simp
  · simp only [h, if_false]
    have h2 : (x : Int) < 18446744073709551616 := by exact_mod_cast hx
    have h' : 9223372036854775808 ≤ x := by norm_num at h; exact h
    have h1 : (9223372036854775808 : Int) ≤ (x : Int) := by exact_mod_cast h'
    have : ((x : Int) - 2 ^ 64) % 2 ^ 64 = (x : Int) := by
      have e := Int.sub_emod_right (x : Int) (2 ^ 64)
      rw [e]; exact Int.emod_eq_of_lt (by omega) (by norm_num; omega)
    rw [this]; simp
'''
