"""Arithmetic lemmas behind the C11 exactness obligation for checked_int_pow<uint64_t> (terms: vf/lemma.py; proofs: Lean 4 + Mathlib)."""
import os
from lemma import *

MAX = W - 1
v, b, e, b0, e0 = V('v'), V('b'), V('e'), V('b0'), V('e0')

cp_init = Lemma('cp_init', ['b0', 'e0'], TRUE, PApp('poweq', 1, b0, e0, b0, e0),
                proof=r'''  unfold specp_poweq; ring''', doc='1 * b0^e0 = b0^e0')
cp_exit = Lemma('cp_exit', ['v', 'b', 'b0', 'e0'], PApp('poweq', v, b, 0, b0, e0),
                And(PApp('powfits', b0, e0), eq(App('pow', b0, e0), v)),
                proof=r'''  unfold specp_poweq at hyp
  rw [pow_zero, Nat.mul_one] at hyp
  unfold specp_powfits spec_pow
  rw [← hyp]
  exact ⟨hW_v, Nat.mod_eq_of_lt hW_v⟩''', doc='exit: v * b^0 = b0^e0 means b0^e0 = v fits')
_odd = eq(urem(e, 2), 1); _err1 = And(_odd, udiv(K(MAX), v) < b)
_v1 = Ite(_odd, umul(v, b), v); _e1 = udiv(e, 2); _big = udiv(K(MAX), b) < b; _bb = umul(b, b)
cp_step = Lemma('cp_step', ['v', 'b', 'e', 'b0', 'e0'], And(K(1) <= v, K(1) <= b, K(0) < e, PApp('poweq', v, b, e, b0, e0)),
                And(Imp(_err1, Not(PApp('powfits', b0, e0))),
                    Imp(Not(_err1), And(Imp(_odd, Not(umulovf(v, b))), K(1) <= _v1,
                                        Imp(And(_big, eq(_e1, 0)), And(PApp('powfits', b0, e0), eq(App('pow', b0, e0), _v1))),
                                        Imp(And(_big, ne(_e1, 0)), Not(PApp('powfits', b0, e0))),
                                        Imp(Not(_big), And(Not(umulovf(b, b)), K(1) <= _bb, PApp('poweq', _v1, _bb, _e1, b0, e0)))))),
                proof=r'''  obtain ⟨hv, hb, he, hpe⟩ := hyp
  unfold specp_poweq at hpe
  unfold specp_powfits specp_poweq spec_pow
  have hWv : W = 18446744073709551616 := rfl
  have hsplit := pow_split b e
  refine ⟨?_, ?_⟩
  · rintro ⟨hodd, hbig⟩
    have := cp_err1_core v b e (b0 ^ e0) hv hb hpe hodd hbig
    omega
  · intro hne
    rcases Nat.mod_two_eq_zero_or_one e with hev | hodd
    · -- e even: no multiplication, v1 = v
      have hif : (if e % 2 = 1 then v * b % W else v) = v := by simp [hev]
      simp only [hif]
      have hP : v * (b * b) ^ (e / 2) = b0 ^ e0 := by rw [← hpe, hsplit, hev]; simp
      have hk : 0 < e / 2 := by omega
      refine ⟨by intro h; omega, hv, ?_, ?_, ?_⟩
      · rintro ⟨_, h0⟩; omega
      · rintro ⟨hbig, _⟩
        have := cp_big_core v b (e / 2) (b0 ^ e0) hv hb hP hk hbig
        omega
      · intro hnb
        have hbb : b * b < W := div_ge_imp_mul_le b b hb hnb
        have ebb : b * b % W = b * b := Nat.mod_eq_of_lt hbb
        rw [ebb]
        exact ⟨by omega, by nlinarith, hP⟩
    · -- e odd: v1 = v * b
      have hnb1 : ¬ 18446744073709551615 / v < b := fun h => hne ⟨hodd, h⟩
      have hvb : v * b < W := div_ge_imp_mul_le v b hv hnb1
      have evb : v * b % W = v * b := Nat.mod_eq_of_lt hvb
      have hif : (if e % 2 = 1 then v * b % W else v) = v * b := by simp [hodd, evb]
      simp only [hif]
      have hP : (v * b) * (b * b) ^ (e / 2) = b0 ^ e0 := by rw [← hpe, hsplit, hodd]; ring
      have hv1 : 1 ≤ v * b := by nlinarith
      refine ⟨by intro _; omega, hv1, ?_, ?_, ?_⟩
      · rintro ⟨_, h0⟩
        rw [h0, pow_zero, Nat.mul_one] at hP
        rw [← hP]
        exact ⟨hvb, Nat.mod_eq_of_lt hvb⟩
      · rintro ⟨hbig, hk0⟩
        have := cp_big_core (v * b) b (e / 2) (b0 ^ e0) hv1 hb hP (Nat.pos_of_ne_zero hk0) hbig
        omega
      · intro hnb
        have hbb : b * b < W := div_ge_imp_mul_le b b hb hnb
        have ebb : b * b % W = b * b := Nat.mod_eq_of_lt hbb
        rw [ebb]
        exact ⟨by omega, by nlinarith, hP⟩''',
                doc='checked_int_pow loop body from a state with value * base^exp = base0^exp0, value >= 1, base >= 1, exp > 0: the first guard fires only if base0^exp0 does not fit; '
                    'otherwise value*base does not wrap; if base*base does not fit, the answer is value1 when exp/2 == 0 and "cannot fit" is right otherwise; else the invariant is re-established')
CHECKED_POW = [cp_init, cp_step, cp_exit]
CHECKED_POW_PRELUDE = open(os.path.join(os.path.dirname(__file__), '..', '..', 'lemmas', 'checked_pow_core.lean')).read()
