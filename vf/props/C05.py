"""C05 -- rep-changing conversions and their checkers are sound.  DESIGN.md section 5."""
from core import Ob, Wrapper
import grid as G

ASSUMPTIONS = ['long double reps are excluded (CBMC models long double as binary128, not x87-80)',
               'floating sources: "the computed floating result" is the library\'s own same-rep conversion of the same input '
               '(relational contract); the accuracy of that product is C04/C08 business']

QUICK_PAIRS = [('i32', 'i8'), ('i8', 'u8'), ('u32', 'i32'), ('i64', 'i32'), ('i32', 'i64'), ('u64', 'i64'), ('i64', 'u64'),
               ('u8', 'i16'), ('i16', 'u16'), ('u16', 'i64'), ('i32', 'i32'), ('u64', 'u8')]
FACTORS = [(1, 1), (1000, 1), (1, 1000), (1250, 381), (12, 1), (5, 9)]


def unit_for(N, D):
    if (N, D) == (1, 1):
        return '#include "au/units/meters.hh"', 'au::Meters', 'au::Meters'
    return G.unit_prelude('m', N, D)


def int_instances(tier, seed):
    pairs = [(s, t) for s in G.INT_REPS for t in G.INT_REPS] if tier == 'thorough' else QUICK_PAIRS
    out = []
    for (s, t) in pairs:
        c = G.common(s, t)
        fs = FACTORS if tier == 'thorough' else FACTORS[:4] + ([FACTORS[4]] if (s, t) in QUICK_PAIRS[:4] else [])
        for (n, d) in fs:
            if (n, d) != (1, 1) and not G.conv_compiles(c, n, d): continue
            out.append((s, t, n, d))
    return out


def wrappers(S, T, N, D):
    cs, ctt = G.ctype(S), G.ctype(T)
    tag = '%s_%s_%d_%d' % (S, T, N, D)
    pre, u1, u2 = unit_for(N, D)
    mk = 'au::make_quantity<%s>(x)' % u1
    ws = {
        'lossy': Wrapper('w_lossyT_' + tag, 'bool', [(cs, 'x')], 'return au::is_conversion_lossy<%s>(%s, %s{});' % (ctt, mk, u2)),
        'ovf': Wrapper('w_ovfT_' + tag, 'bool', [(cs, 'x')], 'return au::will_conversion_overflow<%s>(%s, %s{});' % (ctt, mk, u2)),
        'trunc': Wrapper('w_truncT_' + tag, 'bool', [(cs, 'x')], 'return au::will_conversion_truncate<%s>(%s, %s{});' % (ctt, mk, u2)),
        'conv': Wrapper('w_convT_' + tag, ctt, [(cs, 'x')], 'return %s.coerce_in<%s>(%s{});' % (mk, ctt, u2)),
        'conv_as': Wrapper('w_convasT_' + tag, ctt, [(cs, 'x')], 'return %s.coerce_as<%s>(%s{}).in(%s{});' % (mk, ctt, u2, u2)),
        'repcast': Wrapper('w_repcast_' + tag, ctt, [(cs, 'x')], 'return au::rep_cast<%s>(%s).in(%s{});' % (ctt, mk, u1)),
        'same': Wrapper('w_same_' + tag, cs, [(cs, 'x')], 'return %s.coerce_in(%s{});' % (mk, u2)),
    }
    return pre, ws, tag


def in_range(w, expr, rep):
    """C predicate: expr (of exact type w) lies in range(rep)"""
    lo, hi = G.tmin(rep), G.tmax(rep)
    if w in ('u64', 'u128'):
        return '(%s <= %s)' % (expr, G.lit_w(w, hi)) if hi < (1 << (64 if w == 'u64' else 128)) - 1 else '(1)'
    return '(%s >= %s && %s <= %s)' % (expr, G.lit_w(w, lo), expr, G.lit_w(w, hi))


def int_obligations(tier, seed):
    obs = []
    for k, (S, T, N, D) in enumerate(int_instances(tier, seed)):
        cs, ctt = G.ctype(S), G.ctype(T)
        C = G.common(S, T); PC = G.promoted(C)
        pre, ws, tag = wrappers(S, T, N, D)
        W = G.W_for(S, T, C, PC)
        grp = 'C05.%s' % S
        exact = '((%s)r * %s == (%s)x * %s)' % (W, G.lit_w(W, D), W, G.lit_w(W, N))
        convs = [('coerce_in', ws['conv'])]
        if k % 4 == 0: convs.append(('coerce_as', ws['conv_as']))
        if (N, D) == (1, 1): convs.append(('rep_cast', ws['repcast']))
        for cname, w in convs:
            body = '''
  UB_OFF();
  bool l = %s(x);
  UB_ON();
  ASSUME(!l);
  %s r = %s(x);
  CHECK(%s, "result-is-exactly-value-times-factor");
''' % (ws['lossy'].name, ctt, w.name, exact)
            twin = None
            if k % 6 == 0 and cname == 'coerce_in':
                # wrong twin: claims the result is one more than exact for the cleared, nonzero input x = D (when that is cleared)
                if D <= G.tmax(S) and D <= G.tmax(C) and N <= G.tmax(T) and D * N <= G.tmax(PC):
                    twin = body.replace(exact, '(%s || x == %d)' % (exact.replace('==', '!='), 0)).replace('!=', '==', 0)
                    twin = body.replace(exact, '((%s)r * %s == (%s)x * %s + (x == %d ? 1 : 0))' % (W, G.lit_w(W, D), W, G.lit_w(W, N), D))
            obs.append(Ob(id='C05.ii.exact.%s.%s' % (cname, tag), prop='C05', group=grp, prelude=pre, wrappers=[ws['lossy'], w],
                          inputs=[(cs, 'x')], body=body, twin=twin,
                          contract='forall x:%s. !is_conversion_lossy<%s>(q,u) ==> q.%s<%s>(u) * %d == x * %d and every UB:* assertion in the '
                                   'closure of the conversion (cast to common type %s, scaling, narrowing cast) holds' % (cs, ctt, cname, ctt, D, N, G.ctype(C)),
                          functions_under_contract=('au::Quantity::%s<T>' % cname, 'au::is_conversion_lossy<T>')))
        # the checker itself executes no UB, for every x ("always reported lossy" must not rest on undefined behaviour)
        body = '''
  bool l = %s(x);
  CHECK(l == 0 || l == 1, "checker-returns");
''' % ws['lossy'].name
        obs.append(Ob(id='C05.ii.checker-ub-free.%s' % tag, prop='C05', group=grp, prelude=pre, wrappers=[ws['lossy']], inputs=[(cs, 'x')], body=body,
                      contract='forall x:%s. evaluating is_conversion_lossy<%s>(q,u) executes no undefined behaviour (all UB:* assertions in its closure)' % (cs, ctt),
                      functions_under_contract=('au::is_conversion_lossy<T>', 'au::will_conversion_truncate<T>', 'au::will_conversion_overflow<T>')))
        # overflow is reported only when some step's exact value really leaves that step's range
        xw = '(%s)x' % W
        prod = '(%s * %s)' % (xw, G.lit_w(W, N))
        s1 = '!%s' % in_range(W, xw, C) if (G.tmin(S) < G.tmin(C) or G.tmax(S) > G.tmax(C)) else '0'
        neg = '(x < 0)' if (G.REPS[S]['signed'] and W in ('u64', 'u128')) else '0'
        s2 = '!%s' % in_range(W, prod, PC)
        s3 = '(%s > %s%s)' % (prod, G.lit_w(W, G.tmax(C) * D), (' || %s < %s' % (prod, G.lit_w(W, G.tmin(C) * D))) if W in ('i64', 'i128') else '')
        quo = '(%s / %s)' % (prod, G.lit_w(W, D))
        s4 = '!%s' % in_range(W, quo, T)
        body = '''
  UB_OFF();
  bool o = %s(x);
  CHECK(!o || (%s || %s || %s || %s || %s), "overflow-only-when-a-step-leaves-its-range");
''' % (ws['ovf'].name, neg, s1, s2, s3, s4)
        obs.append(Ob(id='C05.ii.ovf-only-if.%s' % tag, prop='C05', group=grp, prelude=pre, wrappers=[ws['ovf']], inputs=[(cs, 'x')], body=body,
                      contract='forall x:%s. will_conversion_overflow<%s>(q,u) ==> x not in range(%s) or x*%d not in range(%s) or x*%d/%d not in range(%s) '
                               'or trunc(x*%d/%d) not in range(%s)' % (cs, ctt, G.ctype(C), N, G.ctype(PC), N, D, G.ctype(C), N, D, ctt),
                      functions_under_contract=('au::will_conversion_overflow<T>',)))
    return obs


def obligations(tier, seed):
    from props.internal import c05_internal
    return int_obligations(tier, seed) + fp_obligations(tier, seed) + c05_internal(tier)


# the floating-point scaling step `x * k` / `x / k` (ApplyMagnitudeImpl<..., float|double, false>::operator()) is replaced by its
# purity contract in the fp->int obligations: what matters there is that checker and conversion see the SAME product
APPLY_FP = r'^_ZN2au6detail18ApplyMagnitudeImplINS_9MagnitudeIJ[^E].*E[fd]Lb0EEclERK[fd]$'
QUICK_FP = [('f32', 'i32'), ('f32', 'u32'), ('f32', 'i64'), ('f64', 'i64'), ('f64', 'u64'), ('f64', 'i32'), ('f32', 'u8'), ('f64', 'i16'),
            ('i32', 'f32'), ('i64', 'f64'), ('u64', 'f32'), ('f32', 'f64'), ('f64', 'f32')]
FP_FACTORS = [(1, 1), (1000, 1), (1, 1000), (1250, 381)]


def fp_instances(tier, seed):
    if tier == 'thorough':
        pairs = [(s, t) for s in ('f32', 'f64') for t in G.ALL_REPS] + [(s, t) for s in G.INT_REPS for t in ('f32', 'f64')]
        pairs = [p for p in pairs if p[0] != p[1]]
    else:
        pairs = QUICK_FP
    out = []
    for (s, t) in pairs:
        fs = FP_FACTORS if tier == 'thorough' else (FP_FACTORS if (s, t) in QUICK_FP[:6] else FP_FACTORS[:2])
        for (n, d) in fs:
            out.append((s, t, n, d))
    return out


def fp_obligations(tier, seed):
    obs = []
    for k, (S, T, N, D) in enumerate(fp_instances(tier, seed)):
        cs, ctt = G.ctype(S), G.ctype(T)
        pre, ws, tag = wrappers(S, T, N, D)
        grp = 'C05.fp.%s' % S
        if G.is_fp(S) and G.is_int(T):
            body = '''
  UB_OFF();
  bool l = %s(x);
  UB_ON();
  ASSUME(!l);
  %s r = %s(x);
  %s p = %s(x);
  CHECK((%s)r == p, "result-is-value-preserving-cast-of-computed-product");
''' % (ws['lossy'].name, ctt, ws['conv'].name, cs, ws['same'].name, cs)
            obs.append(Ob(id='C05.fi.exact.%s' % tag, prop='C05', group=grp, prelude=pre, wrappers=[ws['lossy'], ws['conv'], ws['same']],
                          inputs=[(cs, 'x')], body=body, fp=True, abstract=(APPLY_FP,) if (N, D) != (1, 1) else (),
                          contract='forall %s x (every bit pattern incl. NaN, inf). !is_conversion_lossy<%s>(q,u) ==> the cast operand is inside the open '
                                   'interval the %s cast is defined on (UB:fp-to-int-range) and (%s)result == q.coerce_in(u) [the computed product]; hence NaN, '
                                   'infinities and products at or beyond 2^digits are always reported lossy' % (cs, ctt, ctt, cs),
                          functions_under_contract=('au::Quantity::coerce_in<T>', 'au::is_conversion_lossy<T>', 'au::detail::will_static_cast_overflow',
                                                    'au::detail::will_static_cast_truncate')))
            if (N, D) != (1, 1):
                body = '''
  %s p = %s(x);
  CHECK(!VF_ISNAN(x) || VF_ISNAN(p), "nan-in-nan-out");
''' % (cs, ws['same'].name)
                oid = 'C05.callee-contract.apply_magnitude.%s_%d_%d' % (S, N, D)
                if not any(o.id == oid for o in obs):
                    obs.append(Ob(id=oid, prop='C05', group=grp, prelude=pre, wrappers=[ws['same']], inputs=[(cs, 'x')], body=body, fp=True,
                                  contract='callee contract used by the fp->int obligations: ApplyMagnitudeImpl<%d/%d, %s>::operator() assigns nothing (frame check), '
                                           'is a function of the bits of x (no state), and maps NaN to NaN' % (N, D, cs),
                                  functions_under_contract=('au::detail::ApplyMagnitudeImpl<Mag, ..., %s, false>::operator()' % cs,)))
        elif G.is_int(S) and G.is_fp(T):
            fin = 'VF_ISFINITE_F32(r)' if T == 'f32' else 'VF_ISFINITE_F64(r)'
            body = '''
  UB_OFF();
  bool l = %s(x);
  UB_ON();
  ASSUME(!l);
  %s r = %s(x);
  CHECK(%s, "result-is-finite");
''' % (ws['lossy'].name, ctt, ws['conv'].name, fin)
            obs.append(Ob(id='C05.if.defined.%s' % tag, prop='C05', group=grp, prelude=pre, wrappers=[ws['lossy'], ws['conv']],
                          inputs=[(cs, 'x')], body=body, fp=True,
                          contract='forall %s x. !is_conversion_lossy<%s>(q,u) ==> every step of q.coerce_in<%s>(u) is defined and the result is finite' % (cs, ctt, ctt),
                          functions_under_contract=('au::Quantity::coerce_in<T>', 'au::is_conversion_lossy<T>')))
        else:
            # float <-> double
            C = G.common(S, T)
            wc = Wrapper('w_commonconv_' + tag, G.ctype(C), [(cs, 'x')],
                         'return au::make_quantity<%s>(x).coerce_in<%s>(%s{});' % (unit_for(N, D)[1], G.ctype(C), unit_for(N, D)[2]))
            lim = 'VF_ISNAN(p) || (p <= (double)FLT_MAX && p >= -(double)FLT_MAX)' if T == 'f32' else '1'
            body = '''
  UB_OFF();
  bool l = %s(x);
  UB_ON();
  ASSUME(!l);
  %s p = %s(x);
  %s r = %s(x);
  CHECK(%s, "narrowing-cast-operand-in-range");
  CHECK(VF_ISNAN(p) ? VF_ISNAN(r) : r == (%s)p, "result-is-cast-of-computed-product");
''' % (ws['lossy'].name, G.ctype(C), wc.name, ctt, ws['conv'].name, lim, ctt)
            obs.append(Ob(id='C05.ff.exact.%s' % tag, prop='C05', group=grp, prelude=pre, wrappers=[ws['lossy'], ws['conv'], wc],
                          inputs=[(cs, 'x')], body=body, fp=True, abstract=(APPLY_FP,) if (N, D) != (1, 1) else (),
                          contract='forall %s x. !is_conversion_lossy<%s>(q,u) ==> the product computed in %s is NaN or within the finite range of %s, and the '
                                   'result is its cast' % (cs, ctt, G.ctype(C), ctt),
                          functions_under_contract=('au::Quantity::coerce_in<T>', 'au::is_conversion_lossy<T>')))
    return obs
