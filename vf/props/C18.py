"""C18 -- printed labels: digit counts, join/concatenate, label constants (value-level functions of string_constant.hh).  DESIGN.md section 5."""
from core import Ob, Wrapper

ASSUMPTIONS = ['operator<< is decided up to the std::ostream inserters, which are trusted recorder stubs (the obligation pins WHICH overload is called with WHAT; the characters the stream then produces are libstdc++\'s business)',
               'label TEXT of a unit is a compile-time constant; it is compared with the documented grammar per grid unit (constant obligations), not for all unit expressions',
               'StringConstant<N>::join loops have the compile-time constant N as trip count: they are unwound completely (unwinding assertions on), which is complete for the instance']

RV = '__CPROVER_return_value'
SSU = '_ZN2au6detail20string_size_unsignedEm'
SS = '_ZN2au6detail11string_sizeEl'
PRE = '#include "au/utility/string_constant.hh"\n#include "au/unit_of_measure.hh"\n#include "au/prefix.hh"\n#include "au/units/meters.hh"\n#include "au/units/seconds.hh"'

C_SSU = dict(requires=['1'],
             ensures=['%s >= 1 && %s <= 20' % (RV, RV), 'v_x >= vf_p10[%s - 1] || (v_x == 0 && %s == 1)' % (RV, RV), '%s == 20 || v_x < vf_p10[%s]' % (RV, RV)], assigns='',
             loops={0: dict(invariant=['m_digits >= 1 && m_digits <= 20 && (unsigned __int128)m_x_addr * vf_p10[m_digits - 1] <= v_x && (unsigned __int128)v_x < ((unsigned __int128)m_x_addr + 1) * vf_p10[m_digits - 1] && (m_digits == 1 || m_x_addr >= 1)'], decreases='m_x_addr',
                            assigns='m_x_addr, m_digits')})
C_SS = dict(requires=['(int64_t)v_x != INT64_MIN'],
            ensures=['%s >= 1 && %s <= 20' % (RV, RV),
                     '((int64_t)v_x >= 0) ? ((uint64_t)v_x >= vf_p10[%s - 1] || v_x == 0) && (%s == 20 || (uint64_t)v_x < vf_p10[%s]) : '
                     '((uint64_t)(-(int64_t)v_x) >= vf_p10[%s - 2] && (%s == 21 || (uint64_t)(-(int64_t)v_x) < vf_p10[%s - 1]))' % (RV, RV, RV, RV, RV, RV)], assigns='')


def obligations(tier, seed):
    obs = []
    inst = Wrapper('w_c18_inst', 'uint64_t', [('uint64_t', 'x'), ('int64_t', 'y')], 'return au::detail::string_size_unsigned(x) + au::detail::string_size(y);')
    body = '''
  uint64_t r = TARGET(x);
  CHECK(r >= 1 && r <= 20, "between-1-and-20-digits");
  CHECK(x >= vf_p10[r - 1] || (x == 0 && r == 1), "at-least-10-to-the-r-minus-1");
  CHECK(r == 20 || x < vf_p10[r], "below-10-to-the-r");
'''
    for K in range(1, 21):
        obs.append(Ob(id='C18.contract.string_size_unsigned.case-digits-%02d' % K, prop='C18', group='C18.ss', prelude=PRE, wrappers=[inst], inputs=[('uint64_t', 'x')], body=body,
                      kind='L', promote=False, budget=300, dfcc=dict(target=SSU, contracts={SSU: C_SSU}), defs=('LL2C_CASE_EXPR=(m_digits==%d)' % K,),
                      contract='string_size_unsigned(x): 1 <= r <= 20, 10^(r-1) <= x < 10^r (x > 0), r == 1 for x == 0; loop invariant x*10^(d-1) <= x0 < (x+1)*10^(d-1), '
                               '1 <= d <= 20; decreases x; no UB:*.  Inductive step split on the havocked digit count d == %d (the 20 cases are exhaustive by the invariant)' % K,
                      functions_under_contract=('au::detail::string_size_unsigned',)))
    # string_size(x): verified against string_size_unsigned's contract (callee replaced)
    body = '''
  ASSUME(y != INT64_MIN);
  uint64_t r = TARGET((uint64_t)y);
  uint64_t mag = y < 0 ? (uint64_t)(-y) : (uint64_t)y;
  uint64_t sign = y < 0 ? 1 : 0;
  CHECK(r >= 1 + sign && r <= 20 + sign, "digits-plus-sign");
  CHECK(mag >= vf_p10[r - sign - 1] || (mag == 0 && r == 1), "at-least-10-to-the-digits-minus-1");
  CHECK(r - sign == 20 || mag < vf_p10[r - sign], "below-10-to-the-digits");
'''
    obs.append(Ob(id='C18.contract.string_size', prop='C18', group='C18.ss', prelude=PRE, wrappers=[inst], inputs=[('int64_t', 'y')], body=body, kind='L', promote=False,
                  budget=300, dfcc=dict(target=SS, replace=[SSU], contracts={SS: dict(requires=[], ensures=[], assigns=''), SSU: C_SSU}),
                  contract='string_size(x), requires x != INT64_MIN (the negation is UB there; ill-formed in a constant expression, so never a wrong label): '
                           'r == digits(|x|) + (x < 0), no UB:*; verified against the contract of string_size_unsigned',
                  functions_under_contract=('au::detail::string_size',)))
    # StringConstant<N>::join on run-time characters: in-bounds writes, separator-joined concatenation, NUL terminated, reported size
    shapes = [('sep2_2_1', ', ', [2, 1]), ('concat_3_0_2', '', [3, 0, 2]), ('single_4', '*', [4]), ('sep1_1_1_1', '^', [1, 1, 1])]
    for (nm, sep, lens) in (shapes if tier == 'thorough' else shapes[:3]):
        total = sum(lens) + len(sep) * (len(lens) - 1)
        params = []; decls = []; items = []; expect = []
        for i, L in enumerate(lens):
            cs = ['c%d_%d' % (i, j) for j in range(L)]
            params += [('char', c) for c in cs]
            decls.append('const char a%d[%d] = {%s};' % (i, L + 1, ', '.join(cs + ["'\\0'"])))
            items.append('au::detail::StringConstant<%d>(a%d)' % (L, i))
            if i > 0: expect += ["'%s'" % ch for ch in sep]
            expect += cs
        w = Wrapper('w_join_' + nm, 'char', params + [('uint64_t', 'k')],
                    '%s auto r = au::detail::as_string_constant("%s").join(%s); static_assert(sizeof(r.char_array()) == %d, "size"); '
                    'return k <= %d ? r.c_str()[k] : (char)r.size();' % (' '.join(decls), sep, ', '.join(items), total + 1, total))
        args = ', '.join(n for t, n in params)
        checks = '\n'.join('  CHECK(%s(%s%s%d) == %s, "char-%d");' % (w.name, args, ', ' if args else '', i, e, i) for i, e in enumerate(expect))
        body = '''
%s
  CHECK(%s(%s%s%d) == 0, "nul-terminated-at-length");
  CHECK(%s(%s%s%d) == %d, "size-is-length");
''' % (checks, w.name, args, ', ' if args else '', total, w.name, args, ', ' if args else '', total + 1, total)
        obs.append(Ob(id='C18.join.%s' % nm, prop='C18', group='C18.join', prelude=PRE, wrappers=[w], inputs=params, body=body, unwind=max(lens + [len(sep)]) + 2, promote=False,
                      contract='as_string_constant("%s").join(items of lengths %s) on run-time characters: every write inside result[%d], output is the separator-joined '
                               'concatenation, NUL at [%d], size() == %d, sizeof(char_array()) == %d (static_assert in the lowered wrapper)' % (sep, lens, total + 1, total, total, total + 1),
                      functions_under_contract=('au::detail::StringConstant::join', 'au::detail::StringConstant::join_impl')))
    # labels of grid units: compile-time constants compared with the documented grammar
    labels = [('km', 'au::Kilo<au::Meters>', 'km'), ('m_per_s', 'au::UnitQuotientT<au::Meters, au::Seconds>', 'm / s'),
              ('m2', 'au::UnitPowerT<au::Meters, 2>', 'm^2'), ('scaled', 'decltype(au::Meters{} * au::mag<1000>())', '[1000 m]'),
              ('scaled_2_63', 'decltype(au::Meters{} * au::mag<9223372036854775808ULL>())', '[9223372036854775808 m]'),
              ('scaled_max', 'decltype(au::Meters{} * au::mag<18446744073709551615ULL>())', '[18446744073709551615 m]'),
              ('scaled_inv', 'decltype(au::Meters{} / au::mag<1000>())', '[(1 / 1000) m]'),
              ('scaled_rat', 'decltype(au::Meters{} * au::mag<3>() / au::mag<4>())', '[(3 / 4) m]'),
              ('itoa', None, '-12345678901'), ('uitoa', None, '18446744073709551615')]
    for (nm, ty, text) in labels:
        if ty is None:
            expr = 'au::detail::IToA<-12345678901LL>::value.char_array()' if nm == 'itoa' else 'au::detail::UIToA<18446744073709551615ULL>::value.char_array()'
        else:
            expr = 'au::unit_label<%s>()' % ty
        w = Wrapper('w_label_' + nm, 'char', [('uint64_t', 'k')], 'return %s[k %% sizeof(%s)];' % (expr, expr))
        wsz = Wrapper('w_labelsize_' + nm, 'uint64_t', [], 'return sizeof(%s);' % expr)
        checks = ['  CHECK(%s() == %d, "reported-size-is-length-plus-1");' % (wsz.name, len(text) + 1)]
        checks += ["  CHECK(%s(%d) == %d, \"char-%d\");" % (w.name, i, ord(ch), i) for i, ch in enumerate(text + '\0')]
        obs.append(Ob(id='C18.label.%s' % nm, prop='C18', group='C18.label', prelude=PRE, wrappers=[w, wsz], inputs=[], body='\n' + '\n'.join(checks) + '\n',
                      contract='label constant == "%s" with reported size %d (NUL terminated)' % (text, len(text) + 1), functions_under_contract=('au::unit_label / IToA / UIToA (constant data)',)))
    # ---- "a unit never prints the label of a unit with a different magnitude": a user-defined unit that gives no label of its own (supporting static facts)
    SHDR = ('#include "au/au.hh"\n#include "au/units/inches.hh"\n#include "au/units/meters.hh"\n#define VF_STATIC_FACT(c) static_assert(c, "VF_STATIC_FACT")\n'
            'constexpr bool vf_streq(const char *a, const char *b) { return (*a == *b) && (*a == 0 || vf_streq(a + 1, b + 1)); }\n')
    for (nm, decl_, text) in (('unlabeled_new_unit', 'struct VD : au::UnitImpl<au::Length> {};', '[UNLABELED UNIT]'),
                              ('unlabeled_derived_scaled', 'struct VD : decltype(au::Inches{} * au::mag<12>()) {};', '[UNLABELED UNIT]'),
                              ('labeled_derived_scaled', 'struct VD : decltype(au::Inches{} * au::mag<12>()) { static constexpr const char label[] = "myft"; };\nconstexpr const char VD::label[];', 'myft')):
        obs.append(Ob(id='C18.static.%s' % nm, prop='C18', group='C18.static', prelude='', wrappers=[], inputs=[], kind='S',
                      body=SHDR + decl_ + '\nVF_STATIC_FACT(vf_streq(au::unit_label(VD{}), "%s"));\nint main() {}\n' % text,
                      contract='static fact: a unit declared as `%s` has the label "%s" (never the label of the differently sized unit it is built from)' % (decl_.split(chr(10))[0], text),
                      functions_under_contract=('au::unit_label / UnitLabel (compile-time)',)))
    # library unit that inherits a label (same mechanism as unlabeled_derived_scaled), and two units of different size with one label: recorded known findings
    for (nm, incs, fact, what) in (
            ('rankines-label', '#include "au/units/fahrenheit.hh"', '!vf_streq(au::unit_label(au::Rankines{}), "K")', 'au::Rankines (5/9 K) does not print the label of au::Kelvins'),
            ('kilo-of-power-vs-power-of-kilo', '#include "au/units/meters.hh"', '!vf_streq(au::unit_label<au::Kilo<au::UnitPowerT<au::Meters, 2>>>(), au::unit_label<au::UnitPowerT<au::Kilo<au::Meters>, 2>>())',
             'Kilo<Meters^2> (10^3 m^2) and (Kilo<Meters>)^2 (10^6 m^2) do not print the same label')):
        obs.append(Ob(id='C18.static.%s' % nm, prop='C18', group='C18.static', prelude='', wrappers=[], inputs=[], kind='S',
                      body='#include "au/au.hh"\n' + incs + '\n#define VF_STATIC_FACT(c) static_assert(c, "VF_STATIC_FACT")\n'
                           'constexpr bool vf_streq(const char *a, const char *b) { return (*a == *b) && (*a == 0 || vf_streq(a + 1, b + 1)); }\nVF_STATIC_FACT((%s));\nint main() {}\n' % fact,
                      contract='static fact: ' + what, functions_under_contract=('au::unit_label / UnitLabel (compile-time)',)))
    # ---- the documented label grammar on a wider list of unit expressions (supporting static facts; one TU per group so that a failure names its group)
    GH = ('#include "au/au.hh"\n#include "au/units/meters.hh"\n#include "au/units/seconds.hh"\n#include "au/units/inches.hh"\n#include "au/units/feet.hh"\n#include "au/units/bytes.hh"\n'
          '#include "au/units/bits.hh"\n#include "au/units/celsius.hh"\n#include "au/units/kelvins.hh"\nusing namespace au;\n#define VF_STATIC_FACT(c) static_assert(c, "VF_STATIC_FACT")\n'
          'constexpr bool vf_streq(const char *a, const char *b) { return (*a == *b) && (*a == 0 || vf_streq(a + 1, b + 1)); }\n'
          '#define VF_LABEL(text, ...) VF_STATIC_FACT(vf_streq(unit_label<__VA_ARGS__>(), text) && sizeof(unit_label<__VA_ARGS__>()) == sizeof(text))\n')
    groups = {'prefixes': [('um', 'Micro<Meters>'), ('ns', 'Nano<Seconds>'), ('Mm', 'Mega<Meters>'), ('KiB', 'Kibi<Bytes>'), ('Mib', 'Mebi<Bits>'), ('dm', 'Deci<Meters>'), ('dam', 'Deka<Meters>'),
                           ('Ym', 'Yotta<Meters>'), ('qm', 'Quecto<Meters>'), ('km / s', 'decltype(Kilo<Meters>{} / Seconds{})'), ('ms', 'Milli<Seconds>'), ('GB', 'Giga<Bytes>')],
              'powers-products': [('s^(-1)', 'UnitInverseT<Seconds>'), ('s^(-2)', 'UnitPowerT<Seconds, -2>'), ('m * s', 'UnitProductT<Meters, Seconds>'), ('m / s^2', 'UnitQuotientT<Meters, UnitPowerT<Seconds, 2>>'),
                                  ('m^2 / s', 'UnitQuotientT<UnitProductT<Meters, Meters>, Seconds>'), ('m^2 * s^2', 'UnitPowerT<UnitProductT<Meters, Seconds>, 2>'), ('', 'UnitProductT<>'),
                                  ('m / (s * K)', 'UnitQuotientT<Meters, UnitProductT<Seconds, Kelvins>>'), ('m^(1/2)', 'UnitPowerT<Meters, 1, 2>'),
                                  # exponents appear as their exact decimal digits, beyond 32 bits as well
                                  ('m^4294967301', 'Pow<Meters, 4294967301>'), ('m^(1/4294967299)', 'RatioPow<Meters, 1, 4294967299>'), ('m^(-3000000000)', 'Pow<Meters, -3000000000>'),
                                  ('m^2147483648', 'UnitPowerT<Meters, 2147483648>'), ('m^(-9223372036854775807)', 'Pow<Meters, -9223372036854775807>')],
              'scaled-common': [('EQUIV{[(1 / 5000) m], [(1 / 127) in]}', 'CommonUnitT<Inches, Meters>'), ('in', 'CommonUnitT<Feet, Inches>'),
                                ('EQUIV{[(1 / 100) degC], [(1 / 100) K]}', 'CommonPointUnitT<Celsius, Kelvins>'), ('[(UNLABELED SCALE FACTOR) m]', 'decltype(Meters{} * mag<3>() * Magnitude<Pi>{})'), ('[(UNLABELED SCALE FACTOR) m]', 'decltype(Meters{} / Magnitude<Pi>{})'),
                                ('[(UNLABELED SCALE FACTOR) m]', 'decltype(Meters{} * mag<2>() / root<2>(mag<3>()))'), ('[(UNLABELED SCALE FACTOR) m]', 'decltype(Meters{} * Magnitude<Pi>{} / mag<180>())'),
                                ('[(25 / 3) m]', 'decltype(Meters{} / mag<3>() * pow<2>(mag<5>()))'), ('[12 in]', 'decltype(Inches{} * mag<12>())'), ('ft', 'Feet'),
                                ('[2 ft]', 'CommonPointUnitT<decltype(Feet{} * mag<6>()), decltype(Feet{} * mag<10>())>'), ('[2 ft]', 'CommonUnit<decltype(Feet{} * mag<2>())>'),
                                ('[2 ft]', 'CommonUnitT<decltype(Feet{} * mag<6>()), decltype(Feet{} * mag<10>())>'), ('in', 'CommonUnitT<decltype(Feet{} * mag<2>()), decltype(Inches{} * mag<12>()), Inches, decltype(Feet{} / mag<3>())>'),
                                ('EQUIV{in, [(1 / 12) ft]}', 'CommonUnitT<decltype(Feet{} / mag<3>()), decltype(Inches{} * mag<5>())>')]}
    for gname, items in groups.items():
        obs.append(Ob(id='C18.static.labels.%s' % gname, prop='C18', group='C18.static', prelude='', wrappers=[], inputs=[], kind='S',
                      body=GH + '\n'.join('VF_LABEL("%s", %s);' % (t, u) for t, u in items) + '\nint main() {}\n',
                      contract='static facts: label text and reported size (length + 1) of ' + '; '.join('%s -> "%s"' % (u, t) for t, u in items),
                      functions_under_contract=('au::unit_label / UnitLabel (compile-time)',)))
    # ---- streaming: operator<<(ostream&, Quantity) inserts the NUMERIC value (integer promotion: never the char overload), then " ", then the label.
    #      The ostream is not modelled: its inserters are trusted recorder stubs that log which overload was called with what (ghost log).
    IOPRE = '#include <ostream>\n#include "au/io.hh"\n#include "au/units/meters.hh"\n#include "au/units/seconds.hh"'
    KIND = {'i': 4, 'j': 5, 'l': 6, 'm': 7, 'd': 11, 'f': 10, 'PKc': 16, 'c': 13, 'a': 14, 'h': 15}
    for (nm, cty, cxx, kind, isfp) in (('i8', 'int8_t', 'int8_t', 'i', False), ('u8', 'uint8_t', 'uint8_t', 'i', False), ('char', 'int8_t', 'char', 'i', False),
                                       ('schar', 'int8_t', 'signed char', 'i', False), ('uchar', 'uint8_t', 'unsigned char', 'i', False),
                                       ('i16', 'int16_t', 'int16_t', 'i', False), ('u16', 'uint16_t', 'uint16_t', 'i', False), ('i32', 'int32_t', 'int32_t', 'i', False),
                                       ('u32', 'uint32_t', 'uint32_t', 'j', False), ('i64', 'int64_t', 'int64_t', 'l', False), ('u64', 'uint64_t', 'uint64_t', 'm', False),
                                       ('f64', 'double', 'double', 'd', True), ('f32', 'float', 'float', 'f', True)):
        w = Wrapper('w_stream_' + nm, 'void', [('void*', 'out'), (cty, 'x')], '*static_cast<std::ostream*>(out) << au::make_quantity<au::Meters>((%s)x);' % cxx)
        # the number the stream prints is the recorded argument read with the signedness of the overload that was called (s, i, l, x are the signed ones): it must be the
        # mathematical value of x (a uint64_t above 2^63 pushed through a signed overload would print a negative number)
        val = ('ll2c_io_fp[0] == (double)x || (x != x)') if isfp else \
            '((ll2c_io_kind[0] == 2 || ll2c_io_kind[0] == 4 || ll2c_io_kind[0] == 6 || ll2c_io_kind[0] == 8) ? (i128)ll2c_io_int[0] : (i128)(uint64_t)ll2c_io_int[0]) == (i128)x'
        body = '''
  char stream_object;
  %s(&stream_object, x);
  CHECK(ll2c_io_n == 3, "exactly-three-insertions");
  CHECK(ll2c_io_kind[0] >= 2 && ll2c_io_kind[0] <= 12, "first-insertion-is-a-numeric-overload-never-a-character");
  CHECK(%s, "the-number-printed-is-the-mathematical-value-of-the-stored-value");
  CHECK(ll2c_io_kind[1] == 16 && ll2c_io_ptr[1][0] == 32 && ll2c_io_ptr[1][1] == 0, "then-exactly-one-space");
  CHECK(ll2c_io_kind[2] == 16 && ll2c_io_ptr[2][0] == 109 && ll2c_io_ptr[2][1] == 0, "then-the-unit-label");
''' % (w.name, val)
        obs.append(Ob(id='C18.stream.%s' % nm, prop='C18', group='C18.stream', prelude=IOPRE, wrappers=[w], inputs=[(cty, 'x')], body=body, fp=isfp,
                      contract='out << meters((%s)x): exactly three insertions: a NUMERIC operator<< overload with the stored value (never operator<<(char) / (signed char) / (unsigned char)), '
                               'then " ", then the label "m" (std::ostream inserters are trusted recorder stubs)' % cxx,
                      functions_under_contract=('au::operator<<(std::ostream&, Quantity<U,R>)',)))
    return obs
