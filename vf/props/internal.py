"""internal.py -- function contracts on the internal helpers the checkers are built from (mode D / kind L), shared by C04 and C05.
These contracts hold for EVERY magnitude value passed at run time (the helper takes it as an argument), so they are not tied to the (N, D) grid."""
from core import Ob, Wrapper
import grid as G
from props.C11 import CODE, mangled as cmp_mangled, cmp_contract, view

RV = '__CPROVER_return_value'
PRE = '#include "au/au.hh"\n#include "au/units/meters.hh"'


def sview(rep, name):
    return '(%s)%s' % (G.ctype(rep), name)


def unsigned_storage(rep):
    c = G.ctype(rep)
    return c.replace('int', 'uint') if G.REPS[rep]['signed'] else c


def c04_internal(tier):
    obs = []
    reps = G.INT_REPS
    inst = Wrapper('w_c04_internal_inst', 'int32_t', [('int64_t', 'a'), ('uint64_t', 'b')],
                   'using namespace au::detail; int r = 0; ' + ' '.join(
                       'r += OverflowChecker<%s,true>::would_product_overflow((%s)a, (%s)b) + OverflowChecker<%s,false>::would_product_overflow((%s)a, (%s)b) + '
                       'TruncationCheckerIfMagnitudeValid<%s,true>::would_truncate((%s)a, (%s)b);' % ((G.ctype(r),) * 9) for r in reps) +
                   ' '.join('r += (int)clamp_to_range_of<%s>((%s)a);' % (G.ctype(t), G.ctype(u)) for t in reps for u in ('i32', 'u32', 'i64', 'u64')) + ' return r;')
    for rep in reps:
        ct = G.ctype(rep); code = CODE[rep]; us = unsigned_storage(rep)
        W = 'i128' if G.REPS[rep]['signed'] else 'u128'
        # would_product_overflow(x, m), m >= 1: exactly "x*m leaves the range of T"
        tgt = '_ZN2au6detail15OverflowCheckerI%sLb1EE22would_product_overflowE%s%s' % (code, code, code)
        prod = '((i128)%s * (i128)%s)' % (sview(rep, 'x'), sview(rep, 'm'))
        body = '''
  ASSUME(%s >= 1);
  _Bool r = TARGET(x, m);
  CHECK(r == (%s > MAX_OF(%s) || %s < MIN_OF(%s)), "would_product_overflow-iff-product-leaves-the-range");
''' % (sview(rep, 'm'), prod, rep, prod, rep)
        cases = [('', '1')] if not G.REPS[rep]['signed'] else [('.nonneg', '%s >= 0' % sview(rep, 'x')), ('.neg', '%s < 0' % sview(rep, 'x'))]
        if rep in ('i32', 'i64'):
            # signed 32/64-bit: the two symbolic signed divisions against a 128-bit product were undecided for negative x on every back end (i64 even in the thorough tier).
            # Lemma-instance obligation instead (DESIGN 10.1): the division is uninterpreted, "x*m stays in range" is a specification predicate, and Lean proves the equivalence
            import lemma as LM
            from props import c04_lemmas as CL
            bits_ = G.REPS[rep]['bits']; lm_ = CL.WPO[0] if bits_ == 64 else CL.WPO[1]
            if rep == 'i32':
                obs.append(Ob(id='C04.lemmas.would_product_overflow', prop='C04', group='C04.lemmas', kind='S', budget=600, body='', prelude='', wrappers=[], inputs=[],
                              dfcc=dict(tool='lean', text=LM.lean_file(CL.WPO, CL.WPO_PRELUDE)),
                              contract='Lean 4 + Mathlib accept: ' + '; '.join('%s (%s)' % (l.name, l.doc) for l in CL.WPO)))
            obs.append(Ob(id='C04.internal.would_product_overflow.%s' % rep, prop='C04', group='C04.internal', prelude=PRE, wrappers=[inst], inputs=[(us, 'x'), (us, 'm')],
                          body='''
  ASSUME(%s >= 1);
  ASSUME(%s);   /* lemma wpo%d at (x, m) */
  _Bool r = TARGET(x, m);
  CHECK((r != 0) == !SPECP_sprodfits%d(x, m), "would_product_overflow-iff-product-leaves-the-range");
''' % (sview(rep, 'm'), lm_.inst(x='x', m='m'), bits_, bits_),
                          kind='L', promote=False, budget=300, defs=('LL2C_UF_DIV=1',), needs=('C04.lemmas.would_product_overflow',),
                          dfcc=dict(target=tgt, contracts={tgt: dict(requires=[], ensures=[], assigns='')},
                                    native_search=dict(pre='m >= 1', call='au::detail::OverflowChecker<%s,true>::would_product_overflow((%s)x, (%s)m)' % (ct, ct, ct), ret='bool',
                                                       post='r == (((__int128)(%s)x * (__int128)(%s)m) > (__int128)%d || ((__int128)(%s)x * (__int128)(%s)m) < -(__int128)%d - 1)' % (ct, ct, G.tmax(rep), ct, ct, G.tmax(rep)),
                                                       adjust='m = (%s)(m %% 2 ? m : (m >> 40)); if ((%s)m < 1) m = 1;' % (us, ct))),
                          contract='OverflowChecker<%s,true>::would_product_overflow(x, m), for ALL x (negative ones included) and ALL magnitudes m >= 1: true exactly when x*m is outside range(%s); '
                                   'the signed division is uninterpreted and its arithmetic is lemma wpo%d (Lean); no UB:* (division by zero, MIN / -1)' % (ct, ct, bits_),
                          functions_under_contract=('au::detail::OverflowChecker<%s,true>::would_product_overflow' % ct,)))
            cases = []
        for (sfx_, cond_) in cases:
          if tier == 'quick' and sfx_ == '.neg' and rep in ('i32', 'i64'): continue    # signed symbolic division with a negative dividend: thorough tier (long budget)
          obs.append(Ob(id='C04.internal.would_product_overflow.%s%s' % (rep, sfx_), prop='C04', group='C04.internal', prelude=PRE, wrappers=[inst], inputs=[(us, 'x'), (us, 'm')],
                      body='\n  ASSUME(%s);' % cond_ + body,
                      kind='L', promote=False, budget=300, dfcc=dict(target=tgt, contracts={tgt: dict(requires=[], ensures=[], assigns='')}),
                      contract='OverflowChecker<%s,true>::would_product_overflow(x, m), for ALL x and ALL magnitudes m >= 1 (not only the grid): true exactly when x*m is outside range(%s); no UB:*' % (ct, ct),
                      functions_under_contract=('au::detail::OverflowChecker<%s,true>::would_product_overflow' % ct,)))
        tgt0 = '_ZN2au6detail15OverflowCheckerI%sLb0EE22would_product_overflowE%s%s' % (code, code, code)
        body = '\n  _Bool r = TARGET(x, m);\n  CHECK(r == (x != 0), "only-zero-survives-an-unrepresentable-magnitude");\n'
        obs.append(Ob(id='C04.internal.would_product_overflow_invalid.%s' % rep, prop='C04', group='C04.internal', prelude=PRE, wrappers=[inst], inputs=[(us, 'x'), (us, 'm')], body=body,
                      kind='L', promote=False, dfcc=dict(target=tgt0, contracts={tgt0: dict(requires=[], ensures=[], assigns='')}),
                      contract='OverflowChecker<%s,false>::would_product_overflow(x, _) == (x != 0)' % ct,
                      functions_under_contract=('au::detail::OverflowChecker<%s,false>::would_product_overflow' % ct,)))
        tgt2 = '_ZN2au6detail33TruncationCheckerIfMagnitudeValidI%sLb1EE14would_truncateE%s%s' % (code, code, code)
        P = G.promoted(rep); cp = G.ctype(P)
        body = '''
  ASSUME(%s >= 1);
  _Bool r = TARGET(x, m);
  CHECK(r == (((%s)%s %% (%s)%s) != 0), "would_truncate-iff-m-does-not-divide-x");
''' % (sview(rep, 'm'), cp, sview(rep, 'x'), cp, sview(rep, 'm'))
        obs.append(Ob(id='C04.internal.would_truncate.%s' % rep, prop='C04', group='C04.internal', prelude=PRE, wrappers=[inst], inputs=[(us, 'x'), (us, 'm')], body=body,
                      kind='L', promote=False, dfcc=dict(target=tgt2, contracts={tgt2: dict(requires=[], ensures=[], assigns='')}),
                      contract='TruncationCheckerIfMagnitudeValid<%s,true>::would_truncate(x, m), all x, all m >= 1: true exactly when m does not divide x; no UB:*' % ct,
                      functions_under_contract=('au::detail::TruncationCheckerIfMagnitudeValid<%s,true>::would_truncate' % ct,)))
    # clamp_to_range_of<T>(U x): mathematical clamp, verified against the contracts of stdx::cmp_greater / cmp_less (mode D, callees replaced)
    pairs = [(t, u) for t in reps for u in ('i32', 'u32', 'i64', 'u64')]
    if tier == 'quick': pairs = pairs[::3]
    for (T, U) in pairs:
        tgt = '_ZN2au6detail17clamp_to_range_ofI%s%sEET_T0_' % (CODE[T], CODE[U])
        lo, hi = G.lit(G.tmin(T)).replace('i128', '__int128'), G.lit(G.tmax(T)).replace('i128', '__int128')
        xv = view(U, 'v_x')
        rvv = '(__int128)(%s)%s' % (G.ctype(T), RV) if G.REPS[T]['signed'] else '(__int128)%s' % RV
        cg = cmp_mangled('cmp_greater', U, T); cl = cmp_mangled('cmp_less', U, T)
        contracts = {tgt: dict(requires=['1'], ensures=['%s == ((%s) > %s ? %s : ((%s) < %s ? %s : (%s)))' % (rvv, xv, hi, hi, xv, lo, lo, xv)], assigns=''),
                     cg: cmp_contract('cmp_greater', U, T), cl: cmp_contract('cmp_less', U, T)}
        obs.append(Ob(id='C04.internal.clamp_to_range_of.%s_%s' % (T, U), prop='C04', group='C04.internal', prelude=PRE, wrappers=[inst], inputs=[], body='', kind='D', promote=False,
                      dfcc=dict(target=tgt, replace=[cg, cl], contracts=contracts, harness='  %s x;\n  f_%s(x);' % (unsigned_storage(U), tgt),
                                must_have=['postcondition', 'precondition'], loops=False),
                      contract='clamp_to_range_of<%s>(%s x) is the mathematical clamp of x to range(%s); verified against the contracts of stdx::cmp_greater / cmp_less (callees replaced)'
                               % (G.ctype(T), G.ctype(U), G.ctype(T)), functions_under_contract=('au::detail::clamp_to_range_of<%s,%s>' % (G.ctype(T), G.ctype(U)),)))
    return obs


def c05_internal(tier):
    obs = []
    reps = G.INT_REPS
    inst = Wrapper('w_c05_internal_inst', 'int32_t', [('int64_t', 'a'), ('uint64_t', 'b'), ('float', 'f'), ('double', 'd')],
                   'using namespace au::detail; int r = 0; ' +
                   ' '.join('r += will_static_cast_overflow<%s>((%s)a) + will_static_cast_truncate<%s>((%s)a);' % (G.ctype(t), G.ctype(s), G.ctype(t), G.ctype(s)) for s in reps for t in reps) +
                   ' '.join('r += will_static_cast_overflow<%s>(f) + will_static_cast_overflow<%s>(d) + will_static_cast_truncate<%s>(f) + will_static_cast_truncate<%s>(d) + '
                            'will_static_cast_overflow<float>((%s)a) + will_static_cast_overflow<double>((%s)a);' % ((G.ctype(t),) * 6) for t in reps) +
                   ' r += will_static_cast_overflow<float>(d) + will_static_cast_overflow<double>(f); return r;')
    pairs = [(s, t) for s in reps for t in reps]
    if tier == 'quick': pairs = [p for i, p in enumerate(pairs) if i % 3 == 0 or p in (('u64', 'i64'), ('i64', 'u64'), ('i32', 'u32'), ('u32', 'i32'), ('i8', 'u8'))]
    for (S, T) in pairs:
        tgt = '_ZN2au6detail25will_static_cast_overflowI%s%sEEbT0_' % (CODE[T], CODE[S])
        xv = view(S, 'v_x')
        lo, hi = G.lit(G.tmin(T)).replace('i128', '__int128'), G.lit(G.tmax(T)).replace('i128', '__int128')
        contracts = {tgt: dict(requires=['1'], ensures=['%s == ((%s) < %s || (%s) > %s)' % (RV, xv, lo, xv, hi)], assigns='')}
        obs.append(Ob(id='C05.internal.will_static_cast_overflow.%s_%s' % (S, T), prop='C05', group='C05.internal', prelude=PRE, wrappers=[inst], inputs=[], body='', kind='D', promote=False,
                      dfcc=dict(target=tgt, replace=[], contracts=contracts, harness='  %s x;\n  f_%s(x);' % (unsigned_storage(S), tgt), must_have=['postcondition'], loops=False),
                      contract='will_static_cast_overflow<%s>(%s x) == (x is outside [min(%s), max(%s)]) as mathematical integers, all values' % (G.ctype(T), G.ctype(S), G.ctype(T), G.ctype(T)),
                      functions_under_contract=('au::detail::will_static_cast_overflow<%s>(%s)' % (G.ctype(T), G.ctype(S)),)))
        tgt2 = '_ZN2au6detail25will_static_cast_truncateI%s%sEEbT0_' % (CODE[T], CODE[S])
        obs.append(Ob(id='C05.internal.will_static_cast_truncate.%s_%s' % (S, T), prop='C05', group='C05.internal', prelude=PRE, wrappers=[inst], inputs=[], body='', kind='D', promote=False,
                      dfcc=dict(target=tgt2, replace=[], contracts={tgt2: dict(requires=['1'], ensures=['%s == 0' % RV], assigns='')},
                                harness='  %s x;\n  f_%s(x);' % (unsigned_storage(S), tgt2), must_have=['postcondition'], loops=False),
                      contract='will_static_cast_truncate<%s>(%s) is false (an integer source cannot truncate)' % (G.ctype(T), G.ctype(S)),
                      functions_under_contract=('au::detail::will_static_cast_truncate<%s>(%s)' % (G.ctype(T), G.ctype(S)),)))
    # floating source, integral destination: soundness of "not reported" and no report for values inside [lowest, max]
    for (S, sc, mant) in (('f32', 'f', 24), ('f64', 'd', 53)):
        cs = G.ctype(S)
        for T in (reps if tier == 'thorough' else ('i8', 'u8', 'i32', 'u32', 'i64', 'u64')):
            w = G.REPS[T]['bits']; sg = G.REPS[T]['signed']
            hi_open = float(2 ** (w - 1 if sg else w))
            lo = -float(2 ** (w - 1)) if sg else 0.0
            tgt = '_ZN2au6detail25will_static_cast_overflowI%s%sEEbT0_' % (CODE[T], sc)
            sfx = 'f' if S == 'f32' else ''
            hx = lambda v: ('(%s%s)' % (float(v).hex(), sfx))
            contracts = {tgt: dict(requires=['1'],
                                   ensures=['%s || (v_x >= %s && v_x < %s) || (v_x != v_x)' % (RV, hx(lo), hx(hi_open)),        # not reported ==> castable (NaN excluded: see truncate)
                                            '!%s || !(v_x >= %s && v_x <= %s) || (v_x != v_x)' % (RV, hx(lo), hx(float(G.tmax(T)) if G.tmax(T) < 2 ** mant else hi_open - 1))],
                                   assigns='')}
            # the second clause: reported only for values outside [lowest, max] (max taken as the largest value <= max(T) representable in the source type)
            if G.tmax(T) >= 2 ** mant:
                # max(T) itself is not representable: every representable x <= max(T) is < 2^N, and those must not be reported
                contracts[tgt]['ensures'][1] = '!%s || !(v_x >= %s && v_x < %s)' % (RV, hx(lo), hx(hi_open))
            obs.append(Ob(id='C05.internal.will_static_cast_overflow.%s_%s' % (S, T), prop='C05', group='C05.internal', prelude=PRE, wrappers=[inst], inputs=[], body='', kind='D',
                          promote=False, fp=True, dfcc=dict(target=tgt, replace=[], contracts=contracts, harness='  %s x;\n  f_%s(x);' % (cs, tgt), must_have=['postcondition'], loops=False),
                          contract='will_static_cast_overflow<%s>(%s x), every bit pattern: not reported ==> %g <= x < %g or x is NaN (NaN is caught by will_static_cast_truncate); reported ==> x is outside [min, max]'
                                   % (G.ctype(T), cs, lo, hi_open), functions_under_contract=('au::detail::will_static_cast_overflow<%s>(%s)' % (G.ctype(T), cs),)))
    return obs
