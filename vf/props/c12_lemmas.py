"""Arithmetic lemmas behind the C12 exactness obligations (terms: vf/lemma.py; proofs: Lean 4 + Mathlib, checked on every run)."""
from lemma import *

MAX = W - 1
a, b, n = V('a'), V('b'), V('n')


def mm_fast_cond(a, b): return Or(eq(b, 0), a < udiv(K(MAX), b))
def mm_pre(a, b, n): return And(ne(n, 0), b < n, Or(a < n, And(a < K(1 << 32), b < K(1 << 32))))


mm_fast = Lemma('mm_fast', ['a', 'b', 'n'], And(ne(n, 0), Or(eq(b, 0), a <= udiv(K(MAX), b))),   # `<=`: also covers a harmless widening of the fast path
                And(Not(umulovf(a, b)), urem(umul(a, b), n) < n, eq(App('mulmod', a, b, n), urem(umul(a, b), n))),
                proof='''  obtain ⟨hn, hf⟩ := hyp
  have hab : a * b < W := by
    rcases hf with h | h
    · subst h; simp [W]
    · 
      have h1 : a * b ≤ W - 1 := by
        calc a * b ≤ ((W - 1) / b) * b := Nat.mul_le_mul_right b h
          _ ≤ W - 1 := Nat.div_mul_le_self _ _
      have hW : 0 < W := by simp [W]
      omega
  have hn0 : 0 < n := Nat.pos_of_ne_zero hn
  have e : a * b % W = a * b := Nat.mod_eq_of_lt hab
  refine ⟨by omega, ?_, ?_⟩
  · rw [e]; exact Nat.mod_lt _ hn0
  · unfold spec_mulmod
    rw [e]
    exact Nat.mod_eq_of_lt (lt_trans (Nat.mod_lt _ hn0) hW_n)''',
                doc='mul_mod fast path: when b == 0 or a <= MAX / b the 64-bit product does not wrap and (a * b) % n is the exact residue')

_cs = udiv(n, a); _nc = udiv(b, _cs); _acs = umul(a, _cs); _neg = n - _acs; _ncs = umul(_nc, _cs); _lo = b - _ncs; _alo = umul(a, _lo)
_X = App('mulmod', _neg, _nc, n); _Y = urem(_alo, n)
mm_slow = Lemma('mm_slow', ['a', 'b', 'n'], And(mm_pre(a, b, n), Not(mm_fast_cond(a, b))),
                And(ne(a, 0), ne(_cs, 0), Not(umulovf(a, _cs)), _acs <= n, Not(umulovf(_nc, _cs)), _ncs <= b, Not(umulovf(a, _lo)),
                    _neg < n, _nc < n, _neg < a, _Y < n, _X < n,
                    eq(App('mulmod', a, b, n), Ite(_X <= _Y, _Y - _X, (n - _X) + _Y))),
                proof=r'''  obtain ⟨⟨hn, hbn, hpre⟩, hslow⟩ := hyp
  have hb0 : b ≠ 0 := fun h => hslow (Or.inl h)
  have hge : 18446744073709551615 / b ≤ a := Nat.le_of_not_lt (fun h => hslow (Or.inr h))
  have hWv : W = 18446744073709551616 := rfl
  have hn0 : 0 < n := Nat.pos_of_ne_zero hn
  have hbpos : 0 < b := Nat.pos_of_ne_zero hb0
  have ha0 : 0 < a := by
    have : 0 < 18446744073709551615 / b := Nat.div_pos (by omega) hbpos
    omega
  have han : a < n := by
    rcases hpre with h | ⟨h1, h2⟩
    · exact h
    · exfalso
      have : 4294967296 ≤ 18446744073709551615 / b := (Nat.le_div_iff_mul_le hbpos).mpr (by omega)
      omega
  obtain ⟨hcs, h1, h2, h3, hneg, hnc, hmain⟩ :=
    mulmod_core a b n (n / a) (b / (n / a)) (n - a * (n / a)) (b - b / (n / a) * (n / a))
      ((n - a * (n / a)) * (b / (n / a)) % n) (a * (b - b / (n / a) * (n / a)) % n) rfl rfl rfl rfl rfl rfl hn0 han ha0
  have e1 : a * (n / a) % W = a * (n / a) := Nat.mod_eq_of_lt (by omega)
  have e2 : b / (n / a) * (n / a) % W = b / (n / a) * (n / a) := Nat.mod_eq_of_lt (by omega)
  have e3 : (n + W - a * (n / a)) % W = n - a * (n / a) := sub_wrap _ _ h1 hW_n
  have e4 : (b + W - b / (n / a) * (n / a)) % W = b - b / (n / a) * (n / a) := sub_wrap _ _ h2 hW_b
  have e5 : a * (b - b / (n / a) * (n / a)) % W = a * (b - b / (n / a) * (n / a)) := Nat.mod_eq_of_lt (by omega)
  have hXlt : (n - a * (n / a)) * (b / (n / a)) % n < n := Nat.mod_lt _ hn0
  have hYlt : a * (b - b / (n / a) * (n / a)) % n < n := Nat.mod_lt _ hn0
  have s1 : spec_mulmod (n - a * (n / a)) (b / (n / a)) n = (n - a * (n / a)) * (b / (n / a)) % n := by
    unfold spec_mulmod; exact Nat.mod_eq_of_lt (by omega)
  have s2 : spec_mulmod a b n = a * b % n := by
    unfold spec_mulmod; exact Nat.mod_eq_of_lt (lt_trans (Nat.mod_lt _ hn0) hW_n)
  simp only [e1, e2, e3, e4, e5, s1, s2]
  refine ⟨by omega, by omega, by omega, h1, by omega, h2, by omega, by omega, by omega, hneg, hYlt, hXlt, ?_⟩
  rw [hmain]
  split_ifs with hc
  · exact (sub_wrap _ _ hc (by omega)).symm
  · rw [sub_wrap _ _ (le_of_lt hXlt) hW_n]
    exact (Nat.mod_eq_of_lt (by omega)).symm''',
                doc='mul_mod slow path: with chunk_size = n / a, num_chunks = b / chunk_size, negative_chunk = n - a * chunk_size, leftover = b - num_chunks * chunk_size: '
                    'no product wraps, the recursive call is within the precondition with a smaller first argument, and a*b mod n = (n - negative_chunk*num_chunks mod n) + (a*leftover mod n) reduced once')

MULMOD = [mm_fast, mm_slow]
MULMOD_PRELUDE = open(__import__("os").path.join(__import__("os").path.dirname(__file__), "..", "..", "lemmas", "mulmod_core.lean")).read()

# ---------------------------------------------------------------------------------------------------------------- pow_mod
r_, e_, b0, e0 = V('r'), V('e'), V('b0'), V('e0')
pm_entry = Lemma('pm_entry', ['b0', 'e0', 'n'], K(1) < n,
                 And(urem(b0, n) < n, eq(App('mulmod', 1, App('powmod', urem(b0, n), e0, n), n), App('powmod', b0, e0, n))),
                 proof=r'''  have hn0 : 0 < n := by omega
  have hlt : b0 % n < n := Nat.mod_lt _ hn0
  refine ⟨hlt, ?_⟩
  rw [spec_mulmod_eq _ _ _ hn0 hW_n, spec_powmod_eq _ _ _ hn0 hW_n, spec_powmod_eq _ _ _ hn0 hW_n]
  rw [Nat.one_mul, Nat.mod_mod, ← Nat.pow_mod]''',
                 doc='pow_mod entry: after base %= n, 1 * (base^exp mod n) mod n is base0^exp mod n')
_b2 = App('mulmod', b, b, n); _e2 = udiv(e_, 2)
pm_step = Lemma('pm_step', ['r', 'b', 'e', 'n'], And(K(1) < n, r_ < n, b < n, K(0) < e_),
                And(_e2 < e_,
                    eq(App('mulmod', Ite(eq(urem(e_, 2), 1), App('mulmod', r_, b, n), r_), App('powmod', _b2, _e2, n), n),
                       App('mulmod', r_, App('powmod', b, e_, n), n))),
                proof=r'''  obtain ⟨hn1, hr, hb, he⟩ := hyp
  have hn0 : 0 < n := by omega
  refine ⟨by omega, ?_⟩
  rw [spec_mulmod_eq _ _ _ hn0 hW_n, spec_mulmod_eq _ _ _ hn0 hW_n, spec_mulmod_eq _ _ _ hn0 hW_n, spec_mulmod_eq _ _ _ hn0 hW_n,
      spec_powmod_eq _ _ _ hn0 hW_n, spec_powmod_eq _ _ _ hn0 hW_n]
  have hsplit : b ^ e = (b * b) ^ (e / 2) * b ^ (e % 2) := by
    have : e = 2 * (e / 2) + e % 2 := (Nat.div_add_mod e 2).symm
    conv_lhs => rw [this]
    rw [pow_add, pow_mul, pow_two]
  have hpow : (b * b % n) ^ (e / 2) % n = (b * b) ^ (e / 2) % n := (Nat.pow_mod _ _ _).symm
  show _ ≡ _ [MOD n]
  have h1 : (b * b % n) ^ (e / 2) % n ≡ (b * b) ^ (e / 2) [MOD n] := by
    unfold Nat.ModEq; rw [Nat.mod_mod]; exact hpow
  have h2 : b ^ e % n ≡ b ^ e [MOD n] := Nat.mod_modEq _ _
  rcases Nat.mod_two_eq_zero_or_one e with h | h
  · have hif : (if e % 2 = 1 then r * b % n else r) = r := by simp [h]
    rw [hif]
    have : b ^ e = (b * b) ^ (e / 2) := by rw [hsplit, h]; simp
    calc r * ((b * b % n) ^ (e / 2) % n) ≡ r * (b * b) ^ (e / 2) [MOD n] := Nat.ModEq.mul_left _ h1
      _ = r * b ^ e := by rw [this]
      _ ≡ r * (b ^ e % n) [MOD n] := (Nat.ModEq.mul_left _ h2).symm
  · have hif : (if e % 2 = 1 then r * b % n else r) = r * b % n := by simp [h]
    rw [hif]
    have : b ^ e = (b * b) ^ (e / 2) * b := by rw [hsplit, h]; simp
    calc r * b % n * ((b * b % n) ^ (e / 2) % n) ≡ (r * b) * (b * b) ^ (e / 2) [MOD n] := Nat.ModEq.mul (Nat.mod_modEq _ _) h1
      _ = r * b ^ e := by rw [this]; ring
      _ ≡ r * (b ^ e % n) [MOD n] := (Nat.ModEq.mul_left _ h2).symm''',
                doc='pow_mod loop step: with b2 = b*b mod n, e2 = e / 2 and r2 = (e odd ? r*b mod n : r):  r2 * (b2^e2 mod n) = r * (b^e mod n)  (mod n), and e2 < e')
pm_exit = Lemma('pm_exit', ['r', 'b', 'n'], And(K(1) < n, r_ < n),
                eq(App('mulmod', r_, App('powmod', b, 0, n), n), r_),
                proof=r'''  obtain ⟨hn1, hr⟩ := hyp
  have hn0 : 0 < n := by omega
  rw [spec_mulmod_eq _ _ _ hn0 hW_n, spec_powmod_eq _ _ _ hn0 hW_n]
  rw [pow_zero, Nat.mod_eq_of_lt hn1, Nat.mul_one]
  exact Nat.mod_eq_of_lt hr''',
                doc='pow_mod exit: r * (b^0 mod n) mod n = r for r < n, n > 1')
POWMOD = [pm_entry, pm_step, pm_exit]
SPEC_PRELUDE = r'''
theorem spec_mulmod_eq (a b n : Nat) (hn0 : 0 < n) (hW : n < W) : spec_mulmod a b n = a * b % n := by
  unfold spec_mulmod; exact Nat.mod_eq_of_lt (lt_trans (Nat.mod_lt _ hn0) hW)

theorem spec_powmod_eq (a b n : Nat) (hn0 : 0 < n) (hW : n < W) : spec_powmod a b n = a ^ b % n := by
  unfold spec_powmod; exact Nat.mod_eq_of_lt (lt_trans (Nat.mod_lt _ hn0) hW)
'''

# ---------------------------------------------------------------------------------------------------------------- gcd
g_step = Lemma('g_step', ['a', 'b'], ne(b, 0),
               And(urem(a, b) < b, eq(App('gcd', b, urem(a, b)), App('gcd', a, b))),
               proof=r'''  have hb0 : 0 < b := Nat.pos_of_ne_zero hyp
  have hlt : a % b < b := Nat.mod_lt _ hb0
  refine ⟨hlt, ?_⟩
  rw [spec_gcd_eq _ _ hW_b (lt_trans hlt hW_b), spec_gcd_eq _ _ hW_a hW_b]
  rw [Nat.gcd_comm b (a % b), ← Nat.gcd_rec, Nat.gcd_comm]''',
               doc='Euclid step: gcd(b, a mod b) = gcd(a, b) and a mod b < b')
g_exit = Lemma('g_exit', ['a'], TRUE, eq(App('gcd', a, 0), a),
               proof=r'''  rw [spec_gcd_eq _ _ hW_a (by simp [W])]
  exact Nat.gcd_zero_right a''',
               doc='gcd(a, 0) = a')
GCD = [g_step, g_exit]
GCD_PRELUDE = r'''
theorem spec_gcd_eq (a b : Nat) (ha : a < W) (hb : b < W) : spec_gcd a b = Nat.gcd a b := by
  unfold spec_gcd
  apply Nat.mod_eq_of_lt
  rcases Nat.eq_zero_or_pos a with h | h
  · subst h; simpa using hb
  · exact lt_of_le_of_lt (Nat.gcd_le_left b h) ha
'''

# ---------------------------------------------------------------------------------------------------------------- is_perfect_square
p_ = V('p')
sq_small = Lemma('sq_small', ['n'], n < K(2), PApp('issquare', n),
                 proof=r'''  unfold specp_issquare
  rcases Nat.eq_zero_or_pos n with h | h
  · exact ⟨0, by omega⟩
  · exact ⟨1, by omega⟩''', doc='0 and 1 are perfect squares')
sq_init = Lemma('sq_init', ['n'], K(2) <= n, And(K(1) <= udiv(n, 2), App('isqrt', n) <= udiv(n, 2)),
                proof=r'''  refine ⟨by omega, ?_⟩
  rw [spec_isqrt_eq _ hW_n]
  exact sqrt_le_half n hyp''', doc='for n >= 2 the start value n/2 is at least 1 and at least floor(sqrt n)')
_q = udiv(n, p_); _c = udiv(p_ + _q, 2); _hit = And(eq(udiv(n, _c), _c), eq(urem(n, _c), 0))
sq_step = Lemma('sq_step', ['n', 'p'], And(K(2) <= n, K(1) <= p_, App('isqrt', n) <= p_, p_ <= udiv(n, 2)),
                And(_q <= K(MAX) - p_, K(1) <= _c, App('isqrt', n) <= _c,
                    Imp(_hit, PApp('issquare', n)),
                    Imp(And(p_ <= _c, Not(_hit)), Not(PApp('issquare', n)))),
                proof=r'''  obtain ⟨hn, hp, hs, hph⟩ := hyp
  rw [spec_isqrt_eq _ hW_n] at hs
  rw [spec_isqrt_eq _ hW_n]
  have hWv : W = 18446744073709551616 := rfl
  have hq : n / p ≤ n := Nat.div_le_self n p
  have hsum : p + n / p < W := by
    rcases Nat.lt_or_ge p 2 with h | h
    · have hp1 : p = 1 := by omega
      subst hp1
      have : Nat.sqrt n < 2 := by omega
      have : n < 2 * 2 := Nat.sqrt_lt.mp this
      omega
    · have : n / p ≤ n / 2 := Nat.div_le_div_left h (by norm_num)
      omega
  have e1 : (p + n / p) % W = p + n / p := Nat.mod_eq_of_lt hsum
  have e2 : (18446744073709551615 + W - p) % W = 18446744073709551615 - p := sub_wrap _ _ (by omega) (by omega)
  simp only [e1, e2]
  have hc1 : 1 ≤ (p + n / p) / 2 := by
    rcases Nat.lt_or_ge p 2 with h | h
    · have hp1 : p = 1 := by omega
      subst hp1
      simp only [Nat.div_one]
      omega
    · have := Nat.zero_le (n / p)
      omega
  refine ⟨by omega, hc1, newton_ge n p hp, ?_, ?_⟩
  · rintro ⟨h1, h2⟩
    exact newton_sq_true n _ h1 h2
  · rintro ⟨hcp, hne⟩
    exact newton_sq_false n p hn hp hs hcp hne''',
                doc='Newton step for floor(sqrt n): with prev >= max(1, floor sqrt n), prev <= n/2 and curr = (prev + n/prev)/2: the sum does not wrap, curr >= max(1, floor sqrt n); '
                    'if n/curr == curr and n%curr == 0 then n is a perfect square; if curr >= prev and that test fails then n is not a perfect square')
SQUARE = [sq_small, sq_init, sq_step]
SQUARE_PRELUDE = r'''
theorem sub_wrap (x y : Nat) (hy : y ≤ x) (hx : x < W) : (x + W - y) % W = x - y := by
  have : x + W - y = (x - y) + W := by omega
  rw [this, Nat.add_mod_right]
  exact Nat.mod_eq_of_lt (by omega)

theorem spec_isqrt_eq (n : Nat) (hn : n < W) : spec_isqrt n = Nat.sqrt n := by
  unfold spec_isqrt; exact Nat.mod_eq_of_lt (lt_of_le_of_lt (Nat.sqrt_le_self n) hn)
''' + open(__import__("os").path.join(__import__("os").path.dirname(__file__), "..", "..", "lemmas", "newton_sqrt.lean")).read()

# ---------------------------------------------------------------------------------------------------------------- multiplicity
f_, m_, n0_ = V('f'), V('m'), V('n0')
mu_init = Lemma('mu_init', ['f', 'n'], TRUE, And(PApp('powfits', f_, 0), Not(umulovf(App('pow', f_, 0), n)), eq(umul(App('pow', f_, 0), n), n)),
                proof=r'''  have e : spec_pow f 0 = 1 := by unfold spec_pow; simp [W]
  rw [e, Nat.one_mul]
  exact ⟨by unfold specp_powfits; simp [W], by omega, Nat.mod_eq_of_lt hW_n⟩''', doc='f^0 * n = n')
_pm = App('pow', f_, m_); _n1 = udiv(n, f_); _pm1 = App('pow', f_, m_ + 1)
mu_step = Lemma('mu_step', ['f', 'm', 'n', 'n0'],
                And(K(1) < f_, K(0) < n, PApp('powfits', f_, m_), Not(umulovf(_pm, n)), eq(umul(_pm, n), n0_), eq(urem(n, f_), 0)),
                And(m_ < K(64), K(0) < _n1, _n1 < n, PApp('powfits', f_, m_ + 1), Not(umulovf(_pm1, _n1)), eq(umul(_pm1, _n1), n0_)),
                proof=r'''  obtain ⟨hf, hn, hfit, hno, hprod, hdiv⟩ := hyp
  have hWv : W = 2 ^ 64 := by norm_num [W]
  have hle : f ^ m ≤ f ^ m * n := Nat.le_mul_of_pos_right _ hn
  unfold specp_powfits at hfit
  have hp : spec_pow f m = f ^ m := by unfold spec_pow; exact Nat.mod_eq_of_lt hfit
  rw [hp] at hno hprod
  have hfm : f ^ m * n < W := by omega
  rw [Nat.mod_eq_of_lt hfm] at hprod
  have hm : m < 64 := by
    by_contra hc
    have h64 : 64 ≤ m := by omega
    have : 2 ^ 64 ≤ f ^ m := calc 2 ^ 64 ≤ 2 ^ m := Nat.pow_le_pow_right (by norm_num) h64
      _ ≤ f ^ m := Nat.pow_le_pow_left (by omega) m
    omega
  have hnf : f * (n / f) = n := Nat.mul_div_cancel' (Nat.dvd_of_mod_eq_zero hdiv)
  have hq0 : 0 < n / f := by
    rcases Nat.eq_zero_or_pos (n / f) with h | h
    · rw [h] at hnf; omega
    · exact h
  have hqn : n / f < n := Nat.div_lt_self hn hf
  have e1 : (m + 1) % W = m + 1 := Nat.mod_eq_of_lt (by omega)
  have hkey : f ^ (m + 1) * (n / f) = f ^ m * n := by
    rw [pow_succ, Nat.mul_assoc, hnf]
  have hfit1 : f ^ (m + 1) < W := by
    have : f ^ (m + 1) ≤ f ^ (m + 1) * (n / f) := Nat.le_mul_of_pos_right _ hq0
    omega
  have hp1 : spec_pow f (m + 1) = f ^ (m + 1) := by
    unfold spec_pow
    exact Nat.mod_eq_of_lt hfit1
  simp only [e1, hp1]
  refine ⟨hm, hq0, hqn, by unfold specp_powfits; exact hfit1, by omega, ?_⟩
  rw [hkey, Nat.mod_eq_of_lt hfm]; exact hprod''',
                doc='multiplicity loop step: if f^m < 2^64, f^m * n = n0 without wrap and f divides n, then m < 64, 0 < n/f < n and f^(m+1) * (n/f) = n0 without wrap')
MULT = [mu_init, mu_step]
g_facts = Lemma('g_facts', ['a', 'b'], TRUE,
                And(eq(App('gcd', a, 1), 1), eq(App('gcd', 1, a), 1), eq(App('gcd', a, a), a), eq(App('gcd', 0, a), a), eq(App('gcd', a, b), App('gcd', b, a)),
                    Imp(ne(b, 0), And(K(1) <= App('gcd', a, b), App('gcd', a, b) <= b))),
                proof=r'''  have h1 : (1 : Nat) < W := by simp [W]
  have h0 : (0 : Nat) < W := by simp [W]
  rw [spec_gcd_eq _ _ hW_a h1, spec_gcd_eq _ _ h1 hW_a, spec_gcd_eq _ _ hW_a hW_a, spec_gcd_eq _ _ h0 hW_a, spec_gcd_eq _ _ hW_a hW_b, spec_gcd_eq _ _ hW_b hW_a]
  refine ⟨Nat.gcd_one_right a, Nat.gcd_one_left a, Nat.gcd_self a, Nat.gcd_zero_left a, Nat.gcd_comm a b, ?_⟩
  intro hb
  have hb0 : 0 < b := Nat.pos_of_ne_zero hb
  exact ⟨Nat.gcd_pos_of_pos_right a hb0, Nat.gcd_le_right a hb0⟩''',
                doc='elementary gcd facts (not needed by the present code; they keep the proof from failing on harmless shortcuts such as an early return for b == 1)')
GCD.append(g_facts)
mm_facts = Lemma('mm_facts', ['a', 'b', 'n'], ne(n, 0),
                 And(App('mulmod', a, b, n) < n, eq(App('mulmod', a, b, n), App('mulmod', b, a, n)), eq(App('mulmod', a, 0, n), 0), eq(App('mulmod', 0, a, n), 0),
                     eq(App('mulmod', a, 1, n), urem(a, n)), eq(App('mulmod', 1, a, n), urem(a, n)),
                     eq(App('mulmod', urem(a, n), b, n), App('mulmod', a, b, n)), eq(App('mulmod', a, urem(b, n), n), App('mulmod', a, b, n))),
                 proof=r'''  have hn0 : 0 < n := Nat.pos_of_ne_zero hyp
  simp only [spec_mulmod_eq _ _ _ hn0 hW_n]
  refine ⟨Nat.mod_lt _ hn0, by rw [Nat.mul_comm], by simp, by simp, by simp, by simp, ?_, ?_⟩
  · exact (Nat.mod_mul_mod a b n)
  · exact (Nat.mul_mod_mod a b n)''',
                 doc='elementary facts about a*b mod n (symmetry, zero, one, reduced operands): keep the proofs from failing on harmless shortcuts')
MULMOD.append(mm_facts)
POWMOD.append(mm_facts)

# ---------------------------------------------------------------------------------------------------------------- Jacobi symbol (encoded as J + 1 in {0,1,2})
def _j(x, y): return App('jac', x, y)
def _same_or_neg(c, x, y): return Ite(c, eq(x, y), eq(x + y, 2))
_s8 = Or(eq(urem(n, 8), 1), eq(urem(n, 8), 7)); _rs = Or(eq(urem(a, 4), 1), eq(urem(n, 4), 1))
jc_basic = Lemma('jc_basic', ['a', 'n'], TRUE,
                 And(_j(a, n) <= K(2), eq(_j(1, n), 2), Imp(K(1) < n, eq(_j(0, n), 1)),
                     Imp(ne(n, 0), And(Imp(eq(_j(a, n), 1), ne(App('gcd', a, n), 1)), Imp(ne(App('gcd', a, n), 1), eq(_j(a, n), 1))))),
                 proof=r'''  have h1W : (1 : Nat) < W := by simp [W]
  have h0W : (0 : Nat) < W := by simp [W]
  rw [spec_jac_eq, spec_jac_eq, spec_jac_eq, spec_gcd_eq _ _ hW_a hW_n]
  refine ⟨jac_enc_le a n, ?_, ?_, ?_⟩
  · have := jacobiSym.one_left n
    simp only [Nat.cast_one] at *
    rw [this]; decide
  · intro hn
    have := @jacobiSym.zero_left n hn
    simp only [Nat.cast_zero] at *
    rw [this]; decide
  · intro hn
    have hn0 : 0 < n := Nat.pos_of_ne_zero hn
    have hg := jac_gcd a n hn0
    constructor
    · intro h
      apply hg.mp
      rcases jacobiSym.trichotomy (a : ℤ) n with h' | h' | h'
      · exact h'
      · rw [h'] at h; exact absurd h (by decide)
      · rw [h'] at h; exact absurd h (by decide)
    · intro h
      rw [hg.mpr h]; decide''',
                 doc='Jacobi symbol basics: J in {-1,0,1}; (1|n) = 1; (0|n) = 0 for n > 1; (a|n) = 0 exactly when gcd(a,n) != 1')
jc_even = Lemma('jc_even', ['a', 'n'], And(eq(urem(n, 2), 1), eq(urem(a, 2), 0)),
                _same_or_neg(_s8, _j(a, n), _j(udiv(a, 2), n)),
                proof=r'''  obtain ⟨hn, ha⟩ := hyp
  rw [spec_jac_eq, spec_jac_eq]
  have h := jac_even a n hn ha
  have e2 : ((2 : Nat) : ℤ) = 2 := rfl
  by_cases h8 : n % 8 = 1 ∨ n % 8 = 7
  · simp only [h8, if_true, one_mul] at h ⊢
    rw [h]
  · simp only [h8, if_false] at h ⊢
    rw [h]
    rcases jacobiSym.trichotomy ((a / 2 : ℕ) : ℤ) n with h' | h' | h' <;> rw [h'] <;> decide''',
                doc='(a|n) = (2|n) * (a/2|n) for even a, with (2|n) = +1 iff n = 1 or 7 (mod 8) (n odd)')
jc_flip = Lemma('jc_flip', ['a', 'n'], And(eq(urem(a, 2), 1), eq(urem(n, 2), 1)),
                And(urem(n, a) < a, _same_or_neg(_rs, _j(a, n), _j(urem(n, a), a))),
                proof=r'''  obtain ⟨ha, hn⟩ := hyp
  have ha0 : 0 < a := by omega
  refine ⟨Nat.mod_lt _ ha0, ?_⟩
  rw [spec_jac_eq, spec_jac_eq]
  have h := jac_flip a n ha hn
  by_cases h4 : a % 4 = 1 ∨ n % 4 = 1
  · simp only [h4, if_true, one_mul] at h ⊢
    rw [h]
  · simp only [h4, if_false] at h ⊢
    rw [h]
    rcases jacobiSym.trichotomy ((n % a : ℕ) : ℤ) a with h' | h' | h' <;> rw [h'] <;> decide''',
                doc='quadratic reciprocity with reduction: for odd a, n: (a|n) = +-(n mod a | a), + exactly when a = 1 or n = 1 (mod 4); and n mod a < a')
JACOBI = [jc_basic, jc_even, jc_flip]
JACOBI_PRELUDE = GCD_PRELUDE + open(__import__("os").path.join(__import__("os").path.dirname(__file__), "..", "..", "lemmas", "jacobi_core.lean")).read() + r'''
theorem spec_jac_eq (a n : Nat) : spec_jac a n = (jacobiSym (a : ℤ) n + 1).toNat := by
  unfold spec_jac
  exact Nat.mod_eq_of_lt (lt_of_le_of_lt (jac_enc_le a n) (by simp [W]))
'''
x_ = V('x')
rem_facts = Lemma('rem_facts', ['x', 'n'], ne(n, 0), And(urem(x_, n) < n, urem(x_, n) <= x_, Imp(x_ < n, eq(urem(x_, n), x_))),
                  proof=r'''  have hn0 : 0 < n := Nat.pos_of_ne_zero hyp
  exact ⟨Nat.mod_lt _ hn0, Nat.mod_le _ _, fun h => Nat.mod_eq_of_lt h⟩''', doc='x mod n < n, <= x, and = x when x < n')
JACOBI.append(rem_facts)
g_div = Lemma('g_div', ['a', 'b'], ne(a, 0),
              And(K(1) <= App('gcd', a, b), App('gcd', a, b) <= a, eq(urem(a, App('gcd', a, b)), 0), eq(urem(a, a), 0)),
              proof=r'''  have ha0 : 0 < a := Nat.pos_of_ne_zero hyp
  rw [spec_gcd_eq _ _ hW_a hW_b]
  refine ⟨Nat.gcd_pos_of_pos_left b ha0, Nat.gcd_le_left b ha0, ?_, Nat.mod_self a⟩
  exact Nat.mod_eq_zero_of_dvd (Nat.gcd_dvd_left a b)''',
              doc='for a != 0: 1 <= gcd(a,b) <= a and gcd(a,b) divides a; a divides a')
GCD.append(g_div)
