#!/usr/bin/env python3
"""ll2c -- mechanical re-emission of clang-14 LLVM IR (typed pointers) as C for CBMC.

The input is what `clang++-14 -O0 -Xclang -disable-O0-optnone -fno-discard-value-names -g
-S -emit-llvm` (optionally followed by `opt -passes=sroa,mem2reg`) prints for a driver that
includes the real Au headers.  One C function is emitted per IR function in the call-graph
closure of the requested roots, one C local per SSA value, one label per basic block.

What is kept / dropped is specified in DESIGN.md section 2.2 and appendix A.  Anything outside
the stated subset raises Unsupported (the caller turns that into exit code 2, never into a
VIOLATION).
"""
import json
import os
import re
import struct
import sys


class Unsupported(Exception):
    pass


# --------------------------------------------------------------------------- tokenizer
TOK_RE = re.compile(r'''
    (?P<ws>\s+)
  | (?P<comment>;[^\n]*)
  | (?P<local>%"(?:[^"\\]|\\.)*"|%[-a-zA-Z$._0-9]+)
  | (?P<global>@"(?:[^"\\]|\\.)*"|@[-a-zA-Z$._0-9]+)
  | (?P<cstr>c"(?:[^"\\]|\\[0-9A-Fa-f]{2}|\\\\)*")
  | (?P<str>"(?:[^"\\]|\\.)*")
  | (?P<meta>![a-zA-Z_][-a-zA-Z$._0-9]*|!\d+|!"(?:[^"\\]|\\.)*"|!(?=\{)|!(?=DI))
  | (?P<attr>\#\d+)
  | (?P<hex>0x[KLMHR]?[0-9A-Fa-f]+)
  | (?P<flt>-?\d+\.\d*(?:e[+-]?\d+)?)
  | (?P<int>-?\d+)
  | (?P<word>[a-zA-Z_][a-zA-Z0-9_.]*)
  | (?P<dots>\.\.\.)
  | (?P<p>[()\[\]{}<>,=*:|])
''', re.X)


def tokenize(s):
    out = []
    pos = 0
    n = len(s)
    while pos < n:
        m = TOK_RE.match(s, pos)
        if not m:
            raise Unsupported('cannot tokenize: %r' % s[pos:pos + 60])
        pos = m.end()
        k = m.lastgroup
        if k in ('ws', 'comment'):
            continue
        out.append((k, m.group(k)))
    return out


# --------------------------------------------------------------------------- types
class T:
    pass


class IntT(T):
    def __init__(s, w): s.w = w
    def __repr__(s): return 'i%d' % s.w
    def key(s): return 'i%d' % s.w


class FpT(T):
    def __init__(s, k): s.k = k
    def __repr__(s): return s.k
    def key(s): return s.k


class VoidT(T):
    def key(s): return 'void'
    def __repr__(s): return 'void'


class PtrT(T):
    def __init__(s, e): s.e = e
    def key(s): return s.e.key() + '*'
    def __repr__(s): return s.key()


class NamedT(T):
    def __init__(s, n): s.n = n
    def key(s): return '%' + s.n
    def __repr__(s): return s.key()


class LitStructT(T):
    def __init__(s, fs, packed=False): s.fs = fs; s.packed = packed
    def key(s): return ('<{' if s.packed else '{') + ','.join(f.key() for f in s.fs) + ('}>' if s.packed else '}')
    def __repr__(s): return s.key()


class ArrT(T):
    def __init__(s, n, e): s.n = n; s.e = e
    def key(s): return '[%d x %s]' % (s.n, s.e.key())
    def __repr__(s): return s.key()


class FuncT(T):
    def __init__(s, r, ps, va): s.r = r; s.ps = ps; s.va = va
    def key(s): return '%s(%s%s)' % (s.r.key(), ','.join(p.key() for p in s.ps), ',...' if s.va else '')
    def __repr__(s): return s.key()


class OpaqueT(T):
    def __init__(s, n): s.n = n
    def key(s): return s.n
    def __repr__(s): return s.n


PARAM_ATTRS = {'noundef', 'nonnull', 'zeroext', 'signext', 'noalias', 'nocapture', 'readonly', 'writeonly',
               'returned', 'immarg', 'inreg', 'nest', 'readnone', 'nofree', 'swiftself', 'inalloca'}
PARAM_ATTRS_ARG = {'align', 'dereferenceable', 'dereferenceable_or_null'}
PARAM_ATTRS_TY = {'sret', 'byval', 'byref', 'preallocated', 'elementtype'}


class P:
    """token cursor"""

    def __init__(s, toks): s.t = toks; s.i = 0
    def peek(s, k=0): return s.t[s.i + k] if s.i + k < len(s.t) else (None, None)
    def next(s):
        x = s.t[s.i]; s.i += 1; return x
    def at(s, v): return s.i < len(s.t) and s.t[s.i][1] == v
    def eat(s, v):
        if s.at(v): s.i += 1; return True
        return False
    def expect(s, v):
        if not s.eat(v):
            raise Unsupported('expected %r at %r' % (v, s.t[s.i:s.i + 6]))
    def done(s): return s.i >= len(s.t)


def unq(name):
    """%"a b" -> a b ; %x -> x ; @"x" -> x"""
    name = name[1:]
    if name.startswith('"'):
        name = name[1:-1]
    return name


def parse_type(p):
    k, v = p.next()
    if k == 'word':
        m = re.fullmatch(r'i(\d+)', v)
        if m:
            t = IntT(int(m.group(1)))
        elif v in ('float', 'double'):
            t = FpT(v)
        elif v == 'void':
            t = VoidT()
        elif v in ('x86_fp80', 'half', 'fp128', 'bfloat', 'ppc_fp128', 'metadata', 'label', 'token', 'x86_mmx', 'ptr'):
            t = OpaqueT(v)
        elif v == 'opaque':
            t = OpaqueT('opaque')
        else:
            raise Unsupported('type word %r' % v)
    elif k == 'local':
        t = NamedT(unq(v))
    elif v == '{':
        fs = []
        if not p.eat('}'):
            while True:
                fs.append(parse_type(p))
                if p.eat('}'): break
                p.expect(',')
        t = LitStructT(fs)
    elif v == '<':
        if p.at('{'):
            t = parse_type(p)
            t.packed = True
            p.expect('>')
        else:
            raise Unsupported('vector type')
    elif v == '[':
        k2, n = p.next()
        p.expect('x')
        e = parse_type(p)
        p.expect(']')
        t = ArrT(int(n), e)
    else:
        raise Unsupported('type token %r' % v)
    while True:
        if p.eat('*'):
            t = PtrT(t)
        elif p.at('('):
            # function type
            p.next()
            ps = []; va = False
            if not p.eat(')'):
                while True:
                    if p.at('...'):
                        p.next(); va = True
                    else:
                        ps.append(parse_type(p))
                        skip_param_attrs(p)
                    if p.eat(')'): break
                    p.expect(',')
            t = FuncT(t, ps, va)
        else:
            break
    return t


def skip_param_attrs(p):
    """skips parameter / return attributes; returns dict of the ones we care about"""
    got = {}
    while True:
        k, v = p.peek()
        if k != 'word':
            break
        if v in PARAM_ATTRS:
            p.next(); got[v] = True
        elif v in PARAM_ATTRS_ARG:
            p.next()
            if p.eat('('):
                p.next(); p.expect(')')
            else:
                p.next()
        elif v in PARAM_ATTRS_TY:
            p.next(); p.expect('('); ty = parse_type(p); p.expect(')'); got[v] = ty
        else:
            break
    return got


# --------------------------------------------------------------------------- values
class V:
    pass


class Local(V):
    def __init__(s, n): s.n = n


class Global(V):
    def __init__(s, n): s.n = n


class CInt(V):
    def __init__(s, v): s.v = v


class CFp(V):
    def __init__(s, txt): s.txt = txt


class CNull(V):
    pass


class CUndef(V):
    pass


class CZero(V):
    pass


class CAgg(V):
    def __init__(s, elems, kind): s.elems = elems; s.kind = kind  # list of (type, value)


class CStr(V):
    def __init__(s, data): s.data = data


class CExpr(V):
    def __init__(s, op, args, extra=None): s.op = op; s.args = args; s.extra = extra


def parse_value(p, ty):
    k, v = p.next()
    if k == 'local': return Local(unq(v))
    if k == 'global': return Global(unq(v))
    if k == 'int': return CInt(int(v))
    if k in ('flt', 'hex'): return CFp(v)
    if k == 'cstr':
        raw = v[2:-1]
        data = bytearray()
        i = 0
        while i < len(raw):
            if raw[i] == '\\':
                data.append(int(raw[i + 1:i + 3], 16)); i += 3
            else:
                data.append(ord(raw[i])); i += 1
        return CStr(bytes(data))
    if k == 'word':
        if v == 'true': return CInt(1)
        if v == 'false': return CInt(0)
        if v == 'null': return CNull()
        if v in ('undef', 'poison'): return CUndef()
        if v == 'zeroinitializer': return CZero()
        if v in ('bitcast', 'inttoptr', 'ptrtoint', 'trunc', 'zext', 'sext', 'addrspacecast'):
            p.expect('(')
            t0 = parse_type(p); a = parse_value(p, t0)
            p.expect('to'); t1 = parse_type(p); p.expect(')')
            return CExpr(v, [(t0, a)], t1)
        if v == 'getelementptr':
            p.eat('inbounds')
            p.expect('(')
            bt = parse_type(p); p.expect(',')
            args = []
            while True:
                p.eat('inrange')
                t = parse_type(p); a = parse_value(p, t); args.append((t, a))
                if p.eat(')'): break
                p.expect(',')
            return CExpr('getelementptr', args, bt)
        if v in ('add', 'sub', 'mul', 'and', 'or', 'xor', 'shl', 'lshr', 'ashr', 'icmp', 'select'):
            raise Unsupported('constant expression %s' % v)
    if v == '{' or v == '[' or (v == '<' and p.at('{')):
        packed = False
        if v == '<':
            p.next(); packed = True; close = '}'
        else:
            close = '}' if v == '{' else ']'
        elems = []
        if not p.eat(close):
            while True:
                t = parse_type(p); a = parse_value(p, t); elems.append((t, a))
                if p.eat(close): break
                p.expect(',')
        if packed: p.expect('>')
        return CAgg(elems, 'struct' if close == '}' else 'array')
    raise Unsupported('value token %r %r' % (k, v))


# --------------------------------------------------------------------------- module
class Instr:
    __slots__ = ('dst', 'op', 'a', 'dbg', 'loopmd', 'text')

    def __init__(s, dst, op, a, dbg, text, loopmd=None):
        s.dst = dst; s.op = op; s.a = a; s.dbg = dbg; s.text = text; s.loopmd = loopmd


class Block:
    def __init__(s, name): s.name = name; s.ins = []


class Func:
    def __init__(s): s.name = None; s.ret = None; s.params = []; s.blocks = []; s.va = False; s.dbg = None


class Module:
    def __init__(s):
        s.types = {}      # name -> list of field types | None (opaque)
        s.packed = set()
        s.globals = {}    # name -> (type, init value or None, is_const)
        s.funcs = {}      # name -> Func
        s.decls = {}      # name -> (ret, [param types], va)
        s.dbgloc = {}     # !N -> (file, line)


def san(n):
    return re.sub(r'[^A-Za-z0-9_]', '_', n)


def split_top_level(src):
    """yield logical lines: joins a multi-line `switch ... [ ... ]`"""
    lines = src.split('\n')
    i = 0
    while i < len(lines):
        ln = lines[i]
        if ln.lstrip().startswith('switch ') and ln.rstrip().endswith('['):
            j = i + 1
            acc = [ln]
            while not lines[j].strip().startswith(']'):
                acc.append(lines[j]); j += 1
            acc.append(lines[j])
            yield ' '.join(acc)
            i = j + 1
            continue
        yield ln
        i += 1


def parse_metadata(src, mod):
    files = {}
    scopes = {}
    locs = {}
    for m in re.finditer(r'^(!\d+) = (?:distinct )?!(DIFile|DISubprogram|DILexicalBlock|DILexicalBlockFile|DILocation|DINamespace|DICompositeType)\((.*)\)\s*$', src, re.M):
        mid, kind, body = m.groups()
        if kind == 'DIFile':
            fm = re.search(r'filename: "([^"]*)"', body)
            files[mid] = fm.group(1)
        elif kind == 'DILocation':
            lm = re.search(r'line: (\d+)', body); sm = re.search(r'scope: (!\d+)', body)
            locs[mid] = (int(lm.group(1)) if lm else 0, sm.group(1) if sm else None)
        else:
            fm = re.search(r'file: (!\d+)', body); sm = re.search(r'scope: (!\d+)', body)
            scopes[mid] = (fm.group(1) if fm else None, sm.group(1) if sm else None)

    def file_of(sc, depth=0):
        while sc is not None and depth < 50:
            if sc not in scopes: return None
            f, up = scopes[sc]
            if f is not None: return files.get(f)
            sc = up; depth += 1
        return None
    for mid, (line, sc) in locs.items():
        f = file_of(sc)
        mod.dbgloc[mid] = (f, line)


try:
    SLOTS = {d['fn']: d['slots'] for d in (json.loads(l) for l in open(os.path.join(os.path.dirname(os.path.abspath(__file__)), 'slots.json')) if l.strip())}
except (OSError, ValueError):
    SLOTS = {}
BINOPS = {'add', 'sub', 'mul', 'sdiv', 'udiv', 'srem', 'urem', 'and', 'or', 'xor', 'shl', 'lshr', 'ashr'}
FBINOPS = {'fadd', 'fsub', 'fmul', 'fdiv', 'frem'}
CASTS = {'zext', 'sext', 'trunc', 'bitcast', 'sitofp', 'uitofp', 'fptosi', 'fptoui', 'fpext', 'fptrunc', 'ptrtoint', 'inttoptr'}
FMF = {'nnan', 'ninf', 'nsz', 'arcp', 'contract', 'afn', 'reassoc', 'fast'}


def cut_metadata(toks):
    """split off trailing `, !dbg !N , !llvm.loop !M ...`; returns (toks, dbg, loopmd)"""
    dbg = None; loopmd = None
    depth = 0
    for i, (k, v) in enumerate(toks):
        if v in '([{' and k == 'p': depth += 1
        elif v in ')]}' and k == 'p': depth -= 1
        elif depth == 0 and v == ',' and i + 1 < len(toks) and toks[i + 1][0] == 'meta' and toks[i + 1][1] not in ('!',):
            nm = toks[i + 1][1]
            if re.fullmatch(r'![a-zA-Z_].*', nm):
                rest = toks[i:]
                j = 0
                while j < len(rest):
                    if rest[j][1] == ',' and j + 2 < len(rest) + 0 and rest[j + 1][0] == 'meta':
                        key = rest[j + 1][1]
                        val = rest[j + 2][1] if j + 2 < len(rest) else None
                        if key == '!dbg': dbg = val
                        if key == '!llvm.loop': loopmd = val
                        j += 3
                    else:
                        j += 1
                return toks[:i], dbg, loopmd
    return toks, dbg, loopmd


def parse_call_args(p):
    args = []
    p.expect('(')
    if not p.eat(')'):
        while True:
            t = parse_type(p)
            at = skip_param_attrs(p)
            if isinstance(t, OpaqueT) and t.n == 'metadata':
                # metadata argument (dbg intrinsics): skip to matching , or )
                depth = 0
                while True:
                    k, v = p.peek()
                    if depth == 0 and v in (',', ')'): break
                    if v in '([{': depth += 1
                    if v in ')]}': depth -= 1
                    p.next()
                args.append((t, None, at))
            else:
                a = parse_value(p, t)
                args.append((t, a, at))
            if p.eat(')'): break
            p.expect(',')
    return args


def parse_instr(line, mod):
    toks = tokenize(line)
    toks, dbg, loopmd = cut_metadata(toks)
    p = P(toks)
    dst = None
    if p.peek()[0] == 'local' and p.peek(1)[1] == '=':
        dst = unq(p.next()[1]); p.next()
    k, op = p.next()
    I = lambda a: Instr(dst, op, a, dbg, line.strip(), loopmd)
    if op in ('tail', 'musttail', 'notail'):
        k, op = p.next()
    if op == 'call':
        while p.peek()[1] in FMF: p.next()
        # cconv / ret attrs
        while p.peek()[0] == 'word' and p.peek()[1] in ('fastcc', 'ccc', 'coldcc'):
            p.next()
        skip_param_attrs(p)
        rt = parse_type(p)
        callee = parse_value(p, None)
        args = parse_call_args(p)
        if isinstance(rt, FuncT): rt = rt.r
        op = 'call'
        return Instr(dst, 'call', (rt, callee, args), dbg, line.strip(), loopmd)
    if op == 'alloca':
        t = parse_type(p)
        if p.eat(','):
            if p.at('align'):
                pass
            else:
                raise Unsupported('dynamic alloca')
        return I((t,))
    if op == 'load':
        p.eat('volatile')
        t = parse_type(p); p.expect(',')
        pt = parse_type(p); a = parse_value(p, pt)
        return I((t, pt, a))
    if op == 'store':
        p.eat('volatile')
        t = parse_type(p); v = parse_value(p, t); p.expect(',')
        pt = parse_type(p); a = parse_value(p, pt)
        return I((t, v, pt, a))
    if op == 'getelementptr':
        p.eat('inbounds')
        bt = parse_type(p); p.expect(',')
        pt = parse_type(p); base = parse_value(p, pt)
        idx = []
        while p.eat(','):
            it = parse_type(p); iv = parse_value(p, it); idx.append((it, iv))
        return I((bt, pt, base, idx))
    if op in BINOPS:
        flags = set()
        while p.peek()[1] in ('nsw', 'nuw', 'exact'):
            flags.add(p.next()[1])
        t = parse_type(p); a = parse_value(p, t); p.expect(','); b = parse_value(p, t)
        return I((flags, t, a, b))
    if op in FBINOPS:
        while p.peek()[1] in FMF: p.next()
        t = parse_type(p); a = parse_value(p, t); p.expect(','); b = parse_value(p, t)
        return I((t, a, b))
    if op == 'fneg':
        while p.peek()[1] in FMF: p.next()
        t = parse_type(p); a = parse_value(p, t)
        return I((t, a))
    if op in ('icmp', 'fcmp'):
        while p.peek()[1] in FMF: p.next()
        pred = p.next()[1]
        t = parse_type(p); a = parse_value(p, t); p.expect(','); b = parse_value(p, t)
        return I((pred, t, a, b))
    if op in CASTS:
        t0 = parse_type(p); a = parse_value(p, t0); p.expect('to'); t1 = parse_type(p)
        return I((t0, a, t1))
    if op == 'select':
        while p.peek()[1] in FMF: p.next()
        ct = parse_type(p); c = parse_value(p, ct); p.expect(',')
        t = parse_type(p); a = parse_value(p, t); p.expect(',')
        t2 = parse_type(p); b = parse_value(p, t2)
        return I((c, t, a, b))
    if op == 'phi':
        while p.peek()[1] in FMF: p.next()
        t = parse_type(p)
        inc = []
        while True:
            p.expect('[')
            v = parse_value(p, t); p.expect(',')
            lbl = unq(p.next()[1]); p.expect(']')
            inc.append((v, lbl))
            if not p.eat(','): break
        return I((t, inc))
    if op == 'br':
        if p.at('label'):
            p.next(); return I((unq(p.next()[1]),))
        t = parse_type(p); c = parse_value(p, t); p.expect(',')
        p.expect('label'); l1 = unq(p.next()[1]); p.expect(',')
        p.expect('label'); l2 = unq(p.next()[1])
        return I((c, l1, l2))
    if op == 'switch':
        t = parse_type(p); v = parse_value(p, t); p.expect(',')
        p.expect('label'); dflt = unq(p.next()[1])
        p.expect('[')
        cases = []
        while not p.eat(']'):
            ct = parse_type(p); cv = parse_value(p, ct); p.expect(',')
            p.expect('label'); cases.append((cv, unq(p.next()[1])))
        return I((t, v, dflt, cases))
    if op == 'ret':
        if p.at('void'):
            return I((None, None))
        t = parse_type(p); v = parse_value(p, t)
        return I((t, v))
    if op == 'unreachable':
        return I(())
    if op == 'extractvalue':
        t = parse_type(p); v = parse_value(p, t)
        idx = []
        while p.eat(','): idx.append(int(p.next()[1]))
        return I((t, v, idx))
    if op == 'insertvalue':
        t = parse_type(p); v = parse_value(p, t); p.expect(',')
        et = parse_type(p); ev = parse_value(p, et)
        idx = []
        while p.eat(','): idx.append(int(p.next()[1]))
        return I((t, v, et, ev, idx))
    raise Unsupported('opcode %s in: %s' % (op, line.strip()[:200]))


LINKAGE = {'private', 'internal', 'available_externally', 'linkonce', 'weak', 'common', 'appending', 'extern_weak',
           'linkonce_odr', 'weak_odr', 'external', 'dso_local', 'dso_preemptable', 'default', 'hidden', 'protected',
           'unnamed_addr', 'local_unnamed_addr', 'thread_local', 'externally_initialized', 'noundef'}


def parse_module(src):
    mod = Module()
    parse_metadata(src, mod)
    cur = None
    blk = None
    for ln in split_top_level(src):
        s = ln.strip()
        if cur is None:
            if not s or s.startswith(';') or s.startswith('!') or s.startswith('source_filename') or s.startswith('target ') \
                    or s.startswith('attributes ') or s.startswith('$'):
                continue
            if s.startswith('%') and ' = type ' in s:
                name, body = s.split(' = type ', 1)
                name = unq(name.strip())
                if body.strip() == 'opaque':
                    mod.types[name] = None
                else:
                    t = parse_type(P(tokenize(body)))
                    mod.types[name] = t.fs
                    if t.packed: mod.packed.add(name)
                continue
            if s.startswith('@'):
                toks = tokenize(s)
                p = P(toks)
                name = unq(p.next()[1]); p.expect('=')
                while p.peek()[0] == 'word' and p.peek()[1] in LINKAGE: p.next()
                if p.at('alias'):
                    raise Unsupported('alias global')
                k, gk = p.next()
                if gk not in ('global', 'constant'):
                    raise Unsupported('global kind %r' % gk)
                t = parse_type(p)
                init = None
                if not p.done() and not p.at(','):
                    init = parse_value(p, t)
                mod.globals[name] = (t, init, gk == 'constant')
                continue
            if s.startswith('declare '):
                hdr = s[len('declare '):]
                f = parse_header(hdr, mod, decl=True)
                mod.decls[f.name] = f
                continue
            if s.startswith('define '):
                hdr = s[len('define '):]
                assert hdr.rstrip().endswith('{'), hdr
                cur = parse_header(hdr.rstrip()[:-1], mod, decl=False)
                blk = None
                continue
            raise Unsupported('top-level line: %s' % s[:120])
        else:
            if s == '}':
                mod.funcs[cur.name] = cur
                cur = None
                continue
            if not s or s.startswith(';'):
                continue
            m = re.match(r'^("(?:[^"\\]|\\.)*"|[-a-zA-Z$._0-9]+):', s)
            if m and not ln.startswith('  '):
                nm = m.group(1)
                if nm.startswith('"'): nm = nm[1:-1]
                blk = Block(nm); cur.blocks.append(blk)
                continue
            if blk is None:
                blk = Block('entry'); cur.blocks.append(blk)
            cur_ins = ('call', s)
            # cheap skip of debug intrinsics
            if 'call void @llvm.dbg.' in s or '@llvm.lifetime.' in s:
                continue
            blk.ins.append(parse_instr(s, mod))
    return mod


def parse_header(hdr, mod, decl):
    toks = tokenize(hdr)
    # cut function-level metadata `!dbg !N` (no comma before it in headers)
    dbg = None
    for i, (k, v) in enumerate(toks):
        if k == 'meta' and v == '!dbg':
            dbg = toks[i + 1][1]
            toks = toks[:i]
            break
    p = P(toks)
    while p.peek()[0] == 'word' and (p.peek()[1] in LINKAGE or p.peek()[1] in ('fastcc', 'ccc')):
        p.next()
    skip_param_attrs(p)
    # return type: parse a type but do NOT swallow the parameter list as a function type
    rt = parse_ret_type(p)
    f = Func()
    f.ret = rt
    f.name = unq(p.next()[1])
    f.dbg = dbg
    p.expect('(')
    n = 0
    if not p.eat(')'):
        while True:
            if p.at('...'):
                p.next(); f.va = True
            else:
                t = parse_type(p)
                at = skip_param_attrs(p)
                nm = None
                if p.peek()[0] == 'local':
                    nm = unq(p.next()[1])
                else:
                    nm = str(n)
                f.params.append((t, nm, at))
                n += 1
            if p.eat(')'): break
            p.expect(',')
    return f


def parse_ret_type(p):
    """like parse_type but stops before `@name(`"""
    # find the index of the first global token; parse the type from tokens before it
    j = p.i
    while p.t[j][0] != 'global': j += 1
    sub = P(p.t[p.i:j])
    t = parse_type(sub)
    if not sub.done():
        raise Unsupported('return type junk %r' % (sub.t[sub.i:],))
    p.i = j
    return t


# --------------------------------------------------------------------------- emission
SX = {8: 'int8_t', 16: 'int16_t', 32: 'int32_t', 64: 'int64_t', 128: '__int128'}
UX = {1: '_Bool', 8: 'uint8_t', 16: 'uint16_t', 32: 'uint32_t', 64: 'uint64_t', 128: 'unsigned __int128'}

LIBM_PURE = {  # external name -> (C name CBMC models, arity)   [CBMC library models; listed in evidence]
    'llvm.trunc.f32': 'truncf', 'llvm.trunc.f64': 'trunc', 'llvm.floor.f32': 'floorf', 'llvm.floor.f64': 'floor',
    'llvm.ceil.f32': 'ceilf', 'llvm.ceil.f64': 'ceil', 'llvm.round.f32': 'roundf', 'llvm.round.f64': 'round',
    'llvm.fabs.f32': 'fabsf', 'llvm.fabs.f64': 'fabs', 'llvm.copysign.f32': 'copysignf', 'llvm.copysign.f64': 'copysign',
    'trunc': 'trunc', 'truncf': 'truncf', 'floor': 'floor', 'floorf': 'floorf', 'ceil': 'ceil', 'ceilf': 'ceilf',
    'abs': 'abs', 'labs': 'labs', 'llabs': 'llabs', 'round': 'round', 'roundf': 'roundf', 'fabs': 'fabs', 'fabsf': 'fabsf', 'copysign': 'copysign', 'copysignf': 'copysignf',
}
# trusted stubs: value unconstrained, arguments recorded in ghost variables (DESIGN 4.3)
LIBM_STUB = {'sin', 'sinf', 'cos', 'cosf', 'tan', 'tanf', 'asin', 'asinf', 'acos', 'acosf', 'atan', 'atanf', 'atan2', 'atan2f',
             'sqrt', 'sqrtf', 'cbrt', 'cbrtf', 'hypot', 'hypotf', 'fmod', 'fmodf', 'remainder', 'remainderf',
             'pow', 'powf', 'exp', 'expf', 'log', 'logf',
             'llvm.sqrt.f32', 'llvm.sqrt.f64', 'llvm.sin.f32', 'llvm.sin.f64', 'llvm.cos.f32', 'llvm.cos.f64',
             'llvm.pow.f32', 'llvm.pow.f64'}


# std::ostream inserters (members `_ZNSolsE<t>` for arithmetic types, free functions for char / C strings)
OSTREAM_INSERTER = re.compile(r'^(?:_ZNSolsE([bsitjlmxyfde])|_ZStlsISt11char_traitsIcEERSt13basic_ostreamIcT_ES5_(c|a|h|PKc|PKa|PKh))$')
OSTREAM_KINDS = {k: i + 1 for i, k in enumerate(['b', 's', 't', 'i', 'j', 'l', 'm', 'x', 'y', 'f', 'd', 'e', 'c', 'a', 'h', 'PKc', 'PKa', 'PKh'])}


class Emitter:
    def __init__(s, mod, wrap_check_default=False, srcroot='/repo/'):
        s.mod = mod
        s.tnames = {}       # struct key -> c struct name
        s.tdefs = {}        # c struct name -> ('struct', [types]) | ('array', n, elem)
        s.torder = []
        s.used = set()
        s.fnames = {}
        s.srcroot = srcroot
        s.stubs_used = set()
        s.pure_used = set()
        s.global_stores = []
        s.assert_sites = []   # (tag, fn)
        s.ncount = 0

    # ---- type names
    def cty(s, t):
        if isinstance(t, IntT):
            if t.w in UX: return UX[t.w]
            if t.w % 8 == 0 and t.w < 64:
                # ABI coercion of small structs (i24, i40, i48, i56): held in the next wider unsigned type; only load/store/call/ret use it
                return UX[32] if t.w < 32 else UX[64]
            raise Unsupported('integer width %d' % t.w)
        if isinstance(t, FpT): return t.k
        if isinstance(t, VoidT): return 'void'
        if isinstance(t, PtrT):
            if isinstance(t.e, FuncT): return 'void*'
            if isinstance(t.e, OpaqueT): return 'void*'
            if isinstance(t.e, NamedT) and t.e.n.startswith(('class.std::basic_ostream', 'class.std::basic_ios', 'class.std::ios_base')):
                return 'void*'      # iostream objects are opaque here: only the recorder stubs below ever receive them
            return s.cty(t.e) + '*'
        if isinstance(t, NamedT):
            return 'struct ' + s.sname(t)
        if isinstance(t, (LitStructT, ArrT)):
            return 'struct ' + s.sname(t)
        if isinstance(t, OpaqueT):
            raise Unsupported('type %s outside subset' % t.n)
        if isinstance(t, FuncT):
            raise Unsupported('function type by value')
        raise Unsupported('type %r' % t)

    def sname(s, t):
        key = t.key()
        if key in s.tnames: return s.tnames[key]
        if isinstance(t, NamedT):
            base = 'S_' + san(t.n)
        elif isinstance(t, ArrT):
            base = 'A%d_' % t.n + san(t.e.key())[:40]
        else:
            base = 'L_' + san(key)[:60]
        nm = base; k = 0
        while nm in s.tdefs or nm in s.used:
            k += 1; nm = '%s__%d' % (base, k)
        s.used.add(nm)
        s.tnames[key] = nm
        if isinstance(t, NamedT):
            if t.n not in s.mod.types:
                raise Unsupported('unknown named type %s' % t.n)
            fs = s.mod.types[t.n]
            if fs is None:
                s.tdefs[nm] = ('opaque',)
            else:
                for f in fs: s.touch(f)
                s.tdefs[nm] = ('struct', fs, t.n in s.mod.packed)
        elif isinstance(t, ArrT):
            s.touch(t.e)
            s.tdefs[nm] = ('array', t.n, t.e)
        else:
            for f in t.fs: s.touch(f)
            s.tdefs[nm] = ('struct', t.fs, t.packed)
        s.torder.append(nm)
        return nm

    def touch(s, t):
        """make sure by-value component types are defined before use"""
        if isinstance(t, (NamedT, LitStructT, ArrT)):
            s.sname(t)
        elif isinstance(t, PtrT):
            # pointer: forward declaration suffices, but register the name
            e = t.e
            while isinstance(e, PtrT): e = e.e
            if isinstance(e, (NamedT, LitStructT, ArrT)):
                s.sname_lazy(e)

    def sname_lazy(s, t):
        # pointers only need a forward declaration; defining is still harmless and simpler,
        # except for recursive types -> guard with an in-progress set
        key = t.key()
        if key in s.tnames: return
        if not hasattr(s, '_inprog'): s._inprog = set()
        if key in s._inprog: return
        s._inprog.add(key)
        try:
            s.sname(t)
        finally:
            s._inprog.discard(key)

    def fields(s, t):
        if isinstance(t, NamedT):
            fs = s.mod.types.get(t.n)
            if fs is None: raise Unsupported('opaque struct %s accessed' % t.n)
            return fs
        if isinstance(t, LitStructT): return t.fs
        raise Unsupported('fields of %r' % t)

    def emit_types(s):
        out = []
        for nm in s.torder:
            out.append('struct %s;' % nm)
        # dependency order: torder is post-order for by-value fields because sname() touches
        # components before appending itself
        for nm in s.torder:
            d = s.tdefs[nm]
            if d[0] == 'opaque': continue
            if d[0] == 'array':
                out.append('struct %s { %s a[%d]; };' % (nm, s.cty(d[2]), max(d[1], 1)))
            else:
                fs = d[1]
                body = ' '.join('%s f%d;' % (s.cty(f), i) for i, f in enumerate(fs)) or 'char _empty;'
                out.append('struct %s { %s }%s;' % (nm, body, ' __attribute__((packed))' if d[2] else ''))
        return '\n'.join(out)

    # ---- names
    def fname(s, n):
        if n not in s.fnames:
            s.fnames[n] = 'f_' + san(n)
        return s.fnames[n]

    def gname(s, n): return 'g_' + san(n)
    def lname(s, n): return 'v_' + san(n)

    # ---- constants
    def fp_const(s, t, txt):
        if txt.startswith('0x'):
            body = txt[2:]
            if body[0] in 'KLMHR': raise Unsupported('non-double hex float constant')
            d = struct.unpack('>d', bytes.fromhex(body.rjust(16, '0')))[0]
        else:
            d = float(txt)
        if d != d:
            bits = struct.unpack('>Q', struct.pack('>d', d))[0]
            if t.k == 'float':
                fb = struct.unpack('>I', struct.pack('>f', d))[0]
                return 'll2c_bits_f32(0x%08xu)' % fb
            return 'll2c_bits_f64(0x%016xULL)' % bits
        if d in (float('inf'), float('-inf')):
            sg = '-' if d < 0 else ''
            return '(%sll2c_bits_f32(0x7f800000u))' % sg if t.k == 'float' else '(%sll2c_bits_f64(0x7ff0000000000000ULL))' % sg
        h = d.hex()
        if t.k == 'float':
            # exact: the IR guarantees the double is representable as float
            return '(%sf)' % h
        return '(%s)' % h

    def const(s, t, v):
        """C expression for constant/value v of IR type t"""
        if isinstance(v, Local): return s.lname(v.n)
        if isinstance(v, Global):
            if v.n in s.mod.funcs or v.n in s.mod.decls:
                raise Unsupported('function address taken: %s' % v.n)
            s.need_global(v.n)
            return '(&%s)' % s.gname(v.n)
        if isinstance(v, CInt):
            if isinstance(t, IntT):
                w = t.w
                n = v.v % (1 << w)
                if w == 1: return '((_Bool)%d)' % n
                if w <= 64: return '((%s)%dULL)' % (UX[w], n)
                hi, lo = n >> 64, n & ((1 << 64) - 1)
                return '((((unsigned __int128)%dULL) << 64) | (unsigned __int128)%dULL)' % (hi, lo)
            raise Unsupported('int constant of type %r' % t)
        if isinstance(v, CFp): return s.fp_const(t, v.txt)
        if isinstance(v, CNull): return '((%s)0)' % s.cty(t)
        if isinstance(v, (CUndef, CZero)):
            if isinstance(t, (IntT, FpT, PtrT)): return '((%s)0)' % s.cty(t)
            return None  # aggregate: caller handles
        if isinstance(v, CExpr):
            if v.op == 'bitcast':
                (t0, a), = v.args
                if isinstance(t0, PtrT) and isinstance(v.extra, PtrT):
                    return '((%s)%s)' % (s.cty(v.extra), s.const(t0, a))
                raise Unsupported('constant non-pointer bitcast')
            if v.op == 'getelementptr':
                (pt, base), idx = v.args[0], v.args[1:]
                e, rt = s.gep(v.extra, s.const(pt, base), idx)
                return e
            if v.op in ('inttoptr', 'ptrtoint'):
                (t0, a), = v.args
                return '((%s)%s)' % (s.cty(v.extra), s.const(t0, a))
            raise Unsupported('constant expr %s' % v.op)
        raise Unsupported('value %r' % v)

    def static_init(s, t, v):
        """C initializer text for a global"""
        if v is None or isinstance(v, (CUndef, CZero)):
            return '{0}' if isinstance(t, (NamedT, LitStructT, ArrT)) else '0'
        if isinstance(v, CAgg):
            if isinstance(t, ArrT):
                return '{ { %s } }' % ', '.join(s.static_init(et, ev) for et, ev in v.elems)
            return '{ %s }' % (', '.join(s.static_init(et, ev) for et, ev in v.elems) or '0')
        if isinstance(v, CStr):
            return '{ { %s } }' % ', '.join(str(b) for b in v.data)
        e = s.const(t, v)
        return e

    def need_global(s, n):
        if not hasattr(s, 'gl_needed'): s.gl_needed = []; s.gl_seen = set()
        if n in s.gl_seen: return
        s.gl_seen.add(n)
        if n not in s.mod.globals:
            raise Unsupported('unknown global %s' % n)
        t, init, const_ = s.mod.globals[n]
        s.touch(t)
        s.cty(t)
        s.gl_needed.append(n)

    def emit_globals(s):
        out = []
        done = set()
        # initialisers may reference further globals: iterate to a fixpoint
        texts = {}
        i = 0
        while i < len(getattr(s, 'gl_needed', [])):
            n = s.gl_needed[i]; i += 1
            t, init, const_ = s.mod.globals[n]
            texts[n] = (s.cty(t), s.static_init(t, init), const_)
        for n in getattr(s, 'gl_needed', []):
            ct, it, const_ = texts[n]
            out.append('static %s %s;' % (ct, s.gname(n)))
        for n in getattr(s, 'gl_needed', []):
            ct, it, const_ = texts[n]
            out.append('static %s %s = %s;' % (ct, s.gname(n), it))
        return '\n'.join(out)

    # ---- gep
    def gep(s, bt, base, idx):
        e = base; ty = bt
        (it0, i0) = idx[0]
        i0e = s.idx_expr(it0, i0)
        if i0e != '0':
            e = '(%s + %s)' % (e, i0e)
        for it, iv in idx[1:]:
            if isinstance(ty, ArrT):
                e = '(&(%s)->a[%s])' % (e, s.idx_expr(it, iv)); ty = ty.e
            else:
                fs = s.fields(ty)
                if not isinstance(iv, CInt): raise Unsupported('non-constant struct index')
                e = '(&(%s)->f%d)' % (e, iv.v); ty = fs[iv.v]
        return e, PtrT(ty)

    def idx_expr(s, it, iv):
        if isinstance(iv, CInt): return str(iv.v)
        return '((%s)%s)' % (SX[it.w], s.const(it, iv))

    # ---- function
    def loc(s, dbg):
        if dbg and dbg in s.mod.dbgloc:
            f, l = s.mod.dbgloc[dbg]
            if f:
                if f.startswith(s.srcroot): f = f[len(s.srcroot):]
                f = f.split('/')[-1]
                return '%s:%d' % (f, l)
        return '?'

    def find_loops(s, f):
        """natural loops of clang -O0 output: a back edge is a `br` carrying !llvm.loop; the loop is the contiguous
        layout range [header .. latch].  Returns list of (header index, latch index) ordered by header position."""
        idx = {b.name: i for i, b in enumerate(f.blocks)}
        loops = []
        for i, b in enumerate(f.blocks):
            if not b.ins: continue
            t = b.ins[-1]
            if t.op == 'br' and t.loopmd:
                targets = [t.a[0]] if len(t.a) == 1 else [t.a[1], t.a[2]]
                hs = [idx[x] for x in targets if idx[x] <= i]
                if len(hs) != 1: raise Unsupported('loop latch with %d backward targets' % len(hs))
                loops.append((hs[0], i))
        loops.sort()
        for a in range(len(loops)):
            for b in range(a + 1, len(loops)):
                (h1, l1), (h2, l2) = loops[a], loops[b]
                if h2 <= l1 and not (l2 <= l1):
                    raise Unsupported('loops overlap without nesting')
                if h1 == h2: raise Unsupported('two latches for one header')
        return loops

    def slot_list(s, f):
        """parameters (v_<name>) and entry-block stack slots (m_<name>) of f in declaration order, with their C types"""
        out = [[s.lname(nm), s.cty(t)] for (t, nm, at) in f.params]
        for ins in (f.blocks[0].ins if f.blocks else []):
            if ins.op == 'alloca':
                out.append(['m_' + san(ins.dst), s.cty(ins.a[0])])
        return out

    def remap_contract_names(s, fn, f, contract):
        """Contracts name source variables (v_<param>, m_<local>).  A refactoring that only RENAMES a parameter or a local must not invalidate them:
        vf/slots.json records, per function under contract, the slot list of the tree the contract was written against; if the current list has the
        same length and the same types position by position, the recorded names are mapped to the current ones (by position) in every clause.
        Ghost copies requested by `expose` keep their recorded names.  With VF_SNAPSHOT_SLOTS set, the current list is appended to that file instead."""
        cur = s.slot_list(f)
        snap_to = os.environ.get('VF_SNAPSHOT_SLOTS')
        if snap_to:
            with open(snap_to, 'a') as fh: fh.write(json.dumps({'fn': fn, 'slots': cur}) + '\n')
            return contract
        old = SLOTS.get(fn)
        if not old or [n for n, _ in old] == [n for n, _ in cur]: return contract
        if len(old) != len(cur) or any(a[1] != b[1] for a, b in zip(old, cur)): return contract     # not a pure rename: names are used as they are
        ren = {a[0]: b[0] for a, b in zip(old, cur) if a[0] != b[0]}
        if not ren: return contract
        rx = re.compile(r'\b(' + '|'.join(re.escape(k) for k in sorted(ren, key=len, reverse=True)) + r')\b')

        def sub(x, keep=False):
            if isinstance(x, str): return rx.sub(lambda m: ren[m.group(1)], x)
            if isinstance(x, list): return [sub(y) for y in x]
            if isinstance(x, tuple): return tuple(sub(y) for y in x)
            if isinstance(x, dict): return {k: (v if k in ('expose_as',) else sub(v)) for k, v in x.items()}
            return x
        c2 = sub(contract)
        if contract.get('expose'):
            c2['expose'] = [ren.get(n, n) for n in contract['expose']]
            c2['expose_as'] = {ren.get(n, n): n for n in contract['expose']}
        c2['renamed'] = ren
        return c2

    def loop_written_slots(s, f, h, l):
        """names (m_<x>) of the entry-block allocas that an instruction in blocks h..l may write: direct stores, stores through
        getelementptr / bitcast chains, and any call that receives a pointer derived from the slot"""
        defs = {}
        allocas = set()
        for b in f.blocks:
            for ins in b.ins:
                if ins.dst is not None: defs[ins.dst] = ins
                if ins.op == 'alloca': allocas.add(ins.dst)

        def root(v, depth=0):
            while isinstance(v, CExpr): v = v.args[0][1]
            if not isinstance(v, Local) or depth > 20: return None
            if v.n in allocas: return v.n
            d = defs.get(v.n)
            if d is None: return None
            if d.op == 'getelementptr': return root(d.a[2], depth + 1)
            if d.op in ('bitcast', 'addrspacecast'): return root(d.a[1] if len(d.a) > 1 else d.a[0], depth + 1)
            return None
        out = []
        for b in f.blocks[h:l + 1]:
            for ins in b.ins:
                cands = []
                if ins.op == 'store':
                    cands.append(ins.a[3])
                elif ins.op in ('call', 'invoke'):
                    def walk(x):
                        if isinstance(x, Local): cands.append(x)
                        elif isinstance(x, (list, tuple)):
                            for y in x: walk(y)
                    walk(ins.a)
                for c in cands:
                    r = root(c)
                    if r is not None:
                        nm = 'm_' + san(r)
                        if nm not in out: out.append(nm)
        return out

    def translate(s, fn, contract=None):
        """returns (prototype, body text, callee set)"""
        mod = s.mod
        f = mod.funcs[fn]
        if contract is not None:
            contract = s.remap_contract_names(fn, f, contract)
        loops = s.find_loops(f) if contract is not None else []
        lcontracts = (contract or {}).get('loops', {})
        if contract is not None:
            for k in list(lcontracts):
                if k >= len(loops):
                    if lcontracts[k].get('optional'):
                        # the loop this contract was written for is gone: the function is still checked against its contract without it
                        lcontracts = {a: b for a, b in lcontracts.items() if a != k}
                        continue
                    raise Unsupported('loop contract for ordinal %d but %s has %d loops' % (k, fn, len(loops)))
        loop_of_header = {h: (n, l) for n, (h, l) in enumerate(loops) if n in lcontracts}
        latch_close = {}
        for n, (h, l) in enumerate(loops):
            if n in lcontracts: latch_close.setdefault(l, []).append(h)
        structured_headers = {f.blocks[h].name for h in loop_of_header}
        block_index = {b.name: i for i, b in enumerate(f.blocks)}
        decls = {}     # c local name -> c type text
        order = []
        code = []
        calls = set()
        short = fn if len(fn) < 70 else fn[:67] + '...'

        def decl(name, t):
            cn = s.lname(name)
            ct = s.cty(t)
            if cn in decls and decls[cn] != ct:
                raise Unsupported('local type clash %s' % name)
            if cn not in decls:
                decls[cn] = ct; order.append(cn)
            return cn

        def val(t, v):
            e = s.const(t, v)
            if e is None:
                raise Unsupported('aggregate undef/zero operand in %s' % fn)
            return e

        def sv(t, v):  # signed view
            return '((%s)%s)' % (SX[t.w], val(t, v))

        def A(cond, tag, dbg):
            where = s.loc(dbg)
            s.assert_sites.append((tag, where, fn))
            code.append('__CPROVER_assert(%s, "%s %s in %s");' % (cond, tag, where, short.replace('"', '')))

        def AW(cond, tag, dbg):
            where = s.loc(dbg)
            s.assert_sites.append((tag, where, fn))
            code.append('if (LL2C_CHECK_WRAP) __CPROVER_assert(%s, "%s %s in %s");' % (cond, tag, where, short))

        # phi nodes
        phis = {}   # (pred, blk) -> [(dst cname, ctype, expr)]
        for b in f.blocks:
            for ins in b.ins:
                if ins.op != 'phi': continue
                t, inc = ins.a
                d = decl(ins.dst, t)
                for v, lbl in inc:
                    if isinstance(v, (CUndef,)) and not isinstance(t, (IntT, FpT, PtrT)):
                        continue
                    if isinstance(v, CUndef):
                        continue   # leaving the previous (nondet) content models undef
                    phis.setdefault((lbl, b.name), []).append((d, s.cty(t), val(t, v)))

        def jump(frm, to):
            if to in structured_headers:
                h = block_index[to]; n, l = loop_of_header[h]
                if h <= block_index[frm] <= l:
                    if phis.get((frm, to)): raise Unsupported('phi on a structured back edge')
                    return 'goto %s__cont;' % lab(to)
            ps = phis.get((frm, to), [])
            out = ''
            if len(ps) == 1:
                out = '%s = %s; ' % (ps[0][0], ps[0][2])
            elif ps:
                s.ncount += 1
                tmp = ['%s ll2c_phi%d_%d = %s;' % (ct, s.ncount, i, e) for i, (d, ct, e) in enumerate(ps)]
                asg = ['%s = ll2c_phi%d_%d;' % (d, s.ncount, i) for i, (d, ct, e) in enumerate(ps)]
                out = '{ ' + ' '.join(tmp + asg) + ' } '
            return out + 'goto %s;' % lab(to)

        def lab(n): return 'L_' + san(n)

        for bi, b in enumerate(f.blocks):
            if bi in loop_of_header:
                n, l = loop_of_header[bi]
                lc = lcontracts[n]
                code.append('%s: ;' % lab(b.name))
                if contract.get('mode') == 'vc':
                    # own loop-contract verification conditions (what --apply-loop-contracts does), as plain assert/assume so that the
                    # exported formula can go to the int-blast / z3 back ends: base case, havoc, assume invariant, one arbitrary iteration
                    inv = ' && '.join('(%s)' % i for i in lc.get('invariant', ['1']))
                    code.append('__CPROVER_assert(%s, "LOOP:invariant-base %s loop %d");' % (inv, short, n))
                    if lc.get('assigns') is None: raise Unsupported('vc mode needs an explicit loop assigns clause')
                    hv_names = [x.strip() for x in lc['assigns'].split(',') if x.strip()]
                    # every stack slot written inside the loop is havocked, whether or not the clause lists it (a refactoring that introduces a
                    # local must neither break the obligation nor make it unsound); slots declared later are emitted as `m_<name>`
                    for extra in s.loop_written_slots(f, bi, l):
                        if extra not in hv_names and not any(h.split('.')[0].split('[')[0] == extra for h in hv_names): hv_names.append(extra)
                    for nm in hv_names:
                        if nm not in decls: raise Unsupported('loop assigns target %s is not a local of %s' % (nm, fn))
                        s.ncount += 1
                        code.append('{ %s ll2c_hv%d; %s = ll2c_hv%d; }' % (decls[nm], s.ncount, nm, s.ncount))
                    code.append('__CPROVER_assume(%s);' % inv)
                    for lm in lc.get('lemmas', []):
                        # instance of a Lean-checked arithmetic lemma at the arbitrary loop state (lemma-based obligations, vf/lemma.py)
                        code.append('__CPROVER_assume(%s);   /* lemma instance */' % lm)
                    code.append('#ifdef LL2C_CASE_EXPR')
                    code.append('__CPROVER_assume(LL2C_CASE_EXPR);   /* case split of the havocked state; the cases are enumerated by separate obligations */')
                    code.append('#endif')
                    if lc.get('decreases'):
                        code.append('ll2c_variant%d = (%s);' % (n, lc['decreases']))
                        decls['ll2c_variant%d' % n] = 'unsigned __int128'; order.append('ll2c_variant%d' % n)
                    code.append('{')
                else:
                    code.append('while (1)')
                    if lc.get('assigns') is not None: code.append('  __CPROVER_assigns(%s)' % lc['assigns'])
                    for inv in lc.get('invariant', []): code.append('  __CPROVER_loop_invariant(%s)' % inv)
                    if lc.get('decreases'): code.append('  __CPROVER_decreases(%s)' % lc['decreases'])
                    code.append('{')
            else:
                code.append('%s: ;' % lab(b.name))
            for ins in b.ins:
                op, a, dst = ins.op, ins.a, ins.dst
                if op == 'phi':
                    continue
                if op == 'alloca':
                    if bi != 0: raise Unsupported('alloca outside entry block in %s' % fn)
                    (t,) = a
                    m = 'm_' + san(dst)
                    decls[m] = s.cty(t); order.append(m)
                    d = decl(dst, PtrT(t))
                    code.append('%s = &%s;' % (d, m))
                elif op == 'store':
                    t, v, pt, ptr = a
                    root = ptr
                    while isinstance(root, CExpr): root = root.args[0][1]
                    if isinstance(root, Global): s.global_stores.append((root.n, fn))
                    e = s.const(t, v)
                    if e is None:
                        if isinstance(v, CZero):
                            code.append('memset(%s, 0, sizeof(%s));' % (val(pt, ptr), s.cty(t)))
                        # undef aggregate store: leaves memory nondet -> nothing to do
                    elif isinstance(t, (NamedT, LitStructT, ArrT)):
                        # aggregate copies go through memcpy: the pointer is often a bitcast between layout-compatible struct types
                        code.append('memcpy(%s, &%s, sizeof(%s));' % (val(pt, ptr), e, s.cty(t)))
                    elif isinstance(t, IntT) and t.w not in UX:
                        s.ncount += 1
                        code.append('{ %s ll2c_st%d = %s; memcpy(%s, &ll2c_st%d, %d); }' % (s.cty(t), s.ncount, e, val(pt, ptr), s.ncount, t.w // 8))
                    else:
                        code.append('*%s = %s;' % (val(pt, ptr), e))
                elif op == 'load':
                    t, pt, ptr = a
                    d = decl(dst, t)
                    if isinstance(t, (NamedT, LitStructT, ArrT)):
                        code.append('memcpy(&%s, %s, sizeof(%s));' % (d, val(pt, ptr), s.cty(t)))
                    elif isinstance(t, IntT) and t.w not in UX:
                        code.append('%s = 0; memcpy(&%s, %s, %d);' % (d, d, val(pt, ptr), t.w // 8))
                    else:
                        code.append('%s = *%s;' % (d, val(pt, ptr)))
                elif op == 'getelementptr':
                    bt, pt, base, idx = a
                    e, rt = s.gep(bt, val(pt, base), idx)
                    d = decl(dst, rt)
                    code.append('%s = %s;' % (d, e))
                elif op in BINOPS:
                    flags, t, x, y = a
                    if not isinstance(t, IntT): raise Unsupported('vector/other binop')
                    if t.w not in UX: raise Unsupported('arithmetic on i%d' % t.w)
                    w = t.w
                    d = decl(dst, t)
                    X, Y = val(t, x), val(t, y)
                    cop = {'add': '+', 'sub': '-', 'mul': '*', 'sdiv': '/', 'udiv': '/', 'srem': '%', 'urem': '%', 'and': '&',
                           'or': '|', 'xor': '^', 'shl': '<<', 'lshr': '>>', 'ashr': '>>'}[op]
                    if w == 1:
                        if op not in ('and', 'or', 'xor', 'add', 'sub', 'mul'): raise Unsupported('i1 %s' % op)
                        code.append('%s = (_Bool)((%s %s %s) & 1);' % (d, X, cop, Y)); continue
                    SXw, UXw = SX[w], UX[w]
                    if op in ('add', 'sub', 'mul'):
                        bi_ = {'add': 'plus', 'sub': 'minus', 'mul': 'mult'}[op]
                        if 'nsw' in flags:
                            if w < 32:
                                code.append('{ int64_t ll2c_t = (int64_t)(%s)%s %s (int64_t)(%s)%s;' % (SXw, X, cop, SXw, Y))
                                A('ll2c_t >= %d && ll2c_t <= %d' % (-(1 << (w - 1)), (1 << (w - 1)) - 1), 'UB:nsw-' + op, ins.dbg)
                                code.append('%s = (%s)(%s)ll2c_t; }' % (d, UXw, SXw))
                            elif w == 64 and op == 'mul' and not isinstance(x, CInt) and not isinstance(y, CInt):
                                A('!LL2C_SMULOVF64((%s)%s, (%s)%s)' % (SXw, X, SXw, Y), 'UB:nsw-' + op, ins.dbg)
                                code.append('%s = (%s)LL2C_SMUL64((%s)%s, (%s)%s);' % (d, UXw, SXw, X, SXw, Y))
                            else:
                                A('!__CPROVER_overflow_%s((%s)%s, (%s)%s)' % (bi_, SXw, X, SXw, Y), 'UB:nsw-' + op, ins.dbg)
                                code.append('%s = (%s)((%s)%s %s (%s)%s);' % (d, UXw, UXw, X, cop, UXw, Y))
                        elif op == 'add' and isinstance(y, CInt) and (y.v % (1 << w)) >= (1 << (w - 1)):
                            # clang writes the unsigned subtraction `x - C` (and `--x`) as `add x, -C`: the source operation wraps iff x < C
                            C = (1 << w) - (y.v % (1 << w))
                            AW('(%s)%s >= %dULL' % (UXw, X, C), 'WRAP:unsigned-sub', ins.dbg)
                            code.append('%s = (%s)((%s)%s %s (%s)%s);' % (d, UXw, UXw, X, cop, UXw, Y))
                        else:
                            if w == 64 and op == 'mul' and not isinstance(x, CInt) and not isinstance(y, CInt) and 'nuw' not in flags:
                                AW('!LL2C_UMULOVF64(%s, %s)' % (X, Y), 'WRAP:unsigned-mul', ins.dbg)
                                code.append('%s = LL2C_UMUL64(%s, %s);' % (d, X, Y)); continue
                            if w < 32:
                                AW('((uint64_t)%s %s (uint64_t)%s) <= %dULL' % (X, cop, Y, (1 << w) - 1), 'WRAP:unsigned-' + op, ins.dbg)
                            else:
                                AW('!__CPROVER_overflow_%s((%s)%s, (%s)%s)' % (bi_, UXw, X, UXw, Y), 'WRAP:unsigned-' + op, ins.dbg)
                            if 'nuw' in flags:
                                raise Unsupported('nuw flag (unexpected at -O0)')
                            code.append('%s = (%s)((%s)%s %s (%s)%s);' % (d, UXw, UXw, X, cop, UXw, Y))
                    elif op in ('sdiv', 'srem'):
                        A('%s != 0' % Y, 'UB:div-by-zero', ins.dbg)
                        A('!((%s)%s == (%s)((%s)1 << %d) && (%s)%s == -1)' % (SXw, X, SXw, UXw, w - 1, SXw, Y), 'UB:sdiv-overflow', ins.dbg)
                        if w in (32, 64) and not isinstance(y, CInt):
                            code.append('%s = (%s)LL2C_%s%d((%s)%s, (%s)%s);' % (d, UXw, op.upper(), w, SXw, X, SXw, Y))
                        else:
                            code.append('%s = (%s)((%s)%s %s (%s)%s);' % (d, UXw, SXw, X, cop, SXw, Y))
                    elif op in ('udiv', 'urem'):
                        A('%s != 0' % Y, 'UB:div-by-zero', ins.dbg)
                        if w in (32, 64) and not isinstance(y, CInt):
                            code.append('%s = (%s)LL2C_%s%d((%s)%s, (%s)%s);' % (d, UXw, op.upper(), w, UXw, X, UXw, Y))
                        else:
                            code.append('%s = (%s)((%s)%s %s (%s)%s);' % (d, UXw, UXw, X, cop, UXw, Y))
                    elif op in ('shl', 'lshr', 'ashr'):
                        A('(%s)%s < %d' % (UXw, Y, w), 'UB:shift-amount', ins.dbg)
                        if op == 'ashr':
                            code.append('%s = (%s)((%s)%s >> (%s)%s);' % (d, UXw, SXw, X, UXw, Y))
                        elif op == 'lshr':
                            code.append('%s = (%s)((%s)%s >> (%s)%s);' % (d, UXw, UXw, X, UXw, Y))
                        else:
                            if 'nsw' in flags:
                                # C++14 [expr.shift]: E1 * 2^E2 must be representable in the unsigned type; clang -O0
                                # records signed shl without flags, so this is not expected
                                raise Unsupported('shl nsw')
                            code.append('%s = (%s)((%s)%s << (%s)%s);' % (d, UXw, UXw, X, UXw, Y))
                    else:
                        code.append('%s = (%s)((%s)%s %s (%s)%s);' % (d, UXw, UXw, X, cop, UXw, Y))
                elif op in FBINOPS:
                    t, x, y = a
                    if not isinstance(t, FpT): raise Unsupported('fp type %r' % t)
                    d = decl(dst, t)
                    if op == 'frem':
                        raise Unsupported('frem')
                    cop = {'fadd': '+', 'fsub': '-', 'fmul': '*', 'fdiv': '/'}[op]
                    if t.k in ('float', 'double'):
                        code.append('%s = LL2C_%s%d(%s, %s);' % (d, op.upper(), 32 if t.k == 'float' else 64, val(t, x), val(t, y)))
                    else:
                        code.append('%s = (%s)(%s %s %s);' % (d, t.k, val(t, x), cop, val(t, y)))
                elif op == 'fneg':
                    t, x = a
                    d = decl(dst, t)
                    code.append('%s = -%s;' % (d, val(t, x)))
                elif op == 'icmp':
                    pred, t, x, y = a
                    d = decl(dst, IntT(1))
                    cop = {'eq': '==', 'ne': '!=', 'ugt': '>', 'uge': '>=', 'ult': '<', 'ule': '<=', 'sgt': '>', 'sge': '>=',
                           'slt': '<', 'sle': '<='}[pred]
                    if isinstance(t, PtrT):
                        code.append('%s = (%s %s %s);' % (d, val(t, x), cop, val(t, y)))
                    elif pred[0] == 's' and t.w > 1:
                        code.append('%s = (%s %s %s);' % (d, sv(t, x), cop, sv(t, y)))
                    else:
                        code.append('%s = ((%s)%s %s (%s)%s);' % (d, UX[t.w], val(t, x), cop, UX[t.w], val(t, y)))
                elif op == 'fcmp':
                    pred, t, x, y = a
                    d = decl(dst, IntT(1))
                    X, Y = val(t, x), val(t, y)
                    o = {'oeq': '==', 'ogt': '>', 'oge': '>=', 'olt': '<', 'ole': '<=', 'one': None,
                         'ueq': None, 'ugt': '<=', 'uge': '<', 'ult': '>=', 'ule': '>', 'une': '!='}
                    if pred in ('oeq', 'ogt', 'oge', 'olt', 'ole'):
                        code.append('%s = (%s %s %s);' % (d, X, o[pred], Y))
                    elif pred == 'une':
                        code.append('%s = (%s != %s);' % (d, X, Y))
                    elif pred in ('ugt', 'uge', 'ult', 'ule'):
                        code.append('%s = !(%s %s %s);' % (d, X, o[pred], Y))
                    elif pred == 'one':
                        code.append('%s = (%s < %s || %s > %s);' % (d, X, Y, X, Y))
                    elif pred == 'ueq':
                        code.append('%s = !(%s < %s || %s > %s);' % (d, X, Y, X, Y))
                    elif pred == 'uno':
                        code.append('%s = (%s != %s || %s != %s);' % (d, X, X, Y, Y))
                    elif pred == 'ord':
                        code.append('%s = (%s == %s && %s == %s);' % (d, X, X, Y, Y))
                    elif pred in ('true', 'false'):
                        code.append('%s = %d;' % (d, pred == 'true'))
                    else:
                        raise Unsupported('fcmp %s' % pred)
                elif op in CASTS:
                    t0, x, t1 = a
                    d = decl(dst, t1)
                    X = val(t0, x)
                    if op in ('zext', 'trunc'):
                        if op == 'trunc' and t1.w == 1:
                            # LLVM trunc keeps bit 0; a C conversion to _Bool would test != 0
                            code.append('%s = (_Bool)(%s & 1);' % (d, X))
                        else:
                            code.append('%s = (%s)%s;' % (d, UX[t1.w], X))
                    elif op == 'sext':
                        if t0.w == 1:
                            code.append('%s = (%s)(%s ? -1 : 0);' % (d, UX[t1.w], X))
                        else:
                            code.append('%s = (%s)(%s)(%s)%s;' % (d, UX[t1.w], SX[t1.w], SX[t0.w], X))
                    elif op == 'bitcast':
                        if isinstance(t0, PtrT) and isinstance(t1, PtrT):
                            code.append('%s = (%s)%s;' % (d, s.cty(t1), X))
                        elif isinstance(t0, FpT) and isinstance(t1, IntT):
                            code.append('%s = ll2c_%s_bits(%s);' % (d, 'f32' if t0.k == 'float' else 'f64', X))
                        elif isinstance(t0, IntT) and isinstance(t1, FpT):
                            code.append('%s = ll2c_bits_%s(%s);' % (d, 'f32' if t1.k == 'float' else 'f64', X))
                        else:
                            raise Unsupported('bitcast %r -> %r' % (t0, t1))
                    elif op == 'sitofp':
                        code.append('%s = (%s)(%s)%s;' % (d, t1.k, SX[t0.w] if t0.w > 1 else 'int', X))
                    elif op == 'uitofp':
                        code.append('%s = (%s)(%s)%s;' % (d, t1.k, UX[t0.w], X))
                    elif op in ('fptosi', 'fptoui'):
                        w = t1.w
                        mant = 24 if t0.k == 'float' else 53
                        if op == 'fptosi':
                            hi = float(2 ** (w - 1))
                            if w - 1 + 1 <= mant:   # -(2^(w-1)) - 1 exactly representable
                                lo_c = '%s > %s' % (X, s.fp_lit(t0, -float(2 ** (w - 1) + 1)))
                            else:
                                lo_c = '%s >= %s' % (X, s.fp_lit(t0, -float(2 ** (w - 1))))
                            cond = '%s && %s < %s' % (lo_c, X, s.fp_lit(t0, hi))
                            A(cond, 'UB:fp-to-int-range', ins.dbg)
                            code.append('%s = (%s)(%s)%s;' % (d, UX[w], SX[w] if w > 1 else 'int', X))
                        else:
                            cond = '%s > %s && %s < %s' % (X, s.fp_lit(t0, -1.0), X, s.fp_lit(t0, float(2 ** w)))
                            A(cond, 'UB:fp-to-int-range', ins.dbg)
                            code.append('%s = (%s)%s;' % (d, UX[w], X))
                    elif op in ('fpext', 'fptrunc'):
                        code.append('%s = (%s)%s;' % (d, t1.k, X))
                    elif op == 'ptrtoint':
                        code.append('%s = (%s)(uintptr_t)%s;' % (d, UX[t1.w], X))
                    elif op == 'inttoptr':
                        raise Unsupported('inttoptr')
                elif op == 'select':
                    c, t, x, y = a
                    d = decl(dst, t)
                    code.append('%s = %s ? %s : %s;' % (d, val(IntT(1), c), val(t, x), val(t, y)))
                elif op == 'br':
                    if len(a) == 1:
                        code.append(jump(b.name, a[0]))
                    else:
                        c, l1, l2 = a
                        code.append('if (%s) { %s } else { %s }' % (val(IntT(1), c), jump(b.name, l1), jump(b.name, l2)))
                elif op == 'switch':
                    t, v, dflt, cases = a
                    X = val(t, v)
                    for cv, l in cases:
                        code.append('if (%s == %s) { %s }' % (X, val(t, cv), jump(b.name, l)))
                    code.append(jump(b.name, dflt))
                elif op == 'ret':
                    t, v = a
                    for nm in (contract or {}).get('expose', []):
                        # ghost copies of selected locals at function exit, so that a postcondition can speak about them
                        if nm not in decls: raise Unsupported('exposed local %s is not a local of %s' % (nm, fn))
                        code.append('ll2c_exit_%s = %s;' % ((contract.get('expose_as') or {}).get(nm, nm), nm))
                    if t is None:
                        code.append('return;')
                    else:
                        e = s.const(t, v)
                        if e is None:
                            s.ncount += 1
                            code.append('{ %s ll2c_r%d; memset(&ll2c_r%d, 0, sizeof ll2c_r%d); return ll2c_r%d; }' % (
                                s.cty(t), s.ncount, s.ncount, s.ncount, s.ncount))
                        else:
                            code.append('return %s;' % e)
                elif op == 'unreachable':
                    A('0', 'UB:unreachable-reached', ins.dbg)
                    code.append('__CPROVER_assume(0);')
                elif op == 'extractvalue':
                    t, v, idx = a
                    e = val(t, v); ty = t
                    for i in idx:
                        if isinstance(ty, ArrT):
                            e = '%s.a[%d]' % (e, i); ty = ty.e
                        else:
                            fs = s.fields(ty); e = '%s.f%d' % (e, i); ty = fs[i]
                    d = decl(dst, ty)
                    code.append('%s = %s;' % (d, e))
                elif op == 'insertvalue':
                    t, v, et, ev, idx = a
                    d = decl(dst, t)
                    base = s.const(t, v)
                    if base is not None:
                        code.append('%s = %s;' % (d, base))
                    elif isinstance(v, CZero):
                        code.append('memset(&%s, 0, sizeof %s);' % (d, d))
                    e = d; ty = t
                    for i in idx:
                        if isinstance(ty, ArrT):
                            e = '%s.a[%d]' % (e, i); ty = ty.e
                        else:
                            fs = s.fields(ty); e = '%s.f%d' % (e, i); ty = fs[i]
                    code.append('%s = %s;' % (e, val(et, ev)))
                elif op == 'call':
                    rt, callee, args = a
                    if not isinstance(callee, Global):
                        raise Unsupported('indirect call in %s' % fn)
                    cn = callee.n
                    if cn.startswith('llvm.dbg.') or cn.startswith('llvm.lifetime.') or cn in ('llvm.donothing',):
                        continue
                    if cn.startswith('llvm.experimental.noalias') or cn.startswith('llvm.assume'):
                        continue
                    al = []
                    pre = []
                    for (t, v, at) in args:
                        if v is None: continue
                        e = s.const(t, v)
                        if e is None: raise Unsupported('aggregate constant call argument')
                        if 'byval' in at:
                            s.ncount += 1
                            bt = at['byval']
                            pre.append('%s ll2c_bv%d = *%s;' % (s.cty(bt), s.ncount, e))
                            e = '&ll2c_bv%d' % s.ncount
                        al.append(e)
                    if cn.startswith('llvm.memcpy') or cn.startswith('llvm.memmove'):
                        code.append('memcpy(%s, %s, %s);' % (al[0], al[1], al[2])); continue
                    if cn.startswith('llvm.memset'):
                        code.append('memset(%s, %s, %s);' % (al[0], al[1], al[2])); continue
                    if cn == 'llvm.trap':
                        A('0', 'UB:trap-reached', ins.dbg); code.append('__CPROVER_assume(0);'); continue
                    if cn in LIBM_PURE:
                        s.pure_used.add(LIBM_PURE[cn])
                        cf = LIBM_PURE[cn]
                    elif cn in LIBM_STUB:
                        s.stubs_used.add(cn)
                        cf = 'll2c_stub_' + san(cn)
                    elif OSTREAM_INSERTER.match(cn):
                        # trusted recorder stub: which inserter overload was called, with which scalar / C string; the stream itself is not modelled
                        kind = OSTREAM_INSERTER.match(cn).group(1) or OSTREAM_INSERTER.match(cn).group(2)
                        s.io_used = getattr(s, 'io_used', set()); s.io_used.add(kind)
                        argt = args[1][0]
                        if isinstance(argt, PtrT):
                            code.append('ll2c_io_record_ptr(%d, %s);' % (OSTREAM_KINDS[kind], al[1]))
                        elif isinstance(argt, FpT):
                            code.append('ll2c_io_record_fp(%d, (double)%s);' % (OSTREAM_KINDS[kind], al[1]))
                        else:
                            sg = kind in ('i', 'l', 'x', 's', 'a', 'c')
                            code.append('ll2c_io_record_int(%d, (int64_t)%s%s);' % (OSTREAM_KINDS[kind], '(%s)' % SX[argt.w] if sg and argt.w > 1 else '', al[1]))
                        if dst is not None:
                            d = decl(dst, rt)
                            code.append('%s = %s;' % (d, al[0]))
                        continue
                    elif cn in mod.funcs:
                        cf = s.fname(cn); calls.add(cn)
                        if cn == fn and contract is not None and contract.get('recursive_stub'):
                            cf = cf + '__rec'      # recursive call replaced by the function's own contract
                    else:
                        raise Unsupported('call to external function %s (from %s)' % (cn, fn))
                    call = '%s(%s)' % (cf, ', '.join(al))
                    if pre:
                        code.append('{ ' + ' '.join(pre))
                    if dst is not None and not isinstance(rt, VoidT):
                        d = decl(dst, rt)
                        code.append('%s = %s;' % (d, call))
                    else:
                        code.append(call + ';')
                    if pre:
                        code.append('}')
                else:
                    raise Unsupported('opcode %s' % op)
            for h in sorted(latch_close.get(bi, []), reverse=True):
                code.append('%s__cont: ;' % lab(f.blocks[h].name))
                if contract.get('mode') == 'vc':
                    n_, l_ = loop_of_header[h]
                    lc = lcontracts[n_]
                    inv = ' && '.join('(%s)' % i for i in lc.get('invariant', ['1']))
                    code.append('__CPROVER_assert(%s, "LOOP:invariant-step %s loop %d");' % (inv, short, n_))
                    if lc.get('decreases'):
                        code.append('__CPROVER_assert((unsigned __int128)(%s) < ll2c_variant%d, "LOOP:variant-decreases %s loop %d");' % (lc['decreases'], n_, short, n_))
                    code.append('__CPROVER_assume(0);')
                code.append('}')
        # prototype
        ps = []
        for (t, nm, at) in f.params:
            ps.append('%s %s' % (s.cty(t), s.lname(nm)))
        if f.va: raise Unsupported('variadic definition')
        proto = '%s %s(%s)' % (s.cty(f.ret), s.fname(fn), ', '.join(ps) or 'void')
        pnames = {s.lname(nm) for (t, nm, at) in f.params}
        clauses = []
        if contract is not None:
            for r in contract.get('requires', []): clauses.append('__CPROVER_requires(%s)' % r)
            for e in contract.get('ensures', []): clauses.append('__CPROVER_ensures(%s)' % e)
            if contract.get('assigns') is not None: clauses.append('__CPROVER_assigns(%s)' % contract['assigns'])
        ghost = ['static %s ll2c_exit_%s;' % (decls[nm], ((contract or {}).get('expose_as') or {}).get(nm, nm)) for nm in (contract or {}).get('expose', []) if nm in decls]
        # recorded names of renamed slots stay usable in text that is not part of the contract dictionary (case-split defines)
        ren_defs = ['#define %s %s   /* renamed in the source since the contract was written */' % (o, n) for o, n in ((contract or {}).get('renamed') or {}).items()]
        body = ren_defs + ghost + [proto] + clauses + ['{']
        for cn in order:
            if cn in pnames: continue
            body.append('  %s %s;' % (decls[cn], cn))
        if contract is not None and contract.get('rec_variant'):
            body.append('  ll2c_rec_measure = (unsigned __int128)(%s);   /* recursion variant at entry */' % contract['rec_variant'])
        body += ['  ' + c for c in code]
        body.append('}')
        return proto, '\n'.join(body), calls

    def fp_lit(s, t, d):
        h = float(d).hex()
        return '(%sf)' % h if t.k == 'float' else '(%s)' % h

    def stub_defs(s):
        out = []
        for cn in sorted(s.stubs_used):
            f = s.mod.decls.get(cn)
            if f is None: raise Unsupported('stub without declaration: %s' % cn)
            nm = 'll2c_stub_' + san(cn)
            ps = ', '.join('%s a%d' % (s.cty(t), i) for i, (t, _, _) in enumerate(f.params))
            rt = s.cty(f.ret)
            lines = ['static int %s_calls;' % nm]
            for i, (t, _, _) in enumerate(f.params):
                lines.append('static %s %s_arg%d;' % (s.cty(t), nm, i))
            lines.append('static %s %s_ret;' % (rt, nm))
            lines.append('%s %s(%s) { %s nd_; %s_calls++; %s %s_ret = nd_; return nd_; }' % (
                rt, nm, ps, rt, nm, ' '.join('%s_arg%d = a%d;' % (nm, i, i) for i in range(len(f.params))), nm))
            out.append('\n'.join(lines))
        # ghost state of the libm stubs that this closure does NOT call: declared all the same (never written, _calls stays 0), so that a contract which
        # says "std::hypot is called once" still compiles - and fails - when a change makes the code call a different function (e.g. hypotf)
        for base in ('sin', 'cos', 'tan', 'asin', 'acos', 'atan', 'atan2', 'sqrt', 'cbrt', 'hypot', 'fmod', 'remainder'):
            for nm_, ty_ in ((base, 'double'), (base + 'f', 'float')):
                if nm_ in s.stubs_used: continue
                out.append('static int ll2c_stub_%s_calls; static %s ll2c_stub_%s_arg0, ll2c_stub_%s_arg1, ll2c_stub_%s_ret;   /* not called in this closure */' % (nm_, ty_, nm_, nm_, nm_))
        return '\n'.join(out)


PRELUDE = r'''/* generated by /verif/vf/ll2c.py from clang-14 LLVM IR -- do not edit */
#include <stdint.h>
#include <stddef.h>
#include <string.h>
#include <math.h>
#ifndef LL2C_CHECK_WRAP
#define LL2C_CHECK_WRAP 0
#endif
/* 64-bit unsigned multiplication and division by a NON-CONSTANT operand go through these macros: they are the C operators unless an
   obligation interprets them as uninterpreted functions (lemma-based obligations: the arithmetic facts are then Lean-checked lemmas) */
#ifndef LL2C_UMUL64
#define LL2C_UMUL64(x, y) ((uint64_t)((uint64_t)(x) * (uint64_t)(y)))
#define LL2C_UMULOVF64(x, y) __CPROVER_overflow_mult((uint64_t)(x), (uint64_t)(y))
#define LL2C_UDIV64(x, y) ((uint64_t)((uint64_t)(x) / (uint64_t)(y)))
#define LL2C_UREM64(x, y) ((uint64_t)((uint64_t)(x) % (uint64_t)(y)))
#endif
#ifndef LL2C_SMUL64
#define LL2C_SMUL64(x, y) ((int64_t)((uint64_t)(x) * (uint64_t)(y)))
#define LL2C_SMULOVF64(x, y) __CPROVER_overflow_mult((int64_t)(x), (int64_t)(y))
#endif
#ifndef LL2C_SDIV64
#define LL2C_SDIV64(x, y) ((int64_t)((int64_t)(x) / (int64_t)(y)))
#define LL2C_SREM64(x, y) ((int64_t)((int64_t)(x) % (int64_t)(y)))
#define LL2C_UDIV32(x, y) ((uint32_t)((uint32_t)(x) / (uint32_t)(y)))
#define LL2C_UREM32(x, y) ((uint32_t)((uint32_t)(x) % (uint32_t)(y)))
#define LL2C_SDIV32(x, y) ((int32_t)((int32_t)(x) / (int32_t)(y)))
#define LL2C_SREM32(x, y) ((int32_t)((int32_t)(x) % (int32_t)(y)))
#endif
#ifndef LL2C_FMUL64
#define LL2C_FADD32(x, y) ((float)((float)(x) + (float)(y)))
#define LL2C_FSUB32(x, y) ((float)((float)(x) - (float)(y)))
#define LL2C_FMUL32(x, y) ((float)((float)(x) * (float)(y)))
#define LL2C_FDIV32(x, y) ((float)((float)(x) / (float)(y)))
#define LL2C_FADD64(x, y) ((double)((double)(x) + (double)(y)))
#define LL2C_FSUB64(x, y) ((double)((double)(x) - (double)(y)))
#define LL2C_FMUL64(x, y) ((double)((double)(x) * (double)(y)))
#define LL2C_FDIV64(x, y) ((double)((double)(x) / (double)(y)))
#endif
static inline float ll2c_bits_f32(uint32_t b) { union { uint32_t i; float f; } u; u.i = b; return u.f; }
static inline double ll2c_bits_f64(uint64_t b) { union { uint64_t i; double f; } u; u.i = b; return u.f; }
static inline uint32_t ll2c_f32_bits(float f) { union { uint32_t i; float f; } u; u.f = f; return u.i; }
static inline uint64_t ll2c_f64_bits(double f) { union { uint64_t i; double f; } u; u.f = f; return u.i; }
/* ghost log of std::ostream insertions (recorder stubs; the stream itself is not modelled) */
#define LL2C_IO_MAX 8
static int ll2c_io_n; static int ll2c_io_kind[LL2C_IO_MAX]; static int64_t ll2c_io_int[LL2C_IO_MAX]; static double ll2c_io_fp[LL2C_IO_MAX]; static const char *ll2c_io_ptr[LL2C_IO_MAX];
static inline void ll2c_io_record_int(int k, int64_t v) { if (ll2c_io_n < LL2C_IO_MAX) { ll2c_io_kind[ll2c_io_n] = k; ll2c_io_int[ll2c_io_n] = v; } ll2c_io_n++; }
static inline void ll2c_io_record_fp(int k, double v) { if (ll2c_io_n < LL2C_IO_MAX) { ll2c_io_kind[ll2c_io_n] = k; ll2c_io_fp[ll2c_io_n] = v; } ll2c_io_n++; }
static inline void ll2c_io_record_ptr(int k, const void *p) { if (ll2c_io_n < LL2C_IO_MAX) { ll2c_io_kind[ll2c_io_n] = k; ll2c_io_ptr[ll2c_io_n] = (const char *)p; } ll2c_io_n++; }
'''


def pure_stub(em, fn):
    """Replace a callee by the contract `pure function of its arguments; assigns nothing`:
    an unconstrained but deterministic result, keyed on the bit patterns of the scalar arguments
    (pointer-to-scalar arguments are read, as a `const T&` parameter is).  Two memo slots."""
    f = em.mod.funcs[fn]
    if isinstance(f.ret, VoidT) or not isinstance(f.ret, (IntT, FpT)):
        raise Unsupported('pure-function abstraction needs a scalar result: %s' % fn)
    keys = []
    ps = []
    for (t, nm, at) in f.params:
        cn = em.lname(nm)
        ps.append('%s %s' % (em.cty(t), cn))
        if isinstance(t, (IntT, FpT)):
            keys.append((t, cn))
        elif isinstance(t, PtrT) and isinstance(t.e, (IntT, FpT)):
            keys.append((t.e, '(*%s)' % cn))
        elif isinstance(t, PtrT) and isinstance(t.e, NamedT) and not (em.mod.types.get(t.e.n) or []):
            pass   # pointer to an empty class (`this` of a stateless functor)
        elif isinstance(t, PtrT) and isinstance(t.e, NamedT) and all(isinstance(x, IntT) and x.w == 8 for x in em.mod.types.get(t.e.n)) \
                and len(em.mod.types.get(t.e.n)) == 1:
            pass   # empty class lowered as { i8 }
        else:
            raise Unsupported('pure-function abstraction: parameter %s of %s' % (t, fn))

    def bits(t, e):
        if isinstance(t, FpT): return 'll2c_%s_bits(%s)' % ('f32' if t.k == 'float' else 'f64', e)
        return '((uint64_t)%s)' % e
    nm = em.fname(fn)
    rt = em.cty(f.ret)
    L = []
    proto = '%s %s(%s)' % (rt, nm, ', '.join(ps) or 'void')
    nk = len(keys)
    L.append('static _Bool %s_set[2]; static uint64_t %s_key[2][%d]; static %s %s_val[2]; static unsigned %s_calls;' % (nm, nm, max(nk, 1), rt, nm, nm))
    L.append('static uint64_t %s_last_key0; static uint64_t %s_last_key[%d]; static %s %s_last_ret;   /* ghost: the most recent call */' % (nm, nm, max(nk, 1), rt, nm))
    L.append(proto + ' {')
    L.append('  uint64_t k[%d] = {%s};' % (max(nk, 1), ', '.join(bits(t, e) for t, e in keys) or '0'))
    L.append('  %s_calls++;' % nm)
    L.append('  %s_last_key0 = k[0]; for (int i = 0; i < %d; i++) %s_last_key[i] = k[i];' % (nm, max(nk, 1), nm))
    L.append('  for (int s = 0; s < 2; s++) { if (%s_set[s]) { _Bool eq = 1; for (int i = 0; i < %d; i++) eq = eq && (%s_key[s][i] == k[i]); if (eq) { %s_last_ret = %s_val[s]; return %s_val[s]; } } }' % (nm, max(nk, 1), nm, nm, nm, nm))
    L.append('  %s nd_;' % rt)
    if isinstance(f.ret, FpT):
        # second clause of the contract (proved on the real body by a companion obligation): a NaN argument gives a NaN result
        nanarg = ' || '.join('(%s != %s)' % (e, e) for t, e in keys if isinstance(t, FpT)) or '0'
        if sum(1 for t, e in keys if isinstance(t, FpT)) == 1:
            L.append('  __CPROVER_assume(!(%s) || (nd_ != nd_));   /* callee contract: NaN in ==> NaN out */' % nanarg)
    L.append('  int slot = %s_set[0] ? 1 : 0;' % nm)
    L.append('  %s_set[slot] = 1; for (int i = 0; i < %d; i++) %s_key[slot][i] = k[i]; %s_val[slot] = nd_;' % (nm, max(nk, 1), nm, nm))
    L.append('  %s_last_ret = nd_;' % nm)
    L.append('  return nd_;')
    L.append('}')
    return proto, '\n'.join(L), set()


def contract_stub(em, fn, contract, suffix=''):
    """callee replaced by its contract (own implementation of --replace-call-with-contract for the assume/assert route):
    assert the precondition at the call, return an unconstrained value that satisfies the postcondition; assigns must be empty"""
    f = em.mod.funcs[fn]
    if contract.get('assigns'): raise Unsupported('contract stub with a non-empty assigns clause')
    ps = ', '.join('%s %s' % (em.cty(t), em.lname(nm)) for (t, nm, at) in f.params)
    rt = em.cty(f.ret)
    proto = '%s %s%s(%s)' % (rt, em.fname(fn), suffix, ps or 'void')
    short = fn if len(fn) < 70 else fn[:67] + '...'
    L = [proto + ' {']
    if suffix == '__rec' and contract.get('rec_variant'):
        L.insert(0, 'static unsigned __int128 ll2c_rec_measure;')
        L.append('  __CPROVER_assert((unsigned __int128)(%s) < ll2c_rec_measure, "VARIANT:recursion measure decreases at the recursive call of %s");' % (contract['rec_variant'], short))
    for r in contract.get('requires', []):
        if '__CPROVER_is_fresh' in r: raise Unsupported('is_fresh in a contract stub')
        L.append('  __CPROVER_assert(%s, "CALLSITE:precondition of %s");' % (r, short))
    if rt != 'void':
        L.append('  %s ll2c_rv;' % rt)
        for e in contract.get('ensures', []):
            L.append('  __CPROVER_assume(%s);   /* callee contract */' % e.replace('__CPROVER_return_value', 'll2c_rv'))
        L.append('  return ll2c_rv;')
    L.append('}')
    return proto, '\n'.join(L), set()


def emit_closure(mod, roots, srcroot='/repo/', abstract=(), contracts=None, stubs=()):
    """returns (c_text, info) for the call-graph closure of roots.  Functions whose mangled name matches a
    regex in `abstract` are replaced by the pure-function contract stub."""
    em = Emitter(mod, srcroot=srcroot)
    done = set(); order = []; protos = []
    abstracted = []
    rxs = [re.compile(a) for a in abstract]

    def visit(n):
        if n in done: return
        done.add(n)
        if n in stubs and n not in roots:
            proto, text, calls = contract_stub(em, n, contracts[n])
            abstracted.append(n)
        elif any(r.search(n) for r in rxs) and n not in roots:
            proto, text, calls = pure_stub(em, n)
            abstracted.append(n)
        else:
            c = (contracts or {}).get(n)
            proto, text, calls = em.translate(n, c)
            if c is not None and c.get('recursive_stub'):
                p2, t2, _ = contract_stub(em, n, c, suffix='__rec')
                protos.append(p2 + ';'); order.append(t2)
        protos.append(proto + ';')
        for c in sorted(calls): visit(c)
        order.append(text)
    for r in roots:
        if r not in mod.funcs: raise Unsupported('root %s not defined in IR' % r)
        visit(r)
    stubs = em.stub_defs()
    gl = em.emit_globals()
    types = em.emit_types()
    text = '\n'.join([PRELUDE, types, gl, stubs, '\n'.join(protos), '\n\n'.join(order)])
    info = {'functions': sorted(done), 'stubs': sorted(em.stubs_used), 'libm_models': sorted(em.pure_used),
            'global_stores': em.global_stores, 'assert_sites': em.assert_sites, 'abstracted': abstracted}
    return text, info


if __name__ == '__main__':
    src = open(sys.argv[1]).read()
    mod = parse_module(src)
    text, info = emit_closure(mod, sys.argv[2:])
    sys.stdout.write(text)
    sys.stderr.write('functions: %d, stubs: %s, global stores: %s\n' % (len(info['functions']), info['stubs'], info['global_stores']))
