#!/usr/bin/env python3
"""lemma_selftest.py -- cross-check of the trusted term printer (vf/lemma.py).

Every lemma is printed as C (the text the verifier ASSUMES, over uninterpreted functions) and as Lean (the text Lean PROVES).  This test compiles the C text natively with the
STANDARD interpretation of every function (machine operators; specification functions computed independently with 128-bit / loop arithmetic) and evaluates `hyp -> concl` on
boundary-biased random arguments: a false instance means the C printer does not say what Lean proved.  Run by the thorough tier of C12 (and by hand: python3 vf/lemma_selftest.py)."""
import os, subprocess, sys, tempfile
HERE = os.path.dirname(os.path.abspath(__file__))
sys.path.insert(0, HERE)
import lemma as LM
from props import c12_lemmas, c11_lemmas, c04_lemmas

NATIVE = r'''
#include <cstdint>
#include <cstdio>
#include <cstdlib>
#include <cmath>
typedef unsigned __int128 u128; typedef __int128 i128;
#define LL2C_UMUL64(x, y) ((uint64_t)((uint64_t)(x) * (uint64_t)(y)))
#define LL2C_UMULOVF64(x, y) (((u128)(uint64_t)(x) * (u128)(uint64_t)(y)) >> 64 != 0)
static uint64_t udiv0(uint64_t x, uint64_t y) { return y ? x / y : 0; }            /* Lean: x / 0 = 0 */
static uint64_t urem0(uint64_t x, uint64_t y) { return y ? x % y : x; }            /* Lean: x % 0 = x */
#define LL2C_UDIV64(x, y) udiv0((uint64_t)(x), (uint64_t)(y))
#define LL2C_UREM64(x, y) urem0((uint64_t)(x), (uint64_t)(y))
static int64_t sdiv0(int64_t x, int64_t y) { if (y == 0) return 0; if (x == INT64_MIN && y == -1) return INT64_MIN; return x / y; }   /* Int.tdiv; the wrap case is enc 64 of 2^63 */
static int32_t sdiv032(int32_t x, int32_t y) { if (y == 0) return 0; if (x == INT32_MIN && y == -1) return INT32_MIN; return x / y; }
#define LL2C_SDIV64(x, y) sdiv0((int64_t)(x), (int64_t)(y))
#define LL2C_SDIV32(x, y) sdiv032((int32_t)(x), (int32_t)(y))
#define LL2C_SMUL64(x, y) ((int64_t)((uint64_t)(x) * (uint64_t)(y)))
#define LL2C_SMULOVF64(x, y) (((i128)(int64_t)(x) * (i128)(int64_t)(y)) > (i128)INT64_MAX || ((i128)(int64_t)(x) * (i128)(int64_t)(y)) < (i128)INT64_MIN)
#define __CPROVER_overflow_mult(x, y) (((u128)(x) * (u128)(y)) >> 64 != 0)
static u128 W128 = (u128)1 << 64;
static uint64_t SPEC_mulmod(uint64_t a, uint64_t b, uint64_t n) { u128 p = (u128)a * b; return (uint64_t)(n ? p % n : p); }
static uint64_t SPEC_powmod(uint64_t a, uint64_t e, uint64_t n) { if (n == 0) { u128 r = 1; for (uint64_t i = 0; i < e && i < 200; ++i) r = (r * a); return (uint64_t)r; }   /* n = 0 only with tiny e in this test */
  u128 r = 1 % n, x = a % n; while (e) { if (e & 1) r = r * x % n; x = x * x % n; e >>= 1; } return (uint64_t)r; }
static uint64_t SPEC_gcd(uint64_t a, uint64_t b) { while (b) { uint64_t t = a % b; a = b; b = t; } return a; }
static uint64_t SPEC_isqrt(uint64_t n) { uint64_t s = (uint64_t)sqrtl((long double)n); while ((u128)s * s > n) --s; while ((u128)(s + 1) * (s + 1) <= n) ++s; return s; }
static bool pow_u128(uint64_t a, uint64_t e, u128 *out) { u128 r = 1; for (uint64_t i = 0; i < e; ++i) { if (a == 0) { r = 0; break; } if (a == 1) break; if (r > (((u128)0 - 1) / a)) return false; r *= a; if (i > 200) return false; } *out = r; return true; }
static uint64_t SPEC_pow(uint64_t a, uint64_t e) { u128 r; if (!pow_u128(a, e, &r)) return 0xdeadbeef; return (uint64_t)r; }
static bool SPECP_powfits(uint64_t a, uint64_t e) { u128 r; return pow_u128(a, e, &r) && r < W128; }
static bool SPECP_issquare(uint64_t n) { uint64_t s = SPEC_isqrt(n); return (u128)s * s == n; }
static int jac(uint64_t a, uint64_t n) { if (n == 0) return a == 1 ? 1 : 0; if (n == 1) return 1; int t = 1; a %= n; while (a) { int z = __builtin_ctzll(a); a >>= z;
  if ((z & 1) && ((n & 7) == 3 || (n & 7) == 5)) t = -t; if ((a & 3) == 3 && (n & 3) == 3) t = -t; uint64_t x = a; a = n % x; n = x; } return n == 1 ? t : 0; }
static uint64_t SPEC_jac(uint64_t a, uint64_t n) { return (uint64_t)(jac(a, n) + 1); }   /* only used with odd n in the lemmas under test */
static bool SPECP_sprodfits64(uint64_t x, uint64_t m) { i128 p = (i128)(int64_t)x * (i128)(int64_t)m; return p >= (i128)INT64_MIN && p <= (i128)INT64_MAX; }
static bool SPECP_sprodfits32(uint64_t x, uint64_t m) { i128 p = (i128)(int32_t)x * (i128)(int32_t)m; return p >= (i128)INT32_MIN && p <= (i128)INT32_MAX; }
static uint64_t rs = 0x9e3779b97f4a7c15ULL; static uint64_t rnd() { rs ^= rs << 13; rs ^= rs >> 7; rs ^= rs << 17; return rs; }
static uint64_t pick() { switch (rnd() % 8) { case 0: return rnd() % 12; case 1: return (1ULL << (rnd() % 64)) + (rnd() % 5) - 2; case 2: return ~0ULL - (rnd() % 6); case 3: return rnd() >> (rnd() % 64);
  case 4: return (rnd() % 0x100000000ULL) + 0xfffffff8ULL; case 5: return (rnd() % 2) ? 0x7fffffffffffffffULL - (rnd() % 4) : 0x8000000000000000ULL + (rnd() % 4); default: return rnd(); } }
'''
# lemmas whose specification functions are not implemented natively here (exponent-valued predicates over arbitrary exponents): skipped, listed in the output
SKIP = {'cp_init', 'cp_step', 'cp_exit', 'cps_init', 'cps_step', 'cps_exit', 'mu_step'}


def main():
    lemmas = []
    for mod in (c12_lemmas, c11_lemmas, c04_lemmas):
        for v in vars(mod).values():
            if isinstance(v, LM.Lemma) and v not in lemmas: lemmas.append(v)
            if isinstance(v, list):
                for x in v:
                    if isinstance(x, LM.Lemma) and x not in lemmas: lemmas.append(x)
    L = [NATIVE, 'int main() { long bad = 0;']
    tested = []
    for lm in lemmas:
        if lm.name in SKIP: continue
        tested.append(lm.name)
        env = {v: v + '_' for v in lm.vars}
        small = lm.name in ('pm_entry', 'pm_step', 'pm_exit')
        L.append('  for (int it = 0; it < 20000; ++it) { %s' % ' '.join('uint64_t %s_ = pick();' % v for v in lm.vars))
        if lm.name == 'wpo32': L.append('    x_ &= 0xffffffffULL; m_ &= 0xffffffffULL;')
        if lm.name.startswith('jc_'): L.append('    n_ |= 1;')
        L.append('    if (!(%s)) { if (bad < 5) std::printf("FALSE INSTANCE of %s at %s\\n", %s); ++bad; } }' % (
            lm.inst(**env), lm.name, ' '.join('%llx' for _ in lm.vars), ', '.join('(unsigned long long)%s_' % v for v in lm.vars)))
    L.append('  std::printf("tested %d lemmas, %%ld false instances\\n", bad); return bad ? 1 : 0; }' % len(tested))
    d = tempfile.mkdtemp(prefix='lemma_selftest_')
    src = os.path.join(d, 't.cc'); open(src, 'w').write('\n'.join(L))
    r = subprocess.run(['g++', '-std=c++14', '-O1', '-w', src, '-o', os.path.join(d, 't')], capture_output=True, text=True)
    if r.returncode != 0:
        print('BUILD FAILED', r.stderr[-1500:]); return 2
    r = subprocess.run([os.path.join(d, 't')], capture_output=True, text=True, timeout=600)
    print(r.stdout.strip()); print('lemmas tested:', ', '.join(tested)); print('skipped (no native oracle):', ', '.join(sorted(SKIP)))
    subprocess.run(['rm', '-rf', d])
    return r.returncode


if __name__ == '__main__':
    sys.exit(main())
