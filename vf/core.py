"""core.py -- obligation pipeline: driver generation, lowering, translation, back-end ladder,
counterexample extraction, native replay, evidence.   See DESIGN.md sections 2-3."""
import concurrent.futures as cf
import hashlib
import json
import os
import re
import shutil
import subprocess
import sys
import time
from dataclasses import dataclass, field
from typing import List, Optional, Tuple

HERE = os.path.dirname(os.path.abspath(__file__))
VERIF = os.path.dirname(HERE)
REPO = os.environ.get('VF_REPO', '/repo')
INC = os.path.join(REPO, 'au', 'code')
CLANG = 'clang++-14'
OPT = '/usr/lib/llvm-14/bin/opt'
NPROC = int(os.environ.get('VF_JOBS', str(max(2, (os.cpu_count() or 4)))))
MEM_KB = 8 * 1024 * 1024

sys.path.insert(0, HERE)
import ll2c  # noqa: E402

CTYPE = {'i8': 'int8_t', 'u8': 'uint8_t', 'i16': 'int16_t', 'u16': 'uint16_t', 'i32': 'int32_t', 'u32': 'uint32_t',
         'i64': 'int64_t', 'u64': 'uint64_t', 'f32': 'float', 'f64': 'double', 'bool': 'bool'}
BITS = {'bool': 1, 'int8_t': 8, 'uint8_t': 8, 'int16_t': 16, 'uint16_t': 16, 'int32_t': 32, 'uint32_t': 32,
        'int64_t': 64, 'uint64_t': 64, 'float': 32, 'double': 64, 'long long': 64, 'unsigned long long': 64,
        'size_t': 64, 'char': 8}
SIGNED = {'int8_t', 'int16_t', 'int32_t', 'int64_t', 'long long', 'char'}


@dataclass
class Wrapper:
    name: str
    ret: str                       # C type
    params: List[Tuple[str, str]]  # (ctype, name)
    body: str                      # C++ statement(s)


@dataclass
class Ob:
    id: str
    prop: str
    group: str
    prelude: str
    wrappers: List[Wrapper]
    inputs: List[Tuple[str, str]]
    body: str
    contract: str = ''
    wrap: bool = False
    fp: bool = False
    twin: Optional[str] = None
    std: str = 'c++14'
    unwind: Optional[int] = None       # bounded stand-in (width-bounded loops); None = loop-free expected
    promote: bool = True               # sroa/mem2reg variant
    extra_cxxflags: Tuple[str, ...] = ()
    budget: int = 120
    kind: str = 'H'                    # 'H' harness contract, 'D' dfcc
    dfcc: Optional[dict] = None
    expect_fail: bool = False          # obligation that must be refuted (sanity / must-fail)
    bounded: bool = False
    notes: str = ''
    functions_under_contract: Tuple[str, ...] = ()
    abstract: Tuple[str, ...] = ()      # callees replaced by the purity contract (regex on mangled names)
    defs: Tuple[str, ...] = ()          # extra -D options for goto-cc (case splits)
    needs: Tuple[str, ...] = ()         # ids of obligations (Lean lemma files) this proof rests on: not discharged unless they are


@dataclass
class Result:
    ob: Ob
    status: str = 'undecided'   # proved | failed | undecided | error
    backend: str = ''
    seconds: float = 0.0
    n_props: int = 0
    failed_props: List[str] = field(default_factory=list)
    inputs: Optional[dict] = None      # name -> int (bit pattern)
    canary: Optional[bool] = None      # True = reachable (good)
    detail: str = ''
    twin_status: Optional[str] = None
    closure_functions: List[str] = field(default_factory=list)
    stubs: List[str] = field(default_factory=list)
    replay: Optional[dict] = None
    known: Optional[str] = None
    log: str = ''


class Infra(Exception):
    """infrastructure problem: exit 2, never a violation"""


LIVE = set()      # pids (= session ids) of the children started by this process: killed when the check itself is terminated, so that no solver is left running


def kill_all(*_):
    for pid in list(LIVE):
        try:
            os.killpg(pid, 9)
        except Exception:
            pass


def install_reaper():
    import atexit, signal
    atexit.register(kill_all)

    def on_term(sig, frm):
        kill_all()
        os._exit(2)
    for sg in (signal.SIGTERM, signal.SIGINT, signal.SIGHUP):
        try:
            signal.signal(sg, on_term)
        except Exception:
            pass


def run(cmd, timeout=None, cwd=None, mem_kb=MEM_KB, stdin=None, cancel=None):
    """returns (rc | None on time-out/cancel, stdout, stderr, seconds)"""
    def lim():
        import resource
        resource.setrlimit(resource.RLIMIT_AS, (mem_kb * 1024, mem_kb * 1024))
        os.setsid()
    t0 = time.time()
    try:
        p = subprocess.Popen(cmd, stdout=subprocess.PIPE, stderr=subprocess.PIPE, cwd=cwd, preexec_fn=lim, text=True,
                             stdin=subprocess.DEVNULL)
        LIVE.add(p.pid)
        while True:
            try:
                step = 0.25 if cancel is not None else timeout
                if timeout is not None and cancel is not None:
                    step = min(0.25, max(0.01, timeout - (time.time() - t0)))
                out, err = p.communicate(timeout=step)
                LIVE.discard(p.pid)
                return p.returncode, out, err, time.time() - t0
            except subprocess.TimeoutExpired:
                expired = timeout is not None and time.time() - t0 >= timeout
                if expired or (cancel is not None and cancel.is_set()):
                    try:
                        os.killpg(p.pid, 9)
                    except Exception:
                        pass
                    p.kill(); p.communicate()
                    LIVE.discard(p.pid)
                    return None, '', 'TIMEOUT' if expired else 'CANCELLED', time.time() - t0
    except OSError as e:
        return -1, '', str(e), time.time() - t0


# ----------------------------------------------------------------------------- drivers
def driver_text(obs):
    seen = set(); pre = []; ws = []
    wseen = set()
    for ob in obs:
        for chunk in ob.prelude.split('\n//--\n'):
            if chunk.strip() and chunk not in seen:
                seen.add(chunk); pre.append(chunk)
        for w in ob.wrappers:
            if w.name in wseen: continue
            wseen.add(w.name)
            ps = ', '.join('%s %s' % p for p in w.params)
            ws.append('extern "C" %s %s(%s) { %s }' % (w.ret, w.name, ps, w.body))
    incs = [l for c in pre for l in c.split('\n') if l.startswith('#include')]
    rest = ['\n'.join(l for l in c.split('\n') if not l.startswith('#include')) for c in pre]
    head = ['// generated driver -- includes the real headers of %s' % INC, '#define AU_VERIF 1', '#include <cstdint>',
            '#include "au/au.hh"']
    for i in incs:
        if i not in head: head.append(i)
    return '\n'.join(head + ['using namespace au;'] + rest + ws) + '\n'


def lower(workdir, gname, text, std, promote, extra):
    cc = os.path.join(workdir, gname + '.cc')
    ll = os.path.join(workdir, gname + '.ll')
    open(cc, 'w').write(text)
    cmd = [CLANG, '-std=' + std, '-O0', '-fno-exceptions', '-ffp-contract=off', '-Xclang', '-disable-O0-optnone',
           '-fno-discard-value-names', '-gline-tables-only', '-fconstexpr-steps=500000000', '-S', '-emit-llvm', '-Wno-c++11-narrowing', '-w',
           '-I' + INC, *extra, cc, '-o', ll]
    rc, out, err, dt = run(cmd, timeout=600)
    if rc != 0:
        raise Infra('driver %s does not compile (API changed or instance no longer instantiates):\n%s' % (gname, err[-3000:]))
    if promote:
        pl = os.path.join(workdir, gname + '.p.ll')
        rc, out, err, dt = run([OPT, '-S', '-passes=sroa,mem2reg', ll, '-o', pl], timeout=300)
        if rc != 0:
            raise Infra('opt failed on %s: %s' % (gname, err[-2000:]))
        ll = pl
    return ll


CBMC_SHIM_T = {'bool': '_Bool'}


def c_ty(t):
    return CBMC_SHIM_T.get(t, t)


def harness_text(ob, closure_file, body):
    L = ['#define VF_CBMC 1', '#include "spec_lib.h"', '_Bool ll2c_ub_on = 1;',
         '#define UB_ON() (ll2c_ub_on = 1)', '#define UB_OFF() (ll2c_ub_on = 0)',
         '#include "%s"' % closure_file]
    for w in (ob.wrappers if ob.kind == 'H' else []):
        ps = ', '.join('%s %s' % (c_ty(t), n) for t, n in w.params)
        args = ', '.join(n for t, n in w.params)
        if w.ret == 'void':
            L.append('static inline void %s(%s) { f_%s(%s); }' % (w.name, ps or 'void', w.name, args))
        else:
            L.append('static inline %s %s(%s) { return (%s)f_%s(%s); }' % (c_ty(w.ret), w.name, ps or 'void', c_ty(w.ret), w.name, args))
    L.append('void harness(void) {')
    for t, n in ob.inputs:
        L.append('  %s %s;' % (c_ty(t), n))
    L.append(body)
    L.append('  CANARY();')
    L.append('}')
    return '\n'.join(L) + '\n'


def prepare_group(args):
    """lower one driver group, translate closures, write harness files. Runs in a worker process."""
    workdir, gname, obs = args
    out = {}
    try:
        ob0 = obs[0]
        text = driver_text(obs)
        ll = lower(workdir, gname, text, ob0.std, ob0.promote, list(ob0.extra_cxxflags))
        src = open(ll).read()
        mod = ll2c.parse_module(src)
    except Infra as e:
        for ob in obs: out[ob.id] = ('infra', str(e))
        return out
    except ll2c.Unsupported as e:
        for ob in obs: out[ob.id] = ('infra', 'll2c: %s' % e)
        return out
    for ob in obs:
        try:
            if ob.kind == 'D':
                dd = ob.dfcc
                ctext, info = ll2c.emit_closure(mod, [dd['target']], srcroot=REPO.rstrip('/') + '/', contracts=dd['contracts'])
                if info['global_stores']:
                    out[ob.id] = ('infra', 'frame: closure stores to globals %r' % (info['global_stores'][:3],)); continue
                missing = [g for g in dd.get('replace', []) if g not in info['functions']]
                if missing:
                    out[ob.id] = ('infra', 'callee to be replaced by its contract is not called any more: %r' % missing); continue
                d = os.path.join(workdir, san(ob.id)); os.makedirs(d, exist_ok=True)
                open(os.path.join(d, 'closure.c'), 'w').write(ctext)
                dd['target_c'] = 'f_' + ll2c.san(dd['target'])
                dd['replace_c'] = ['f_' + ll2c.san(g) for g in dd.get('replace', [])]
                out[ob.id] = ('ok', {'dir': d, 'functions': info['functions'], 'stubs': info['stubs'], 'libm_models': info['libm_models'],
                                     'n_ub_asserts': len(info['assert_sites']), 'abstracted': [], 'dfcc': dd})
                continue
            if ob.kind == 'L':
                # function contract + loop contract with verification conditions generated by ll2c itself (assert/assume form)
                dd = dict(ob.dfcc)
                if dd['target'] not in mod.funcs and dd.get('target_re'):
                    # the parameter types (hence the mangled name) changed: the function is still the one under contract
                    cands = [k for k in mod.funcs if re.search(dd['target_re'], k)]
                    if len(cands) == 1:
                        dd['contracts'] = {(cands[0] if k == dd['target'] else k): v for k, v in dd['contracts'].items()}
                        dd['target'] = cands[0]
                cs = {k: dict(v, mode='vc') for k, v in dd['contracts'].items()}
                ctext, info = ll2c.emit_closure(mod, [dd['target']], srcroot=REPO.rstrip('/') + '/', contracts=cs, stubs=set(dd.get('replace', [])),
                                                 abstract=tuple(dd.get('pure', ())))
                missing = [g for g in dd.get('replace', []) if g not in info['functions']]
                if missing:
                    out[ob.id] = ('infra', 'callee to be replaced by its contract is not called any more: %r' % missing); continue
                if info['global_stores']:
                    out[ob.id] = ('infra', 'frame: closure stores to globals %r' % (info['global_stores'][:3],)); continue
                # assertions turned into stated assumptions (each must fire exactly, otherwise the obligation is not generated)
                bad = None
                for pat in dd.get('assume', []):
                    lines = ctext.split('\n'); hit = 0
                    for i, ln in enumerate(lines):
                        if '__CPROVER_assert(' in ln and pat in ln:
                            lines[i] = ln.replace('if (LL2C_CHECK_WRAP) __CPROVER_assert(', '__CPROVER_assume(').replace('__CPROVER_assert(', '__CPROVER_assume(')
                            lines[i] = re.sub(r', "[^"]*"\);', ');   /* ASSUMED, listed in the evidence */', lines[i])
                            hit += 1
                    if hit != 1: bad = 'assumed assertion %r matched %d sites (expected 1)' % (pat, hit)
                    ctext = '\n'.join(lines)
                if bad:
                    out[ob.id] = ('infra', bad); continue
                ctext = 'extern _Bool ll2c_ub_on;\n' + ctext.replace('__CPROVER_assert(', '__CPROVER_assert(!ll2c_ub_on || ')
                d = os.path.join(workdir, san(ob.id)); os.makedirs(d, exist_ok=True)
                open(os.path.join(d, 'closure.c'), 'w').write(ctext)
                body = ob.body.replace('TARGET', 'f_' + ll2c.san(dd['target']))
                open(os.path.join(d, 'h.c'), 'w').write(harness_text(ob, 'closure.c', body))
                out[ob.id] = ('ok', {'dir': d, 'functions': info['functions'], 'stubs': info['stubs'], 'libm_models': info['libm_models'],
                                     'n_ub_asserts': len(info['assert_sites']), 'abstracted': info['abstracted']})
                continue
            roots = [w.name for w in ob.wrappers]
            ctext, info = ll2c.emit_closure(mod, roots, srcroot=REPO.rstrip('/') + '/', abstract=ob.abstract)
            if ob.abstract and not info['abstracted']:
                out[ob.id] = ('infra', 'abstraction pattern %r matched no function in the closure' % (ob.abstract,)); continue
            if info['global_stores']:
                out[ob.id] = ('infra', 'frame: closure stores to globals %r' % (info['global_stores'][:3],)); continue
            ctext = ctext.replace('__CPROVER_assert(', '__CPROVER_assert(!ll2c_ub_on || ')
            ctext = 'extern _Bool ll2c_ub_on;\n' + ctext
            d = os.path.join(workdir, san(ob.id)); os.makedirs(d, exist_ok=True)
            open(os.path.join(d, 'closure.c'), 'w').write(ctext)
            open(os.path.join(d, 'h.c'), 'w').write(harness_text(ob, 'closure.c', ob.body))
            if ob.twin:
                open(os.path.join(d, 'twin.c'), 'w').write(harness_text(ob, 'closure.c', ob.twin))
            if ob.abstract:
                # concrete variant (no callee replaced): used to obtain a real counterexample when the modular proof fails
                ctext2, info2 = ll2c.emit_closure(mod, roots, srcroot=REPO.rstrip('/') + '/')
                ctext2 = 'extern _Bool ll2c_ub_on;\n' + ctext2.replace('__CPROVER_assert(', '__CPROVER_assert(!ll2c_ub_on || ')
                open(os.path.join(d, 'closure_concrete.c'), 'w').write(ctext2)
                open(os.path.join(d, 'hc.c'), 'w').write(harness_text(ob, 'closure_concrete.c', ob.body))
            out[ob.id] = ('ok', {'dir': d, 'functions': info['functions'], 'stubs': info['stubs'],
                                 'libm_models': info['libm_models'], 'n_ub_asserts': len(info['assert_sites']), 'abstracted': info['abstracted']})
        except ll2c.Unsupported as e:
            out[ob.id] = ('infra', 'll2c: %s' % e)
    return out


def san(s):
    return re.sub(r'[^A-Za-z0-9_.-]', '_', s)


# ----------------------------------------------------------------------------- back ends
def goto_cc(d, src, outname, defs):
    cmd = ['goto-cc', '--function', 'harness', '-I' + HERE] + ['-D' + x for x in defs] + [src, '-o', outname]
    rc, out, err, dt = run(cmd, timeout=300, cwd=d)
    if rc != 0:
        raise Infra('goto-cc failed: %s' % (err[-2000:] + out[-500:]))


def cbmc_base(ob):
    a = ['--no-standard-checks', '--bounds-check', '--pointer-check', '--object-bits', '12']
    if ob.unwind:
        a += ['--unwind', str(ob.unwind), '--unwinding-assertions']
    return a


def parse_cbmc_json(out):
    try:
        data = json.loads(out)
    except Exception:
        return None
    res = None; err = []
    for e in data:
        if isinstance(e, dict) and 'result' in e: res = e['result']
        if isinstance(e, dict) and e.get('messageType') == 'ERROR': err.append(e.get('messageText', ''))
    return res, err


def inputs_from_trace(trace, names):
    vals = {}
    for st in trace or []:
        if st.get('stepType') == 'assignment' and st.get('lhs') in names and \
                st.get('sourceLocation', {}).get('function') == 'harness':
            b = st.get('value', {}).get('binary')
            if b is not None and st['lhs'] not in vals:
                vals[st['lhs']] = int(b, 2)
    return vals


def sat_run(d, gb, ob, solver, timeout, prop=None, cancel=None):
    cmd = ['cbmc', gb] + cbmc_base(ob) + ['--json-ui', '--trace']
    if solver == 'cadical': cmd += ['--sat-solver', 'cadical']
    elif solver == 'kissat': cmd += ['--external-sat-solver', 'kissat']
    elif solver == 'z3': cmd += ['--z3']
    elif solver == 'cvc5': cmd += ['--cvc5']
    if prop: cmd += ['--property', prop]
    rc, out, err, dt = run(cmd, timeout=timeout, cwd=d, cancel=cancel)
    if rc is None:
        return 'timeout', None, dt
    pr = parse_cbmc_json(out)
    if pr is None or pr[0] is None:
        return 'error', (out[-1500:] + err[-500:]), dt
    bad = [r for r in pr[0] if r.get('status') not in ('SUCCESS', 'FAILURE')]
    if bad:
        return 'error', 'property status %s from back end %s' % (bad[0].get('status'), solver), dt
    return 'done', pr[0], dt


def classify(results, names):
    """-> (failed descriptions (non-canary), canary_failed, inputs of first real failure, n)"""
    failed = []; canary = False; inputs = None
    for r in results:
        desc = r.get('description', '')
        if r['status'] == 'SUCCESS': continue
        if desc == 'CANARY':
            canary = True; continue
        failed.append('%s [%s]' % (desc, r['property']))
        if inputs is None:
            inputs = inputs_from_trace(r.get('trace'), names)
    return failed, canary, inputs, len(results)


def list_props(d, gb, ob):
    rc, out, err, dt = run(['cbmc', gb] + cbmc_base(ob) + ['--show-properties', '--json-ui'], timeout=120, cwd=d)
    try:
        data = json.loads(out)
    except Exception:
        return []
    names = []
    for e in data:
        if isinstance(e, dict) and 'properties' in e:
            names += [(p['name'], p.get('description', '')) for p in e['properties']]
    return names


def intblast_split(d, gb_nc, ob, timeout, cancel=None):
    """per-property fallback of the SMT route: every property is exported and decided on its own (cvc5 int-blast raced with z3)"""
    props = [p for p in list_props(d, gb_nc, ob) if p[1] != 'CANARY']
    if not props: return 'error', 'no properties', 0.0
    t0 = time.time()
    res = {}

    def one(pn):
        if cancel is not None and cancel.is_set(): return pn, 'timeout', None
        st, vals, dt = intblast_run(d, gb_nc, ob, max(5, timeout - (time.time() - t0)), cancel=cancel, prop=pn)
        return pn, st, vals
    with cf.ThreadPoolExecutor(4) as ex:
        for pn, st, vals in ex.map(one, [p[0] for p in props]):
            res[pn] = (st, vals)
    bad = {k: v for k, v in res.items() if not (v[0].startswith('unsat') or v[0] == 'trivial')}
    if not bad:
        return 'unsat:per-property(cvc5-intblast|z3-bv)', None, time.time() - t0
    for k, (st, vals) in bad.items():
        if st.startswith('sat'):
            return st, vals, time.time() - t0
    return 'timeout', None, time.time() - t0


def intblast_run(d, gb_nc, ob, timeout, cancel=None, prop=None):
    smt = os.path.join(d, os.path.basename(gb_nc) + (('.' + san(prop)) if prop else '') + '.smt2')
    cmd = ['cbmc', gb_nc] + cbmc_base(ob) + (['--property', prop] if prop else []) + ['--smt2', '--outfile', smt]
    rc, out, err, dt = run(cmd, timeout=timeout, cwd=d, cancel=cancel)
    if rc is None or not os.path.exists(smt):
        return 'timeout' if rc is None else 'error', None, dt
    txt = open(smt).read()
    if 'FloatingPoint' in txt or '(_ FloatingPoint' in txt:
        return 'skip', None, dt
    # keep everything up to check-sat, then ask for the harness inputs
    i = txt.find('(check-sat)')
    if i < 0:
        # the property was discharged by CBMC's simplifier: nothing left to solve
        try:
            os.remove(smt)
        except OSError:
            pass
        return ('trivial' if prop else 'error'), 'no check-sat in smt2', dt
    head = txt[:i]
    gv = []
    for t, n in ob.inputs:
        sym = '|harness::1::%s!0@1#1|' % n
        if sym in head: gv.append(sym)
    q = head + '(check-sat)\n' + ''.join('(get-value (%s))\n' % s for s in gv) + '(exit)\n'
    open(smt, 'w').write(q)
    # two independent deciders on the same exported formula: cvc5 with bit-vector -> integer translation, and z3's
    # bit-vector engine (whose arithmetic normalisation settles linear identities the SAT back ends cannot)
    import threading
    local_cancel = threading.Event()
    results = {}

    def one(name, cmd):
        class Either:
            def is_set(self_inner): return local_cancel.is_set() or (cancel is not None and cancel.is_set())
        rc, out, err, dt2 = run(cmd, timeout=max(5, timeout - dt), cwd=d, cancel=Either())
        first = out.strip().split('\n')[0] if (rc is not None and out.strip()) else ''
        if first in ('unsat', 'sat'):
            results.setdefault('answer', (name, first, out))
            local_cancel.set()
        elif rc is not None:
            results.setdefault('errors', []).append('%s: %s' % (name, (out[-200:] + err[-200:]).strip()))
    ths = [threading.Thread(target=one, args=('cvc5-intblast', ['cvc5', '--solve-bv-as-int=sum', '--produce-models', smt])),
           threading.Thread(target=one, args=('z3-bv', ['z3', smt]))]
    t1 = time.time()
    for t in ths: t.start()
    for t in ths: t.join()
    dt2 = time.time() - t1
    try:
        os.remove(smt)
    except OSError:
        pass
    if 'answer' not in results:
        if results.get('errors') and len(results['errors']) == 2:
            return 'error', '; '.join(results['errors']), dt + dt2
        return 'timeout', None, dt + dt2
    name, first, out = results['answer']
    if first == 'unsat':
        return 'unsat:' + name, None, dt + dt2
    vals = {}
    for t, n in ob.inputs:
        m = re.search(r'\(\(\|harness::1::%s!0@1#1\| (#x[0-9a-fA-F]+|#b[01]+|\(_ bv(\d+) \d+\))\)\)' % re.escape(n), out)
        if m:
            g = m.group(1)
            if g.startswith('#x'): vals[n] = int(g[2:], 16)
            elif g.startswith('#b'): vals[n] = int(g[2:], 2)
            else: vals[n] = int(m.group(2))
    return 'sat:' + name, vals, dt + dt2


def canary_prop(d, gb, ob):
    rc, out, err, dt = run(['cbmc', gb] + cbmc_base(ob) + ['--show-properties', '--json-ui'], timeout=120, cwd=d)
    try:
        data = json.loads(out)
    except Exception:
        return None, 0
    n = 0; can = None
    for e in data:
        if isinstance(e, dict) and 'properties' in e:
            for p in e['properties']:
                n += 1
                if p.get('description') == 'CANARY': can = p['name']
    return can, n


def fix_defs(ob, vals):
    """-D options that pin the inputs to a concrete bit pattern (used to localise an int-blast model)"""
    return vals


def pinned_harness(ob, body, vals):
    pins = []
    for t, n in ob.inputs:
        if n not in vals: continue
        v = vals[n]
        if t == 'float': pins.append('  %s = vf_bits_f32(0x%xu);' % (n, v))
        elif t == 'double': pins.append('  %s = vf_bits_f64(0x%xULL);' % (n, v))
        elif t == 'bool': pins.append('  %s = %d;' % (n, v & 1))
        else: pins.append('  %s = (%s)0x%xULL;' % (n, t, v))
    return '\n'.join(pins) + '\n' + body


def decide(d, ob, src='h.c', budget=None, log=None):
    """races the back ends on one harness file; the first definite answer wins.
    returns dict(status, backend, seconds, failed, inputs, canary, n, notes)"""
    import threading
    budget = budget or ob.budget
    names = {n for t, n in ob.inputs}
    defs = (['LL2C_CHECK_WRAP=1'] if ob.wrap else []) + list(ob.defs)
    stem = os.path.splitext(src)[0]
    gb = stem + '.gb'
    goto_cc(d, src, gb, defs)
    use_ib = not ob.fp and not ob.unwind
    gbn = stem + '.nc.gb'
    if use_ib:
        goto_cc(d, src, gbn, defs + ['VF_NO_CANARY=1'])
    t0 = time.time()
    notes = []
    cancel = threading.Event()

    def strat_sat(solver):
        st, res, dt = sat_run(d, gb, ob, solver, budget, cancel=cancel)
        if st == 'done':
            failed, canary, inputs, n = classify(res, names)
            return dict(status='failed' if failed else 'proved', backend='cbmc:' + solver, failed=failed, inputs=inputs,
                        canary=canary, n=n)
        if st == 'error': notes.append('%s error: %s' % (solver, str(res)[:300]))
        return None

    def strat_ib():
        if ob.kind == 'L':
            st, vals, dt = 'timeout', None, 0.0       # loop/recursion VCs: one formula per verification condition from the start
        else:
            st, vals, dt = intblast_run(d, gbn, ob, min(budget, max(30, budget // 4)), cancel=cancel)
        if st == 'timeout' and not cancel.is_set():
            st, vals, dt = intblast_split(d, gbn, ob, budget - dt, cancel=cancel)
        if st.startswith('unsat'):
            ibname = st.split(':', 1)[1]
            can, n = canary_prop(d, gb, ob)
            canary = None
            if can:
                # reachability of the end of the harness under the precondition: any SAT back end may answer
                ev = threading.Event()
                with cf.ThreadPoolExecutor(3) as ex2:
                    fs = [ex2.submit(sat_run, d, gb, ob, sv, budget, can, ev) for sv in ('cadical', 'minisat', 'kissat')]
                    for f2 in cf.as_completed(fs):
                        st2, res2, dt2 = f2.result()
                        if st2 == 'done' and canary is None:
                            canary = any(r['status'] != 'SUCCESS' for r in res2)
                            ev.set()
            return dict(status='proved', backend='cbmc-smt2+' + ibname, failed=[], inputs=None, canary=canary, n=max(n - 1, 1))
        if st.startswith('sat'):
            ibname = st.split(':')[1]
            # localise the failing assertion: pin the inputs to the model, rerun on SAT (constant propagation)
            body = open(os.path.join(d, src)).read()
            pins = []
            for t, n in ob.inputs:
                if n in vals and t not in ('float', 'double'):
                    lhs = n if t == 'bool' else '(uint%d_t)%s' % (BITS.get(t, 64), n)
                    pins.append('  __CPROVER_assume((uint64_t)%s == (uint64_t)0x%xULL);' % (lhs, vals[n]))
            marker = '\n'.join('  %s %s;' % (c_ty(t), n) for t, n in ob.inputs)
            if marker and marker in body:
                open(os.path.join(d, stem + '.pin.c'), 'w').write(body.replace(marker, marker + '\n' + '\n'.join(pins), 1))
                goto_cc(d, stem + '.pin.c', stem + '.pin.gb', defs)
                st3, res3, dt3 = sat_run(d, stem + '.pin.gb', ob, 'minisat', 120)
                if st3 == 'done':
                    failed, canary, inputs, n = classify(res3, names)
                    if failed:
                        return dict(status='failed', backend='cbmc-smt2+' + ibname + '(model)+cbmc-sat(localised)', failed=failed,
                                    inputs=vals, canary=None, n=n)
                    notes.append('int-blast model %r did not reproduce on the SAT back end' % vals)
            else:
                notes.append('could not pin inputs')
        elif st == 'error':
            notes.append('intblast: %s' % str(vals)[:300])
        elif st == 'timeout':
            notes.append('intblast timeout/cancelled')
        return None

    strategies = [lambda: strat_sat('minisat'), lambda: strat_sat('cadical'), lambda: strat_sat('kissat')]
    if use_ib: strategies.append(strat_ib)
    answer = None
    with cf.ThreadPoolExecutor(len(strategies)) as ex:
        futs = [ex.submit(f) for f in strategies]
        for f in cf.as_completed(futs):
            try:
                r = f.result()
            except Infra as e:
                notes.append(str(e)); r = None
            if r is not None and answer is None:
                answer = r
                cancel.set()
    if answer is None:
        return dict(status='undecided', backend='', seconds=time.time() - t0, failed=[], inputs=None, canary=None, n=0, notes=notes)
    answer['seconds'] = time.time() - t0
    answer['notes'] = notes
    return answer


def solve_static(ob, workdir):
    """supporting static fact: a probe translation unit whose static_assert states the expected answer of a compile-time question.
    Discharged by the compiler (clang++ and g++), reported separately, never counted as a proved obligation."""
    r = Result(ob)
    d = os.path.join(workdir, san(ob.id)); os.makedirs(d, exist_ok=True)
    if ob.dfcc and ob.dfcc.get('tool') == 'lean':
        # a mathematical lemma the contracts lean on, machine-checked by Lean 4 + Mathlib (supporting fact, not counted)
        t0 = time.time()
        if ob.dfcc.get('text') is not None:
            ob.dfcc['file'] = os.path.join(d, 'lemmas.lean')
            open(ob.dfcc['file'], 'w').write(ob.dfcc['text'])
        srctxt = open(ob.dfcc['file']).read()
        banned = [w for w in ('sorry', 'admit', 'axiom', 'native_decide', 'unsafe', 'implemented_by', 'opaque') if re.search(r'\b%s\b' % w, re.sub(r'/-.*?-/', '', srctxt, flags=re.S))]
        if banned:
            r.status = 'error'; r.detail = 'lemma file uses %r: not a proof' % banned; return r
        rc, out, err, dt = run(['lean', ob.dfcc['file']], timeout=ob.budget, mem_kb=32 * 1024 * 1024)
        r.seconds = time.time() - t0; r.backend = 'lean 4 + Mathlib'; r.n_props = len(re.findall(r'^theorem ', srctxt, flags=re.M)); r.canary = True
        n_ax = len(re.findall(r"depends on axioms|does not depend on any axioms", out))
        if rc == 0 and 'error' not in out and 'sorry' not in out and n_ax >= srctxt.count('#print axioms'):
            r.status = 'proved'
        elif rc is None:
            r.status = 'undecided'; r.detail = 'lean timed out'
        else:
            # a rejected lemma is a defect of the proof text, never of /repo: infrastructure, not a violation
            r.status = 'error'; r.detail = 'LEMMA: lean rejected %s: %s' % (ob.dfcc['file'], (out + err)[-1500:])
        return r
    src = os.path.join(d, 'probe.cc')
    open(src, 'w').write(ob.body)
    t0 = time.time()
    outs = []
    for comp in (CLANG, 'g++'):
        rc, out, err, dt = run([comp, '-std=' + ob.std, '-fsyntax-only', '-w', '-I' + INC, src], timeout=300)
        outs.append((comp, rc, err))
    r.seconds = time.time() - t0
    r.backend = 'compiler static_assert (clang++-14, g++)'
    r.n_props = 1
    r.canary = True
    bad = [(c, e) for c, rc, e in outs if rc != 0]
    if ob.dfcc and ob.dfcc.get('expect') == 'reject':
        # negative compile probe: the property says this program is REJECTED (a guard of the library fires).  Discharged when both compilers reject it and the
        # diagnostic is the library's own guard (regex); an accepted program is a violation; a rejection for any other reason is infrastructure (exit 2)
        r.backend = 'compiler must reject (clang++-14, g++)'
        rx = re.compile(ob.dfcc['match'])
        accepted = [c for c, rc, e in outs if rc == 0]
        if accepted:
            r.status = 'failed'
            r.failed_props = ['STATIC:program accepted although the property says it is rejected (%s) [%s]' % (', '.join(accepted), ob.id)]
            r.log = 'accepted by: ' + ', '.join(accepted); r.detail = r.log
        elif all(rx.search(e) for c, rc, e in outs):
            r.status = 'proved'
        else:
            r.status = 'error'; r.detail = 'rejected, but not by the expected guard /%s/: %s' % (ob.dfcc['match'], '\n'.join(e[-400:] for c, rc, e in outs))
        return r
    if not bad:
        r.status = 'proved'
    else:
        r.status = 'failed'
        mism = any(re.search(r'(static_assert failed|static assertion failed)[^\n]*VF_STATIC_FACT', e) for c, e in bad)
        kind = 'static_assert failed (compile-time answer differs from the documented formula)' if mism \
            else 'hard error: asking the question made the program ill-formed'
        r.failed_props = ['STATIC:%s [%s]' % (kind, ob.id)]
        r.log = '\n'.join('%s: %s' % (c, e[-1500:]) for c, e in bad)
        r.detail = r.log[-600:]
    return r


def solve_ob(args):
    ob, prep, do_twin = args
    r = Result(ob)
    if ob.kind == 'S':
        return solve_static(ob, prep[1])
    if prep[0] != 'ok':
        r.status = 'error'; r.detail = prep[1]; return r
    info = prep[1]; d = info['dir']
    r.closure_functions = info['functions']; r.stubs = info['stubs']
    try:
        if ob.kind == 'D':
            import dfcc
            ob.dfcc = info['dfcc']
            return dfcc.solve(ob, info, r)
        res = decide(d, ob)
        r.status = res['status']; r.backend = res['backend']; r.seconds = res['seconds']
        r.failed_props = res['failed']; r.inputs = res['inputs']; r.canary = res['canary']; r.n_props = res['n']
        r.detail = '; '.join(res['notes'])
        if r.status == 'failed' and ob.abstract:
            # the modular proof (callee replaced by its contract) failed: look for a concrete counterexample on the full code
            rc = decide(d, ob, src='hc.c', budget=max(ob.budget, 240))
            if rc['status'] == 'proved':
                r.status = 'proved'; r.backend = rc['backend'] + ' (concrete; modular proof failed)'; r.failed_props = []
                r.canary = rc['canary']; r.n_props = rc['n']; r.inputs = None
            elif rc['status'] == 'failed':
                r.backend = rc['backend'] + ' (concrete counterexample after modular proof failed)'
                r.failed_props = rc['failed']; r.inputs = rc['inputs']
            else:
                r.detail += ' modular proof failed (%s); no concrete counterexample within budget' % '; '.join(r.failed_props[:2])
                r.inputs = None
                r.log = 'modular obligation failed under the callee contract; concrete search undecided'
            r.seconds += rc['seconds']
        if do_twin and ob.twin and r.status == 'proved':
            tw = decide(d, ob, src='twin.c')
            r.twin_status = tw['status']
    except Infra as e:
        r.status = 'error'; r.detail = str(e)
    return r


# ----------------------------------------------------------------------------- native replay
REPLAY_MAIN = r'''
#include <stdio.h>
#include <stdlib.h>
#include <string.h>
#include "spec_lib.h"
int vf_failed = 0;
#define UB_ON() ((void)0)
#define UB_OFF() ((void)0)
%(protos)s
static int replay(%(params)s) {
%(body)s
  return vf_failed ? 1 : 0;
}
int main(int argc, char **argv) {
  if (argc != %(argc)d) { fprintf(stderr, "usage: replay <bit patterns as hex>\n"); return 2; }
%(parse)s
  int rc = replay(%(args)s);
  printf(rc == 0 ? "REPLAY-CLEAN\n" : rc == 3 ? "" : "REPLAY-VIOLATION\n");
  return rc;
}
'''


def build_replay(workdir, ob, driver_cc, compiler):
    d = os.path.join(workdir, 'replay_' + san(ob.id) + '_' + compiler.replace('+', 'x'))
    os.makedirs(d, exist_ok=True)
    protos = []
    for w in ob.wrappers:
        protos.append('extern %s %s(%s);' % (c_ty(w.ret), w.name, ', '.join('%s %s' % (c_ty(t), n) for t, n in w.params) or 'void'))
    parse = []
    for i, (t, n) in enumerate(ob.inputs):
        parse.append('  unsigned long long b_%s = strtoull(argv[%d], 0, 16);' % (n, i + 1))
        if t == 'float': parse.append('  float %s = vf_bits_f32((uint32_t)b_%s);' % (n, n))
        elif t == 'double': parse.append('  double %s = vf_bits_f64((uint64_t)b_%s);' % (n, n))
        elif t == 'bool': parse.append('  _Bool %s = (_Bool)(b_%s & 1);' % (n, n))
        else: parse.append('  %s %s = (%s)b_%s;' % (t, n, t, n))
    src = REPLAY_MAIN % dict(protos='\n'.join(protos), params=', '.join('%s %s' % (c_ty(t), n) for t, n in ob.inputs) or 'void',
                             body=ob.body, argc=len(ob.inputs) + 1, parse='\n'.join(parse), args=', '.join(n for t, n in ob.inputs))
    open(os.path.join(d, 'replay.c'), 'w').write(src)
    sanit = '-fsanitize=undefined,float-cast-overflow' if compiler.startswith('clang') else '-fsanitize=undefined,float-cast-overflow'
    if ob.wrap and compiler.startswith('clang'):
        sanit += ',unsigned-integer-overflow'
    cxx = [compiler, '-std=' + ob.std, '-O0', '-g', '-fno-exceptions' if compiler.startswith('clang') else '-fexceptions',
           '-ffp-contract=off', sanit, '-fno-sanitize-recover=all', '-w', '-fconstexpr-steps=500000000' if compiler.startswith('clang') else '-fconstexpr-ops-limit=5000000000', '-Wno-narrowing', '-fpermissive' if compiler == 'g++' else '-Wno-c++11-narrowing',
           '-I' + INC, *ob.extra_cxxflags, '-c', driver_cc, '-o', os.path.join(d, 'driver.o')]
    rc, out, err, dt = run(cxx, timeout=900, mem_kb=16 * 1024 * 1024)
    if rc != 0:
        return None, 'replay driver build failed (%s): %s' % (compiler, err[-1500:])
    cc = 'clang-14' if compiler.startswith('clang') else 'gcc'
    rc, out, err, dt = run([cc, '-O0', '-g', '-I' + HERE, '-c', os.path.join(d, 'replay.c'), '-o', os.path.join(d, 'replay.o')], timeout=300)
    if rc != 0:
        return None, 'replay harness build failed: %s' % err[-1500:]
    rc, out, err, dt = run([compiler, sanit, os.path.join(d, 'replay.o'), os.path.join(d, 'driver.o'), '-o', os.path.join(d, 'replay'), '-lm'],
                           timeout=300, mem_kb=16 * 1024 * 1024)
    if rc != 0:
        return None, 'replay link failed: %s' % err[-1500:]
    return os.path.join(d, 'replay'), ''


def native_replay(workdir, ob, inputs, driver_cc):
    """-> dict(confirmed: bool|None, per-compiler outcomes)"""
    res = {'inputs_hex': {n: '%x' % inputs.get(n, 0) for t, n in ob.inputs}, 'runs': []}
    confirmed = None
    for comp in (CLANG, 'g++'):
        exe, msg = build_replay(workdir, ob, driver_cc, comp)
        if exe is None:
            res['runs'].append({'compiler': comp, 'outcome': 'build-failed', 'detail': msg}); continue
        args = ['%x' % inputs.get(n, 0) for t, n in ob.inputs]
        rc, out, err, dt = run([exe] + args, timeout=60, mem_kb=64 * 1024 * 1024 * 1024 // 1024)
        ub = [l for l in err.split('\n') if 'runtime error' in l]
        outcome = 'clean'
        if rc == 3 and 'PRECONDITION-FALSE' in out: outcome = 'precondition-false'
        elif ub: outcome = 'ub'
        elif 'CHECK-FAILED' in out: outcome = 'contract-violated'
        elif rc not in (0,): outcome = 'abnormal-exit-%s' % rc
        res['runs'].append({'compiler': comp, 'outcome': outcome, 'stdout': out[-800:], 'stderr': err[-1200:], 'cmd': ' '.join([exe] + args)})
        if outcome in ('ub', 'contract-violated'):
            confirmed = True
        elif outcome in ('clean', 'precondition-false') and confirmed is None:
            confirmed = False
    res['confirmed'] = confirmed
    return res


def native_fuzz(workdir, ob, driver_cc, seed, tries=4000, seconds=40):
    """Structural obligations (operator uninterpreted on both sides) have verifier models that may rest on an arbitrary meaning of the operator, so the model's
    inputs need not fail on the real code.  This runs the SAME contract text natively (the replay binary, UBSan) on boundary-biased random inputs to attach a
    concrete failing input to the report.  -> replay dict with confirmed True and the inputs, or None."""
    import random, struct
    exe, msg = build_replay(workdir, ob, driver_cc, CLANG)
    if exe is None: return None
    rnd = random.Random('%s/%s/fuzz' % (ob.id, seed))
    t0 = time.time()

    def pick(t):
        w = BITS.get(t, 64)
        if t in ('float', 'double'):
            x = rnd.choice([0.0, -0.0, 1.0, -1.0, 0.5, 1.5, 3.0, 1e6, 1e-6, 12345.678, float('inf'), float('nan'), 2.0 ** rnd.randrange(-60, 60),
                            rnd.uniform(-1e9, 1e9), float(rnd.randrange(-10 ** 6, 10 ** 6)), rnd.uniform(-4, 4)])
            return struct.unpack('<I', struct.pack('<f', x))[0] if t == 'float' else struct.unpack('<Q', struct.pack('<d', x))[0]
        if t == 'bool': return rnd.randrange(2)
        r = rnd.random()
        if r < 0.3: return rnd.randrange(0, 64) % (1 << w)
        if r < 0.45: return (-rnd.randrange(1, 64)) % (1 << w)
        if r < 0.6: return ((1 << rnd.randrange(1, w)) + rnd.randrange(-2, 3)) % (1 << w)
        if r < 0.7: return ((1 << w) - 1 - rnd.randrange(0, 4)) % (1 << w)
        return rnd.getrandbits(w)
    for k in range(tries):
        if time.time() - t0 > seconds: break
        vals = {n: pick(t) for t, n in ob.inputs}
        rc, out, err, dt = run([exe] + ['%x' % vals[n] for t, n in ob.inputs], timeout=20)
        if 'CHECK-FAILED' in (out or '') or 'runtime error' in (err or ''):
            return {'inputs_hex': {n: '%x' % v for n, v in vals.items()}, 'confirmed': True, 'found_by': 'native search over the same contract text (%d inputs tried)' % (k + 1),
                    'runs': [{'compiler': CLANG, 'outcome': 'contract-violated' if 'CHECK-FAILED' in (out or '') else 'ub', 'stdout': (out or '')[-600:], 'stderr': (err or '')[-600:],
                              'cmd': ' '.join([exe] + ['%x' % vals[n] for t, n in ob.inputs])}]}, vals
    return None


def native_search(workdir, ob, seconds=25):
    """A failed modular obligation (kinds D/L) has no verifier counterexample that means anything for the real code (the failing state may be an
    arbitrary loop state, or a model of the uninterpreted functions).  When the obligation carries an executable native oracle
    (dfcc['native_search'] = dict(pre=, call=, ret=, post=) in C++ over ob.inputs, the specification evaluated with 128-bit / loop arithmetic),
    try to attach a concrete failing input: boundary-biased random search on the REAL code (g++ -O1, UBSan).  Found -> the violation is reported
    with a confirmed input; not found -> it is still reported, with the words no-failing-input-found.  Never the deciding step."""
    ns = (ob.dfcc or {}).get('native_search')
    if not ns: return None
    d = os.path.join(workdir, 'search_' + san(ob.id)); os.makedirs(d, exist_ok=True)
    ins = ob.inputs
    L = ['#include <cstdio>', '#include <cstdint>', '#include <cstdlib>', '#include <unistd.h>', '#include <csignal>', ob.prelude,
         'typedef unsigned __int128 u128;',
         'static uint64_t rs = 88172645463325252ULL; static uint64_t rnd() { rs ^= rs << 13; rs ^= rs >> 7; rs ^= rs << 17; return rs; }',
         'static uint64_t pick() { uint64_t r = rnd(); switch (r % 8) { case 0: return rnd() % 16; case 1: return (1ULL << (rnd() % 64)) + (rnd() % 5) - 2; '
         'case 2: return ~0ULL - (rnd() % 8); case 3: return rnd() >> (rnd() % 64); case 4: return (rnd() % 0x100000000ULL) + 0xfffffff0ULL; default: return rnd(); } }',
         ns.get('helpers', ''),
         'static unsigned long long cur_in[8]; static void on_trap(int sig) { char buf[256]; int k = std::snprintf(buf, sizeof buf, "FOUND %s (signal %%d in the real code)\\n", %s, sig); '
         'if (k > 0) { ssize_t w_ = write(1, buf, (size_t)k); (void)w_; } _exit(1); }' % (' '.join('%llx' for _ in ins), ', '.join('cur_in[%d]' % i for i in range(len(ins)))),
         'int main() { alarm(%d); signal(SIGFPE, on_trap); signal(SIGSEGV, on_trap); signal(SIGILL, on_trap); signal(SIGABRT, on_trap);' % (seconds + 5),
         '  for (long it = 0; it < 400000000L; ++it) {']
    for t, n in ins: L.append('    %s %s = (%s)pick();' % (t, n, t))
    for k, tup in enumerate(ns.get('seeds', [])):     # inputs known to have failed once are tried first
        L.append('    if (it == %d) { %s }' % (k, ' '.join('%s = (%s)%dULL;' % (n, t, v) for (t, n), v in zip(ins, tup))))
    L.append('    if (it %% 3 == 1 && it > 64) { %s }' % ' '.join('%s = %s;' % (n, ins[0][1]) for t, n in ins[1:2]))   # equal operands now and then
    if ns.get('adjust'): L.append('    if (it >= %d) { %s }' % (len(ns.get('seeds', [])), ns['adjust']))     # steer random picks into the precondition
    L.append('    if (!(%s)) continue;' % ns['pre'])
    L.append('    %s' % ' '.join('cur_in[%d] = (unsigned long long)%s;' % (i, n) for i, (t, n) in enumerate(ins)))
    L.append('    %s r = %s;' % (ns['ret'], ns['call']))
    L.append('    if (!(%s)) { std::printf("FOUND %s\\n", %s); return 1; }' % (ns['post'], ' '.join('%llx' for _ in ins), ', '.join('(unsigned long long)%s' % n for t, n in ins)))
    L.append('    if ((it & 0xffff) == 0 && it > 0) { static time_t t0 = 0; if (!t0) t0 = time(0); if (time(0) - t0 > %d) break; }' % seconds)
    L.append('  }', ); L.append('  std::printf("NONE\\n"); return 0; }')
    src = os.path.join(d, 'search.cc'); open(src, 'w').write('#include <ctime>\n' + '\n'.join(L) + '\n')
    exe = os.path.join(d, 'search')
    rc, out, err, dt = run(['g++', '-std=c++14', '-O1', '-w', '-I' + INC, src, '-o', exe], timeout=600, mem_kb=16 * 1024 * 1024)
    if rc != 0: return {'found': False, 'note': 'search driver did not build: ' + err[-400:]}
    rc, out, err, dt = run([exe], timeout=seconds + 15)
    m = re.search(r'FOUND (.*)', out or '')
    if m:
        vals = m.group(1).split()[:len(ins)]
        return {'found': True, 'how': m.group(1), 'inputs_hex': {n: v for (t, n), v in zip(ins, vals)}, 'oracle': ns['post'], 'call': ns['call'], 'cmd': exe,
                'confirmed': True, 'source': src}
    return {'found': False, 'note': 'no failing input among the sampled ones (rc=%s%s)' % (rc, ', the real code did not return: alarm' if rc in (-14, 142) else '')}


# ----------------------------------------------------------------------------- lowering self-test (translation validation of ll2c on concrete inputs)
def selftest(workdir, ob, driver_cc, seed, n_vectors=3):
    """Run every wrapper of a kind-H obligation natively (g++ -O0, no sanitizer) on random concrete inputs and require the translated C,
    executed by CBMC with the same inputs pinned, to return bit-identical results.  A mismatch is a translator (or compiler-semantics)
    problem: reported as infrastructure, never as a violation.  Returns (n_compared, mismatches, note)."""
    import random
    rnd = random.Random('%s/%s' % (ob.id, seed))
    ws = [w for w in ob.wrappers if w.ret != 'void' and all(t in BITS for t, n in w.params)]
    if not ws: return 0, [], 'no scalar wrappers'
    try:
        if re.search(r'll2c_stub_\w+_calls', open(os.path.join(workdir, san(ob.id), 'closure.c')).read()):
            return 0, [], 'closure calls a trusted libm stub (its result is unconstrained by design): nothing to compare'
    except OSError:
        pass
    d = os.path.join(workdir, 'selftest_' + san(ob.id)); os.makedirs(d, exist_ok=True)
    # native side
    L = ['#include <cstdio>', '#include <cstdint>', '#include <cstring>', '#include <cstdlib>']
    for w in ws:
        L.append('extern "C" %s %s(%s);' % (w.ret, w.name, ', '.join('%s %s' % p for p in w.params)))
    L.append('template <class T> static unsigned long long bits_of(T v) { unsigned long long b = 0; std::memcpy(&b, &v, sizeof v); return b; }')
    L.append('template <class T> static T from_bits(unsigned long long b) { T v; std::memcpy(&v, &b, sizeof v); return v; }')
    L.append('int main(int argc, char **argv) { int k = std::atoi(argv[1]);')
    vectors = []
    def rand_bits(t):
        w = BITS[t]
        r = rnd.random()
        if t in ('float', 'double'):
            import struct
            x = rnd.choice([0.0, 1.0, -1.5, 1e10, -3.25e-3, 12345.678, float(rnd.randrange(-10 ** 6, 10 ** 6)) / 7.0])
            return struct.unpack('<I', struct.pack('<f', x))[0] if t == 'float' else struct.unpack('<Q', struct.pack('<d', x))[0]
        if t == 'bool': return rnd.randrange(2)
        if r < 0.4: return rnd.randrange(0, 200) % (1 << w)
        if r < 0.6: return (rnd.randrange(-200, 0)) % (1 << w)
        return rnd.getrandbits(w)
    calls = []
    for w in ws:
        for v in range(n_vectors):
            args = [rand_bits(t) for t, n in w.params]
            calls.append((w, args))
            L.append('  if (k == %d) { auto r = %s(%s); std::printf("%%llx\\n", bits_of(r)); }' % (
                len(calls) - 1, w.name, ', '.join('from_bits<%s>(0x%xULL)' % (t, a) for (t, n), a in zip(w.params, args))))
    L.append('  return 0; }')
    open(os.path.join(d, 'native_main.cc'), 'w').write('\n'.join(L) + '\n')
    # the native side is built with UBSan: a random vector on which the real code executes UB has no defined result to compare and is dropped
    rc, out, err, dt = run(['g++', '-std=' + ob.std, '-O0', '-w', '-fpermissive', '-Wno-narrowing', '-ffp-contract=off', '-fsanitize=undefined,float-cast-overflow',
                            '-fno-sanitize-recover=all', '-I' + INC, *ob.extra_cxxflags,
                            driver_cc, os.path.join(d, 'native_main.cc'), '-o', os.path.join(d, 'native')], timeout=900, mem_kb=16 * 1024 * 1024)
    if rc != 0: return 0, [], 'native build failed: ' + err[-300:]
    native = []; kept = []
    for k, c in enumerate(calls):
        rc, out, err, dt = run([os.path.join(d, 'native'), str(k)], timeout=60)
        if rc != 0 or len(out.split()) != 1: continue
        native.append(int(out.split()[0], 16)); kept.append(c)
    calls = kept
    if not calls: return 0, [], 'every random vector executes UB natively; nothing to compare'
    # CBMC side: translated closure with pinned inputs
    obdir = os.path.join(workdir, san(ob.id))
    H = ['#define VF_CBMC 1', '#include "spec_lib.h"', '_Bool ll2c_ub_on = 0;', '#include "%s"' % os.path.join(obdir, 'closure.c'),
         'static unsigned long long st_bits(const void *p, unsigned n) { unsigned long long b = 0; __builtin_memcpy(&b, p, n); return b; }', 'void harness(void) {']
    for i, ((w, args), nv) in enumerate(zip(calls, native)):
        decl = []
        for j, ((t, n), a) in enumerate(zip(w.params, args)):
            ct_ = c_ty(t)
            if t == 'float': decl.append('float a%d_%d = vf_bits_f32(0x%xu);' % (i, j, a))
            elif t == 'double': decl.append('double a%d_%d = vf_bits_f64(0x%xULL);' % (i, j, a))
            elif t == 'bool': decl.append('_Bool a%d_%d = %d;' % (i, j, a & 1))
            else: decl.append('%s a%d_%d = (%s)0x%xULL;' % (ct_, i, j, ct_, a))
        H.append('  { ' + ' '.join(decl))
        rt = c_ty(w.ret)
        H.append('    %s r = (%s)f_%s(%s);' % (rt, rt, w.name, ', '.join('a%d_%d' % (i, j) for j in range(len(args)))))
        mask = (1 << BITS.get(w.ret, 64)) - 1 if w.ret != 'bool' else 1
        if w.ret == 'float': rb = '(unsigned long long)vf_f32_bits(r)'
        elif w.ret == 'double': rb = '(unsigned long long)vf_f64_bits(r)'
        elif w.ret == 'bool': rb = '(unsigned long long)(r ? 1 : 0)'
        else: rb = '(unsigned long long)(uint%d_t)r' % BITS.get(w.ret, 64)
        H.append('    __CPROVER_assert((%s & 0x%xULL) == 0x%xULL, "SELFTEST %s #%d"); }' % (rb, mask, nv & mask, w.name, i))
    H.append('}')
    open(os.path.join(d, 'st.c'), 'w').write('\n'.join(H) + '\n')
    rc, out, err, dt = run(['goto-cc', '--function', 'harness', '-I' + HERE, 'st.c', '-o', 'st.gb'], timeout=300, cwd=d)
    if rc != 0: return 0, [], 'goto-cc failed: ' + (err + out)[-300:]
    cmd = ['cbmc', 'st.gb', '--no-standard-checks', '--object-bits', '12', '--json-ui'] + (['--unwind', str(ob.unwind)] if ob.unwind else [])
    rc, out, err, dt = run(cmd, timeout=300, cwd=d)
    pr = parse_cbmc_json(out) if rc is not None else None
    if not pr or pr[0] is None: return 0, [], 'cbmc did not answer'
    mism = [r.get('description') for r in pr[0] if r.get('description', '').startswith('SELFTEST') and r['status'] != 'SUCCESS']
    n = sum(1 for r in pr[0] if r.get('description', '').startswith('SELFTEST'))
    return n, mism, ''
