"""lemma.py -- arithmetic lemmas shared by the verifier (as assumed instances) and by Lean (as theorems to prove).

A lemma-based obligation (Ob.defs contains LL2C_UF_ARITH=1) lets CBMC treat 64-bit unsigned multiplication and division by a
non-constant operand, and the mathematical specification functions (mulmod, powmod, gcd, ...), as UNINTERPRETED functions.  Every
arithmetic fact the proof needs is then an explicit instance `hyp -> concl` of a lemma.  The lemma is written ONCE, as a term of the
little language below; from that single term this module prints
  * the C text of an instance (over the uninterpreted functions) that the harness or a loop head assumes, and
  * the Lean 4 statement over the natural numbers, in which every operation has its real meaning (wrap-around made explicit as `% W`),
so the two cannot drift apart.  Lean + Mathlib must accept the proof on every run; otherwise the obligation is not discharged.

Soundness: let I interpret umul64/udiv64/urem64/umulovf64 as the machine operations (udiv(x,0) := 0, urem(x,0) := x, as Lean's Nat does)
and each specification function by its Lean definition reduced mod 2^64.  Lean proves every lemma true under I for all 64-bit values.
CBMC proves the assertions for EVERY interpretation that satisfies the assumed instances, hence for I; and under I the translated code is
the real code wherever no division by zero happens, which is itself one of the assertions.

Terms: every number-valued term denotes a value < W = 2^64 (variables by hypothesis, constants by construction, operations by `% W`)."""

W = 1 << 64


class T:
    def __init__(s, op, args=(), name=None, val=None):
        s.op, s.args, s.name, s.val = op, tuple(args), name, val

    # sugar
    def __add__(s, o): return T('add', (s, lift(o)))
    def __sub__(s, o): return T('sub', (s, lift(o)))
    def __lt__(s, o): return T('lt', (s, lift(o)))
    def __le__(s, o): return T('le', (s, lift(o)))
    def __gt__(s, o): return T('lt', (lift(o), s))
    def __ge__(s, o): return T('le', (lift(o), s))


def lift(x):
    return x if isinstance(x, T) else K(x)


def V(name): return T('var', name=name)
def K(v):
    assert 0 <= v < W
    return T('const', val=v)
def udiv(x, y): return T('udiv', (lift(x), lift(y)))
def urem(x, y): return T('urem', (lift(x), lift(y)))
def umul(x, y): return T('umul', (lift(x), lift(y)))
def umulovf(x, y): return T('umulovf', (lift(x), lift(y)))
def sdiv(x, y, bits): return T('sdiv', (lift(x), lift(y)), val=bits)      # signed (truncating) division on the two's-complement reading of `bits`-bit patterns
def smul(x, y, bits=64): return T('smul', (lift(x), lift(y)), val=bits)
def smulovf(x, y, bits=64): return T('smulovf', (lift(x), lift(y)), val=bits)
def slt(x, y, bits): return T('slt', (lift(x), lift(y)), val=bits)
def sle(x, y, bits): return T('sle', (lift(x), lift(y)), val=bits)
def eq(x, y): return T('eq', (lift(x), lift(y)))
def ne(x, y): return T('ne', (lift(x), lift(y)))
def And(*xs): return T('and', xs)
def Or(*xs): return T('or', xs)
def Not(x): return T('not', (x,))
def Imp(h, c): return T('imp', (h, c))
def Ite(c, a, b): return T('ite', (c, lift(a), lift(b)))
def App(f, *xs): return T('app', [lift(x) for x in xs], name=f)
def PApp(f, *xs): return T('papp', [lift(x) for x in xs], name=f)     # predicate-valued specification function
TRUE = T('true')

# specification functions: name -> (arity, Lean definition body over Nat arguments x0 x1 ...; number-valued ones are reduced mod W in the printer)
SPEC_FUNS = {
    'mulmod': (3, 'x0 * x1 % x2'),
    'powmod': (3, 'x0 ^ x1 % x2'),
    'gcd': (2, 'Nat.gcd x0 x1'),
    'isqrt': (1, 'Nat.sqrt x0'),
    'pow': (2, 'x0 ^ x1'),
    'spow': (2, 'enc 64 (sval 64 x0 ^ x1)'),
    'jac': (2, '(jacobiSym (x0 : ℤ) x1 + 1).toNat'),     # Jacobi symbol (x0 | x1), encoded as J + 1 in {0, 1, 2}
}
SPEC_PREDS = {
    'issquare': (1, '∃ k : Nat, k * k = x0'),
    'powfits': (2, 'x0 ^ x1 < W'),
    'poweq': (5, 'x0 * x1 ^ x2 = x3 ^ x4'),
    'spoweq': (5, 'sval 64 x0 * sval 64 x1 ^ x2 = sval 64 x3 ^ x4'),
    'spowfits': (2, 'sval 64 x0 ^ x1 < (9223372036854775808 : Int)'),
    'sprodfits64': (2, '(-9223372036854775808 : Int) ≤ sval 64 x0 * sval 64 x1 ∧ sval 64 x0 * sval 64 x1 ≤ 9223372036854775807'),
    'sprodfits32': (2, '(-2147483648 : Int) ≤ sval 32 x0 * sval 32 x1 ∧ sval 32 x0 * sval 32 x1 ≤ 2147483647'),
}


def is_const(t): return t.op == 'const'


def c_text(t, env):
    """C text over uint64_t; env: variable name -> C expression"""
    o, a = t.op, t.args
    r = lambda x: c_text(x, env)
    if o == 'var': return '(%s)' % env[t.name]
    if o == 'const': return '%dULL' % t.val
    if o == 'true': return '1'
    if o == 'udiv':
        if is_const(a[1]):
            assert a[1].val != 0
            return '((uint64_t)(%s / %s))' % (r(a[0]), r(a[1]))
        return 'LL2C_UDIV64(%s, %s)' % (r(a[0]), r(a[1]))
    if o == 'urem':
        if is_const(a[1]):
            assert a[1].val != 0
            return '((uint64_t)(%s %% %s))' % (r(a[0]), r(a[1]))
        return 'LL2C_UREM64(%s, %s)' % (r(a[0]), r(a[1]))
    if o == 'umul':
        if is_const(a[0]) or is_const(a[1]): return '((uint64_t)((uint64_t)%s * (uint64_t)%s))' % (r(a[0]), r(a[1]))
        return 'LL2C_UMUL64(%s, %s)' % (r(a[0]), r(a[1]))
    if o == 'umulovf':
        if is_const(a[0]) or is_const(a[1]): return '__CPROVER_overflow_mult((uint64_t)%s, (uint64_t)%s)' % (r(a[0]), r(a[1]))
        return 'LL2C_UMULOVF64(%s, %s)' % (r(a[0]), r(a[1]))
    if o == 'sdiv':
        assert not is_const(a[1])
        return '((uint%d_t)LL2C_SDIV%d((int%d_t)%s, (int%d_t)%s))' % (t.val, t.val, t.val, r(a[0]), t.val, r(a[1]))
    if o == 'smul': return '((uint64_t)LL2C_SMUL64((int64_t)%s, (int64_t)%s))' % (r(a[0]), r(a[1]))
    if o == 'smulovf': return 'LL2C_SMULOVF64((int64_t)%s, (int64_t)%s)' % (r(a[0]), r(a[1]))
    if o in ('slt', 'sle'):
        return '((int%d_t)%s %s (int%d_t)%s)' % (t.val, r(a[0]), '<' if o == 'slt' else '<=', t.val, r(a[1]))
    if o == 'add': return '((uint64_t)((uint64_t)%s + (uint64_t)%s))' % (r(a[0]), r(a[1]))
    if o == 'sub': return '((uint64_t)((uint64_t)%s - (uint64_t)%s))' % (r(a[0]), r(a[1]))
    if o in ('lt', 'le', 'eq', 'ne'):
        return '((uint64_t)%s %s (uint64_t)%s)' % (r(a[0]), {'lt': '<', 'le': '<=', 'eq': '==', 'ne': '!='}[o], r(a[1]))
    if o == 'and': return '(' + ' && '.join(r(x) for x in a) + ')'
    if o == 'or': return '(' + ' || '.join(r(x) for x in a) + ')'
    if o == 'not': return '(!%s)' % r(a[0])
    if o == 'imp': return '(!%s || %s)' % (r(a[0]), r(a[1]))
    if o == 'ite': return '(%s ? %s : %s)' % (r(a[0]), r(a[1]), r(a[2]))
    if o == 'app': return 'SPEC_%s(%s)' % (t.name, ', '.join(r(x) for x in a))
    if o == 'papp': return 'SPECP_%s(%s)' % (t.name, ', '.join(r(x) for x in a))
    raise ValueError(o)


def lean_text(t):
    o, a = t.op, t.args
    r = lean_text
    if o == 'var': return t.name
    if o == 'const': return '(%d : Nat)' % t.val
    if o == 'true': return 'True'
    if o == 'udiv': return '(%s / %s)' % (r(a[0]), r(a[1]))
    if o == 'urem': return '(%s %% %s)' % (r(a[0]), r(a[1]))
    if o == 'umul': return '(%s * %s %% W)' % (r(a[0]), r(a[1]))
    if o == 'umulovf': return '(W ≤ %s * %s)' % (r(a[0]), r(a[1]))
    if o == 'sdiv': return '(enc %d (Int.tdiv (sval %d %s) (sval %d %s)))' % (t.val, t.val, r(a[0]), t.val, r(a[1]))
    if o == 'smul': return '(enc 64 (sval 64 %s * sval 64 %s))' % (r(a[0]), r(a[1]))
    if o == 'smulovf': return '(¬ ((-9223372036854775808 : Int) ≤ sval 64 %s * sval 64 %s ∧ sval 64 %s * sval 64 %s ≤ 9223372036854775807))' % (r(a[0]), r(a[1]), r(a[0]), r(a[1]))
    if o in ('slt', 'sle'): return '(sval %d %s %s sval %d %s)' % (t.val, r(a[0]), '<' if o == 'slt' else '≤', t.val, r(a[1]))
    if o == 'add': return '((%s + %s) %% W)' % (r(a[0]), r(a[1]))
    if o == 'sub': return '((%s + W - %s) %% W)' % (r(a[0]), r(a[1]))
    if o in ('lt', 'le', 'eq', 'ne'):
        return '(%s %s %s)' % (r(a[0]), {'lt': '<', 'le': '≤', 'eq': '=', 'ne': '≠'}[o], r(a[1]))
    if o == 'and': return '(' + ' ∧ '.join(r(x) for x in a) + ')'
    if o == 'or': return '(' + ' ∨ '.join(r(x) for x in a) + ')'
    if o == 'not': return '(¬ %s)' % r(a[0])
    if o == 'imp': return '(%s → %s)' % (r(a[0]), r(a[1]))
    if o == 'ite': return '(if %s then %s else %s)' % (r(a[0]), r(a[1]), r(a[2]))
    if o == 'app': return '(spec_%s %s)' % (t.name, ' '.join(r(x) for x in a))
    if o == 'papp': return '(specp_%s %s)' % (t.name, ' '.join(r(x) for x in a))
    raise ValueError(o)


class Lemma:
    def __init__(s, name, vars, hyp, concl, proof, doc=''):
        s.name, s.vars, s.hyp, s.concl, s.proof, s.doc = name, list(vars), hyp, concl, proof, doc

    def inst(s, **env):
        """C text of the instance hyp -> concl at the given C expressions"""
        missing = [v for v in s.vars if v not in env]
        assert not missing, missing
        return '(!%s || %s)' % (c_text(s.hyp, env), c_text(s.concl, env))

    def lean(s):
        vs = ' '.join(s.vars)
        bounds = ' '.join('(hW_%s : %s < W)' % (v, v) for v in s.vars)
        return ('/-- %s -/\ntheorem %s (%s : Nat) %s\n    (hyp : %s) :\n    %s := by\n%s\n' %
                (s.doc.replace('-/', '- /'), s.name, vs, bounds, lean_text(s.hyp), lean_text(s.concl), s.proof.rstrip('\n')))


LEAN_HEADER = '''import Mathlib.Tactic
import Mathlib.Data.Nat.GCD.Basic
import Mathlib.Data.Nat.ModEq
import Mathlib.Data.Nat.Sqrt
import Mathlib.NumberTheory.LegendreSymbol.JacobiSymbol
set_option linter.unusedVariables false
set_option maxHeartbeats 1000000

/-- 2^64 -/
def W : Nat := 18446744073709551616
/-- two's-complement reading of a b-bit pattern, and the b-bit pattern of an integer -/
def sval (b : Nat) (x : Nat) : Int := if x < 2 ^ (b - 1) then (x : Int) else (x : Int) - 2 ^ b
def enc (b : Nat) (z : Int) : Nat := (z % 2 ^ b).toNat
'''


def lean_file(lemmas, prelude=''):
    """complete Lean source: definitions of the specification functions, hand-written helper lemmas (prelude), then one theorem per lemma"""
    L = [LEAN_HEADER]
    for f, (n, body) in SPEC_FUNS.items():
        L.append('def spec_%s (%s : Nat) : Nat := (%s) %% W' % (f, ' '.join('x%d' % i for i in range(n)), body))
    for f, (n, body) in SPEC_PREDS.items():
        L.append('def specp_%s (%s : Nat) : Prop := %s' % (f, ' '.join('x%d' % i for i in range(n)), body))
    L.append('')
    L.append(prelude)
    for lm in lemmas:
        L.append(lm.lean())
        L.append('#print axioms %s\n' % lm.name)     # the run requires one such line per theorem, none naming sorryAx
    return '\n'.join(L)
