#include "au/utility/probable_primes.hh"
#include "au/utility/factoring.hh"
#include <cstdio>
#include <cstdlib>
int main(int argc, char**argv){ for(int i=1;i<argc;i++){ uint64_t n=strtoull(argv[i],0,10); printf("%llu is_perfect_square=%d is_prime=%d\n",(unsigned long long)n,(int)au::detail::is_perfect_square(n),(int)au::detail::is_prime(n)); } }
