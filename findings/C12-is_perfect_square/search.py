import math, random
M=1<<64
def is_ps(n):
    if n<2: return True, 0
    prev=n//2; it=0
    while True:
        it+=1
        curr=(prev+n//prev)//2
        if (curr*curr)%M==n: return True, it
        if curr>=prev: return False, it
        prev=curr
def curr_at(n,j):
    prev=n//2
    for i in range(j):
        curr=(prev+n//prev)//2
        prev=curr
    return prev
def sqrts_mod_2_64(R):
    # all x with x^2 = R mod 2^64, R odd = 1 mod 8
    R%=M
    if R%8!=1: return []
    xs={1,3,5,7}  # mod 8
    sols=[x for x in range(8) if (x*x-R)%8==0]
    k=3
    cur=set(sols)
    while k<64:
        nxt=set()
        mod=1<<(k+1)
        for x in cur:
            for y in (x, x+(1<<k)):   # lift
                if (y*y-R)%mod==0: nxt.add(y%mod)
            # also x + 2^(k-1)
            for y in (x+(1<<(k-1)), x+(1<<(k-1))+(1<<k)):
                if (y*y-R)%mod==0: nxt.add(y%mod)
        cur=nxt; k+=1
    return sorted(cur)
found=[]
for j in range(1,14):
    step=1<<(j+1)
    for c in range(1,step,2):
        q0=(1<<52)+12345
        n0=step*q0+c
        d=curr_at(n0,j)-q0
        # verify linearity with another q
        q1=(1<<55)+777
        if curr_at(step*q1+c,j)-q1!=d: continue
        # (q+d)^2 = step*q + c  mod M ; let x=q+d-step/2 : x^2 = c + step*d - ... compute: (q+d)^2 - step*(q+d) + step*d - c = 0 -> (q+d-step/2)^2 = step^2/4 - step*d + c
        R=(step*step//4 - step*d + c)%M
        for x in sqrts_mod_2_64(R):
            q=(x+step//2-d)%M
            n=step*q+c
            if n<M and n>16:
                r,it=is_ps(n)
                if r and math.isqrt(n)**2!=n:
                    found.append((n,it))
print(len(found)); 
for n,it in found[:40]: print(n,hex(n),it)
