theorem sub_wrap (x y : Nat) (hy : y ≤ x) (hx : x < W) : (x + W - y) % W = x - y := by
  have : x + W - y = (x - y) + W := by omega
  rw [this, Nat.add_mod_right]
  exact Nat.mod_eq_of_lt (by omega)

theorem mulmod_core (a b n cs nc neg lo X Y : Nat) (hcsd : cs = n / a) (hncd : nc = b / cs) (hnegd : neg = n - a * cs)
    (hlod : lo = b - nc * cs) (hXd : X = neg * nc % n) (hYd : Y = a * lo % n)
    (hn0 : 0 < n) (han : a < n) (ha0 : 0 < a) :
    0 < cs ∧ a * cs ≤ n ∧ nc * cs ≤ b ∧ a * lo < n ∧ neg < a ∧ nc ≤ b ∧
    a * b % n = if X ≤ Y then Y - X else n - X + Y := by
  subst hcsd hncd hnegd hlod hXd hYd
  have hcs : 0 < n / a := Nat.div_pos (le_of_lt han) ha0
  have h1 : a * (n / a) ≤ n := Nat.mul_div_le n a
  have h2 : b / (n / a) * (n / a) ≤ b := Nat.div_mul_le_self b (n / a)
  have hlo : b - b / (n / a) * (n / a) < n / a := by
    have h := Nat.mod_lt b hcs
    have : (n / a) * (b / (n / a)) + b % (n / a) = b := Nat.div_add_mod b (n / a)
    rw [Nat.mul_comm] at this
    omega
  have h3 : a * (b - b / (n / a) * (n / a)) < n := by
    calc a * (b - b / (n / a) * (n / a)) < a * (n / a) := Nat.mul_lt_mul_of_pos_left hlo ha0
      _ ≤ n := h1
  have hneg : n - a * (n / a) < a := by
    have : a * (n / a) + n % a = n := Nat.div_add_mod n a
    have := Nat.mod_lt n ha0
    omega
  have hnc : b / (n / a) ≤ b := Nat.div_le_self b (n / a)
  refine ⟨hcs, h1, h2, h3, hneg, hnc, ?_⟩
  generalize hcsg : n / a = cs at *
  generalize hncg : b / cs = nc at *
  generalize hnegg : n - a * cs = neg at *
  generalize hlog : b - nc * cs = lo at *
  have hb : b = nc * cs + lo := by omega
  have key : a * b + neg * nc = n * nc + a * lo := by
    have e1 : a * b = (a * cs) * nc + a * lo := by rw [hb]; ring
    have e2 : (a * cs) * nc + neg * nc = n * nc := by
      rw [← Nat.add_mul]; congr 1; omega
    omega
  have hX : neg * nc % n < n := Nat.mod_lt _ hn0
  have hY : a * lo % n < n := Nat.mod_lt _ hn0
  have hZn : a * b % n < n := Nat.mod_lt _ hn0
  have hmod : (a * b % n + neg * nc % n) % n = a * lo % n := by
    have h : (a * b + neg * nc) % n = (n * nc + a * lo) % n := by rw [key]
    rw [Nat.add_mod (a * b) (neg * nc) n] at h
    rw [Nat.mul_add_mod] at h
    exact h
  by_cases hlt : a * b % n + neg * nc % n < n
  · rw [Nat.mod_eq_of_lt hlt] at hmod
    have : neg * nc % n ≤ a * lo % n := by omega
    simp [this]; omega
  · have hge : n ≤ a * b % n + neg * nc % n := by omega
    rw [Nat.mod_eq_sub_mod hge, Nat.mod_eq_of_lt (by omega)] at hmod
    have : ¬ neg * nc % n ≤ a * lo % n := by omega
    simp [this]; omega
