theorem pow_split (b e : Nat) : b ^ e = (b * b) ^ (e / 2) * b ^ (e % 2) := by
  have : e = 2 * (e / 2) + e % 2 := (Nat.div_add_mod e 2).symm
  conv_lhs => rw [this]
  rw [pow_add, pow_mul, pow_two]

theorem div_lt_imp_mul_ge (v b : Nat) (hv : 1 ≤ v) (h : 18446744073709551615 / v < b) : W ≤ v * b := by
  have h1 : 18446744073709551615 < v * b := by
    have := (Nat.div_lt_iff_lt_mul (by omega : 0 < v)).mp h
    rw [Nat.mul_comm]; exact this
  unfold W; omega

theorem div_ge_imp_mul_le (v b : Nat) (hv : 1 ≤ v) (h : ¬ 18446744073709551615 / v < b) : v * b < W := by
  have h' : b ≤ 18446744073709551615 / v := Nat.le_of_not_lt h
  have : b * v ≤ 18446744073709551615 := (Nat.le_div_iff_mul_le (by omega : 0 < v)).mp h'
  unfold W; rw [Nat.mul_comm]; omega

theorem cp_err1_core (v b e P : Nat) (hv : 1 ≤ v) (hb : 1 ≤ b) (hpe : v * b ^ e = P) (hodd : e % 2 = 1)
    (hbig : 18446744073709551615 / v < b) : W ≤ P := by
  have h1 : W ≤ v * b := div_lt_imp_mul_ge v b hv hbig
  have he : e = (e - 1) + 1 := by omega
  have : v * b ^ e = (v * b) * b ^ (e - 1) := by
    conv_lhs => rw [he]
    rw [pow_succ]; ring
  have hp : 1 ≤ b ^ (e - 1) := Nat.one_le_pow _ _ hb
  calc W ≤ v * b := h1
    _ ≤ (v * b) * b ^ (e - 1) := Nat.le_mul_of_pos_right _ hp
    _ = P := by rw [← this, hpe]

theorem cp_big_core (v1 b k P : Nat) (hv1 : 1 ≤ v1) (hb : 1 ≤ b) (hP : v1 * (b * b) ^ k = P) (hk : 0 < k)
    (hbig : 18446744073709551615 / b < b) : W ≤ P := by
  have h1 : W ≤ b * b := div_lt_imp_mul_ge b b hb hbig
  have hk' : k = (k - 1) + 1 := by omega
  have hp : 1 ≤ (b * b) ^ (k - 1) := Nat.one_le_pow _ _ (by nlinarith)
  have : v1 * (b * b) ^ k = (b * b) * (v1 * (b * b) ^ (k - 1)) := by
    conv_lhs => rw [hk']
    rw [pow_succ]; ring
  have h2 : 1 ≤ v1 * (b * b) ^ (k - 1) := by nlinarith
  calc W ≤ b * b := h1
    _ ≤ (b * b) * (v1 * (b * b) ^ (k - 1)) := Nat.le_mul_of_pos_right _ h2
    _ = P := by rw [← this, hP]
