theorem jac_even (a n : ℕ) (hn : n % 2 = 1) (ha : a % 2 = 0) :
    jacobiSym (a : ℤ) n = (if n % 8 = 1 ∨ n % 8 = 7 then 1 else -1) * jacobiSym ((a / 2 : ℕ) : ℤ) n := by
  have hodd : Odd n := Nat.odd_iff.mpr hn
  have ha2 : a = 2 * (a / 2) := by omega
  have h2 : jacobiSym 2 n = (if n % 8 = 1 ∨ n % 8 = 7 then 1 else -1) := by
    rw [jacobiSym.at_two hodd, ZMod.χ₈_nat_eq_if_mod_eight]
    have : ¬ n % 2 = 0 := by omega
    simp [this]
  conv_lhs => rw [ha2]
  push_cast
  rw [jacobiSym.mul_left, h2]

theorem jac_mod_nat (n a : ℕ) : jacobiSym (n : ℤ) a = jacobiSym ((n % a : ℕ) : ℤ) a := by
  rw [jacobiSym.mod_left (n : ℤ) a]
  congr 1

theorem jac_flip (a n : ℕ) (ha : a % 2 = 1) (hn : n % 2 = 1) :
    jacobiSym (a : ℤ) n = (if a % 4 = 1 ∨ n % 4 = 1 then 1 else -1) * jacobiSym ((n % a : ℕ) : ℤ) a := by
  have hoa : Odd a := Nat.odd_iff.mpr ha
  have hon : Odd n := Nat.odd_iff.mpr hn
  rw [← jac_mod_nat n a]
  by_cases h1 : a % 4 = 1
  · simp only [h1, true_or, if_true, one_mul]
    exact jacobiSym.quadratic_reciprocity_one_mod_four h1 hon
  · by_cases h2 : n % 4 = 1
    · simp only [h2, or_true, if_true, one_mul]
      exact (jacobiSym.quadratic_reciprocity_one_mod_four h2 hoa).symm
    · have h3 : a % 4 = 3 := by omega
      have h4 : n % 4 = 3 := by omega
      have : ¬ (a % 4 = 1 ∨ n % 4 = 1) := by omega
      simp only [this, if_false]
      rw [jacobiSym.quadratic_reciprocity_three_mod_four h3 h4]; ring

theorem jac_gcd (a n : ℕ) (hn : 0 < n) : jacobiSym (a : ℤ) n = 0 ↔ Nat.gcd a n ≠ 1 := by
  have : NeZero n := ⟨by omega⟩
  rw [jacobiSym.eq_zero_iff_not_coprime]
  simp [Int.gcd_natCast_natCast]

theorem jac_enc_le (a n : ℕ) : (jacobiSym (a : ℤ) n + 1).toNat ≤ 2 := by
  rcases jacobiSym.trichotomy (a : ℤ) n with h | h | h <;> rw [h] <;> decide
