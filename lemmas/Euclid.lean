import Mathlib

/-- Euclid's lemma in the form used by the C03/C04 contracts: for a conversion factor N/D in lowest terms,
    `D` divides `x * N` exactly when `D` divides `x`.  (The contracts state truncation as `x % D ≠ 0`;
    the property states it as "x·N/D is not an integer".) -/
theorem dvd_mul_iff_of_gcd_eq_one (N D x : ℤ) (h : Int.gcd D N = 1) : D ∣ x * N ↔ D ∣ x := by
  constructor
  · intro H
    exact (Int.isCoprime_iff_gcd_eq_one.mpr h).dvd_of_dvd_mul_right H
  · intro H
    exact Dvd.dvd.mul_right H N

/-- C's truncating remainder is zero exactly when the divisor divides the dividend. -/
theorem tmod_eq_zero_iff_dvd (x D : ℤ) : Int.tmod x D = 0 ↔ D ∣ x := by
  constructor
  · intro h
    exact Int.dvd_of_tmod_eq_zero h
  · intro h
    exact Int.tmod_eq_zero_of_dvd h
