theorem wpo_core (x m MX MN : Int) (hm : 1 ≤ m) (hmax : 0 ≤ MX) (hmin : MN < 0) :
    (Int.tdiv MX m < x ∨ x < Int.tdiv MN m) ↔ (MX < x * m ∨ x * m < MN) := by
  have hm0 : 0 < m := by omega
  have e1 : Int.tdiv MX m = MX / m := Int.tdiv_eq_ediv_of_nonneg hmax
  have e2 : Int.tdiv MN m = -((-MN) / m) := by
    have : MN = -(-MN) := by ring
    conv_lhs => rw [this]
    rw [Int.neg_tdiv, Int.tdiv_eq_ediv_of_nonneg (by omega)]
  rw [e1, e2]
  constructor
  · rintro (h | h)
    · left; exact (Int.ediv_lt_iff_lt_mul hm0).mp h
    · right
      have h' : (-MN) / m < -x := by omega
      have := (Int.ediv_lt_iff_lt_mul hm0).mp h'
      nlinarith
  · rintro (h | h)
    · left; exact (Int.ediv_lt_iff_lt_mul hm0).mpr h
    · right
      have h' : -MN < (-x) * m := by nlinarith
      have := (Int.ediv_lt_iff_lt_mul hm0).mpr h'
      omega
theorem sval_enc (b : Nat) (hb : 1 ≤ b) (z : Int) (hlo : -(2 ^ (b - 1) : Int) ≤ z) (hhi : z < (2 ^ (b - 1) : Int)) : sval b (enc b z) = z := by
  have hpow : (2 : Int) ^ b = 2 * 2 ^ (b - 1) := by
    have : b = (b - 1) + 1 := by omega
    conv_lhs => rw [this]
    rw [pow_succ]; ring
  have hpos : (0 : Int) < 2 ^ (b - 1) := by positivity
  unfold sval enc
  by_cases hz : 0 ≤ z
  · have hm : z % 2 ^ b = z := Int.emod_eq_of_lt hz (by omega)
    rw [hm]
    have hc : ((z.toNat : Nat) : Int) = z := Int.toNat_of_nonneg hz
    have hlt : z.toNat < 2 ^ (b - 1) := by
      have : ((z.toNat : Nat) : Int) < ((2 ^ (b - 1) : Nat) : Int) := by rw [hc]; push_cast; exact hhi
      exact_mod_cast this
    simp only [hlt, if_true]
    exact hc
  · have hz' : z < 0 := by omega
    have hm : z % 2 ^ b = z + 2 ^ b := by
      have h1 : (z + 2 ^ b) % 2 ^ b = z % 2 ^ b := Int.add_emod_right z (2 ^ b)
      rw [← h1]
      exact Int.emod_eq_of_lt (by omega) (by omega)
    rw [hm]
    have hnn : 0 ≤ z + 2 ^ b := by omega
    have hc : (((z + 2 ^ b).toNat : Nat) : Int) = z + 2 ^ b := Int.toNat_of_nonneg hnn
    have hge : ¬ (z + 2 ^ b).toNat < 2 ^ (b - 1) := by
      intro h
      have : (((z + 2 ^ b).toNat : Nat) : Int) < ((2 ^ (b - 1) : Nat) : Int) := by exact_mod_cast h
      rw [hc] at this; push_cast at this; omega
    simp only [hge, if_false]
    rw [hc]; ring
