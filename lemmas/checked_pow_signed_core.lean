theorem ipow_split (b : Int) (e : Nat) : b ^ e = (b * b) ^ (e / 2) * b ^ (e % 2) := by
  have : e = 2 * (e / 2) + e % 2 := (Nat.div_add_mod e 2).symm
  conv_lhs => rw [this]
  rw [pow_add, pow_mul, pow_two]

theorem iguard_iff (V B : Int) (hV : 1 ≤ V) : Int.tdiv 9223372036854775807 V < B ↔ 9223372036854775807 < V * B := by
  rw [Int.tdiv_eq_ediv_of_nonneg (by norm_num)]
  rw [Int.ediv_lt_iff_lt_mul (by omega)]
  rw [Int.mul_comm]

theorem icp_err1_core (V B P : Int) (e : Nat) (hV : 1 ≤ V) (hB : 1 ≤ B) (hpe : V * B ^ e = P) (hodd : e % 2 = 1)
    (hbig : 9223372036854775807 < V * B) : 9223372036854775808 ≤ P := by
  have he : e = (e - 1) + 1 := by omega
  have h1 : V * B ^ e = (V * B) * B ^ (e - 1) := by
    conv_lhs => rw [he]
    rw [pow_succ]; ring
  have hp : 1 ≤ B ^ (e - 1) := one_le_pow₀ hB
  have : V * B ≤ (V * B) * B ^ (e - 1) := by nlinarith
  rw [← hpe, h1]; omega

theorem icp_big_core (v1 B P : Int) (k : Nat) (hv1 : 1 ≤ v1) (hB : 1 ≤ B) (hP : v1 * (B * B) ^ k = P) (hk : 0 < k)
    (hbig : 9223372036854775807 < B * B) : 9223372036854775808 ≤ P := by
  have hk' : k = (k - 1) + 1 := by omega
  have hbb : 1 ≤ B * B := by nlinarith
  have hp : 1 ≤ (B * B) ^ (k - 1) := one_le_pow₀ hbb
  have h1 : v1 * (B * B) ^ k = (B * B) * (v1 * (B * B) ^ (k - 1)) := by
    conv_lhs => rw [hk']
    rw [pow_succ]; ring
  have h2 : 1 ≤ v1 * (B * B) ^ (k - 1) := by nlinarith
  have : B * B ≤ (B * B) * (v1 * (B * B) ^ (k - 1)) := by nlinarith
  rw [← hP, h1]; omega
theorem sval_enc (b : Nat) (hb : 1 ≤ b) (z : Int) (hlo : -(2 ^ (b - 1) : Int) ≤ z) (hhi : z < (2 ^ (b - 1) : Int)) : sval b (enc b z) = z := by
  have hpow : (2 : Int) ^ b = 2 * 2 ^ (b - 1) := by
    have : b = (b - 1) + 1 := by omega
    conv_lhs => rw [this]
    rw [pow_succ]; ring
  have hpos : (0 : Int) < 2 ^ (b - 1) := by positivity
  unfold sval enc
  by_cases hz : 0 ≤ z
  · have hm : z % 2 ^ b = z := Int.emod_eq_of_lt hz (by omega)
    rw [hm]
    have hc : ((z.toNat : Nat) : Int) = z := Int.toNat_of_nonneg hz
    have hlt : z.toNat < 2 ^ (b - 1) := by
      have : ((z.toNat : Nat) : Int) < ((2 ^ (b - 1) : Nat) : Int) := by rw [hc]; push_cast; exact hhi
      exact_mod_cast this
    simp only [hlt, if_true]
    exact hc
  · have hz' : z < 0 := by omega
    have hm : z % 2 ^ b = z + 2 ^ b := by
      have h1 : (z + 2 ^ b) % 2 ^ b = z % 2 ^ b := Int.add_emod_right z (2 ^ b)
      rw [← h1]
      exact Int.emod_eq_of_lt (by omega) (by omega)
    rw [hm]
    have hnn : 0 ≤ z + 2 ^ b := by omega
    have hc : (((z + 2 ^ b).toNat : Nat) : Int) = z + 2 ^ b := Int.toNat_of_nonneg hnn
    have hge : ¬ (z + 2 ^ b).toNat < 2 ^ (b - 1) := by
      intro h
      have : (((z + 2 ^ b).toNat : Nat) : Int) < ((2 ^ (b - 1) : Nat) : Int) := by exact_mod_cast h
      rw [hc] at this; push_cast at this; omega
    simp only [hge, if_false]
    rw [hc]; ring
