theorem newton_ge (n p : Nat) (hp : 1 ≤ p) : Nat.sqrt n ≤ (p + n / p) / 2 := by
  generalize hs : Nat.sqrt n = s
  have hss : s * s ≤ n := by rw [← hs]; exact Nat.sqrt_le n
  rw [Nat.le_div_iff_mul_le (by norm_num)]
  by_cases h : s * 2 ≤ p
  · have := Nat.zero_le (n / p)
    omega
  · have h2 : p ≤ s * 2 := by omega
    obtain ⟨d, hd⟩ := Nat.exists_eq_add_of_le h2
    have hdp : d * p ≤ s * s := by
      have : (p + d) * (p + d) = 4 * (s * s) := by rw [← hd]; ring
      rcases Nat.le_total p d with hpd | hpd
      · obtain ⟨k, hk⟩ := Nat.exists_eq_add_of_le hpd
        subst hk; nlinarith
      · obtain ⟨k, hk⟩ := Nat.exists_eq_add_of_le hpd
        subst hk; nlinarith
    have : d ≤ n / p := (Nat.le_div_iff_mul_le (by omega)).mpr (le_trans hdp hss)
    omega

theorem newton_sq_true (n c : Nat) (h1 : n / c = c) (h2 : n % c = 0) : ∃ k : Nat, k * k = n := by
  refine ⟨c, ?_⟩
  have := Nat.div_add_mod n c
  rw [h1, h2] at this
  omega

theorem newton_sq_false (n p : Nat) (hn : 2 ≤ n) (hp : 1 ≤ p) (hps : Nat.sqrt n ≤ p) (hcp : p ≤ (p + n / p) / 2)
    (hne : ¬ (n / ((p + n / p) / 2) = (p + n / p) / 2 ∧ n % ((p + n / p) / 2) = 0)) : ¬ ∃ k : Nat, k * k = n := by
  rintro ⟨k, hk⟩
  apply hne
  have hsk : Nat.sqrt n = k := by rw [← hk]; exact Nat.sqrt_eq k
  have hk0 : 0 < k := by
    rcases Nat.eq_zero_or_pos k with h | h
    · subst h; omega
    · exact h
  have hkp : k ≤ p := by omega
  have hq : n / p ≤ k := by
    calc n / p ≤ n / k := Nat.div_le_div_left hkp hk0
      _ = k := by rw [← hk]; exact Nat.mul_div_cancel k hk0
  have hpk : p = k := by omega
  subst hpk
  have hnk : n / p = p := by rw [← hk]; exact Nat.mul_div_cancel p hk0
  have hc : (p + n / p) / 2 = p := by rw [hnk]; omega
  rw [hc]
  exact ⟨hnk, by rw [← hk]; exact Nat.mul_mod_left p p⟩

theorem sqrt_le_half (n : Nat) (hn : 2 ≤ n) : Nat.sqrt n ≤ n / 2 := by
  rw [Nat.le_div_iff_mul_le (by norm_num)]
  have hss : Nat.sqrt n * Nat.sqrt n ≤ n := Nat.sqrt_le n
  rcases Nat.lt_or_ge (Nat.sqrt n) 2 with h | h
  · omega
  · nlinarith
