#define VF_CBMC 1
#include "spec_lib.h"
_Bool ll2c_ub_on = 1;
#define UB_ON() (ll2c_ub_on = 1)
#define UB_OFF() (ll2c_ub_on = 0)
#include "closure.c"
static inline _Bool w_ovf_i32_12_1(int32_t x) { return (_Bool)f_w_ovf_i32_12_1(x); }
static inline _Bool w_trunc_i32_12_1(int32_t x) { return (_Bool)f_w_trunc_i32_12_1(x); }
static inline _Bool w_lossy_i32_12_1(int32_t x) { return (_Bool)f_w_lossy_i32_12_1(x); }
void harness(void) {
  int32_t x;

  bool o = w_ovf_i32_12_1(x), t = w_trunc_i32_12_1(x), l = w_lossy_i32_12_1(x);
  CHECK(o == (!FITS(i32, ((i128)x * ((i128)13LL))) || ((i128)x * ((i128)13LL)) > ((i128)2147483647LL) || ((i128)x * ((i128)13LL)) < ((i128)-2147483648LL)), "overflow-iff-exact-range");
  CHECK(t == ((((i128)x * ((i128)12LL)) % ((i128)1LL)) != 0), "truncate-iff-not-integer");
  CHECK(l == (o || t), "lossy-is-disjunction");

  CANARY();
}
