; ModuleID = '/verif/.work/C04-9806/C04.i32_cxx14_0.ll'
source_filename = "/verif/.work/C04-9806/C04.i32_cxx14_0.cc"
target datalayout = "e-m:e-p270:32:32-p271:32:32-p272:64:64-i64:64-f80:128-n8:16:32:64-S128"
target triple = "x86_64-pc-linux-gnu"

%"struct.au::detail::MagRepresentationOrError" = type { i32, i32 }
%"class.au::Quantity" = type { i32 }
%"struct.au::QuantityMaker" = type { i8 }
%"struct.au::stdx::CmpLessImpl" = type { i8 }

$_ZN2au24will_conversion_overflowINS_6MetersEi9VU_m_12_1EEbNS_8QuantityIT_T0_EET1_ = comdat any

$_ZN2au13make_quantityINS_6MetersEiEEDaT0_ = comdat any

$_ZN2au24will_conversion_truncateINS_6MetersEi9VU_m_12_1EEbNS_8QuantityIT_T0_EET1_ = comdat any

$_ZN2au19is_conversion_lossyINS_6MetersEi9VU_m_12_1EEbNS_8QuantityIT_T0_EET1_ = comdat any

$_ZN2au24will_conversion_overflowINS_6MetersEi9VU_m_1_12EEbNS_8QuantityIT_T0_EET1_ = comdat any

$_ZN2au24will_conversion_truncateINS_6MetersEi9VU_m_1_12EEbNS_8QuantityIT_T0_EET1_ = comdat any

$_ZN2au19is_conversion_lossyINS_6MetersEi9VU_m_1_12EEbNS_8QuantityIT_T0_EET1_ = comdat any

$_ZN2au24will_conversion_overflowINS_6MetersEi13VU_m_1250_381EEbNS_8QuantityIT_T0_EET1_ = comdat any

$_ZN2au24will_conversion_truncateINS_6MetersEi13VU_m_1250_381EEbNS_8QuantityIT_T0_EET1_ = comdat any

$_ZN2au19is_conversion_lossyINS_6MetersEi13VU_m_1250_381EEbNS_8QuantityIT_T0_EET1_ = comdat any

$_ZN2au6detail18ApplyMagnitudeImplINS_9MagnitudeIJNS_3PowINS_5PrimeILm2EEELl2EEENS4_ILm3EEEEEELNS0_7ApplyAsE0EiLb1EE14would_overflowERKi = comdat any

$_ZNK2au8QuantityINS_6MetersEiE2inIS1_vEEiT_ = comdat any

$_ZN2au6detail15OverflowCheckerIiLb1EE22would_product_overflowEii = comdat any

$_ZNSt14numeric_limitsIiE3maxEv = comdat any

$_ZNSt14numeric_limitsIiE6lowestEv = comdat any

$_ZNSt14numeric_limitsIiE3minEv = comdat any

$_ZNK2au13QuantityMakerINS_6MetersEEclIiEENS_8QuantityIS1_T_EES5_ = comdat any

$_ZN2au8QuantityINS_6MetersEiEC2Ei = comdat any

$_ZN2au6detail18ApplyMagnitudeImplINS_9MagnitudeIJNS_3PowINS_5PrimeILm2EEELl2EEENS4_ILm3EEEEEELNS0_7ApplyAsE0EiLb1EE14would_truncateERKi = comdat any

$_ZN2au6detail18ApplyMagnitudeImplINS_9MagnitudeIJNS_3PowINS_5PrimeILm2EEELln2EEENS3_INS4_ILm3EEELln1EEEEEELNS0_7ApplyAsE1EiLb1EE14would_overflowERKi = comdat any

$_ZN2au6detail18ApplyMagnitudeImplINS_9MagnitudeIJNS_3PowINS_5PrimeILm2EEELln2EEENS3_INS4_ILm3EEELln1EEEEEELNS0_7ApplyAsE1EiLb1EE14would_truncateERKi = comdat any

$_ZN2au6detail33TruncationCheckerIfMagnitudeValidIiLb1EE14would_truncateEii = comdat any

$_ZN2au6detail18ApplyMagnitudeImplINS_9MagnitudeIJNS_5PrimeILm2EEENS_3PowINS3_ILm3EEELln1EEENS5_INS3_ILm5EEELl4EEENS5_INS3_ILm127EEELln1EEEEEELNS0_7ApplyAsE2EiLb1EE14would_overflowERKi = comdat any

$_ZN2au6detail23RationalOverflowCheckerIiNS_9MagnitudeIJNS_5PrimeILm2EEENS_3PowINS3_ILm3EEELln1EEENS5_INS3_ILm5EEELl4EEENS5_INS3_ILm127EEELln1EEEEEELb1EE14would_overflowERKi = comdat any

$_ZN2au6detail37MaxNonOverflowingValueImplWhenNumFitsIiNS_9MagnitudeIJNS_5PrimeILm2EEENS_3PowINS3_ILm3EEELln1EEENS5_INS3_ILm5EEELl4EEENS5_INS3_ILm127EEELln1EEEEEELb0EE5valueEv = comdat any

$_ZN2au6detail37MinNonOverflowingValueImplWhenNumFitsIiNS_9MagnitudeIJNS_5PrimeILm2EEENS_3PowINS3_ILm3EEELln1EEENS5_INS3_ILm5EEELl4EEENS5_INS3_ILm127EEELln1EEEEEELb0EE5valueEv = comdat any

$_ZN2au6detail17clamp_to_range_ofIiiEET_T0_ = comdat any

$_ZN2au4stdx11cmp_greaterIiiEEbT_T0_ = comdat any

$_ZN2au4stdx8cmp_lessIiiEEbT_T0_ = comdat any

$_ZN2au4stdx11CmpLessImplIiivEclEii = comdat any

$_ZN2au6detail18ApplyMagnitudeImplINS_9MagnitudeIJNS_5PrimeILm2EEENS_3PowINS3_ILm3EEELln1EEENS5_INS3_ILm5EEELl4EEENS5_INS3_ILm127EEELln1EEEEEELNS0_7ApplyAsE2EiLb1EE14would_truncateERKi = comdat any

@__const._ZN2au6detail18ApplyMagnitudeImplINS_9MagnitudeIJNS_3PowINS_5PrimeILm2EEELl2EEENS4_ILm3EEEEEELNS0_7ApplyAsE0EiLb1EE14would_overflowERKi.mag_value_result = private unnamed_addr constant %"struct.au::detail::MagRepresentationOrError" { i32 0, i32 12 }, align 4
@__const._ZN2au6detail18ApplyMagnitudeImplINS_9MagnitudeIJNS_3PowINS_5PrimeILm2EEELln2EEENS3_INS4_ILm3EEELln1EEEEEELNS0_7ApplyAsE1EiLb1EE14would_truncateERKi.mag_value_result = private unnamed_addr constant %"struct.au::detail::MagRepresentationOrError" { i32 0, i32 12 }, align 4
@__const._ZN2au6detail18ApplyMagnitudeImplINS_9MagnitudeIJNS_5PrimeILm2EEENS_3PowINS3_ILm3EEELln1EEENS5_INS3_ILm5EEELl4EEENS5_INS3_ILm127EEELln1EEEEEELNS0_7ApplyAsE2EiLb1EE14would_truncateERKi.mag_value_result = private unnamed_addr constant %"struct.au::detail::MagRepresentationOrError" { i32 0, i32 381 }, align 4

; Function Attrs: mustprogress noinline nounwind uwtable
define dso_local zeroext i1 @w_ovf_i32_12_1(i32 noundef %x) #0 !dbg !10 {
entry:
  %call = call i32 @_ZN2au13make_quantityINS_6MetersEiEEDaT0_(i32 noundef %x), !dbg !14
  %call3 = call noundef zeroext i1 @_ZN2au24will_conversion_overflowINS_6MetersEi9VU_m_12_1EEbNS_8QuantityIT_T0_EET1_(i32 %call), !dbg !15
  ret i1 %call3, !dbg !16
}

; Function Attrs: mustprogress noinline nounwind uwtable
define linkonce_odr dso_local noundef zeroext i1 @_ZN2au24will_conversion_overflowINS_6MetersEi9VU_m_12_1EEbNS_8QuantityIT_T0_EET1_(i32 %q.coerce) #0 comdat !dbg !17 {
entry:
  %q = alloca %"class.au::Quantity", align 4
  %ref.tmp = alloca i32, align 4
  %coerce.dive = getelementptr inbounds %"class.au::Quantity", %"class.au::Quantity"* %q, i32 0, i32 0
  store i32 %q.coerce, i32* %coerce.dive, align 4
  %call = call noundef i32 @_ZNK2au8QuantityINS_6MetersEiE2inIS1_vEEiT_(%"class.au::Quantity"* noundef nonnull align 4 dereferenceable(4) %q), !dbg !19
  store i32 %call, i32* %ref.tmp, align 4, !dbg !20
  %call1 = call noundef zeroext i1 @_ZN2au6detail18ApplyMagnitudeImplINS_9MagnitudeIJNS_3PowINS_5PrimeILm2EEELl2EEENS4_ILm3EEEEEELNS0_7ApplyAsE0EiLb1EE14would_overflowERKi(i32* noundef nonnull align 4 dereferenceable(4) %ref.tmp), !dbg !21
  ret i1 %call1, !dbg !22
}

; Function Attrs: mustprogress noinline nounwind uwtable
define linkonce_odr dso_local i32 @_ZN2au13make_quantityINS_6MetersEiEEDaT0_(i32 noundef %value) #0 comdat !dbg !23 {
entry:
  %ref.tmp = alloca %"struct.au::QuantityMaker", align 1
  %call = call i32 @_ZNK2au13QuantityMakerINS_6MetersEEclIiEENS_8QuantityIS1_T_EES5_(%"struct.au::QuantityMaker"* noundef nonnull align 1 dereferenceable(1) %ref.tmp, i32 noundef %value), !dbg !24
  ret i32 %call, !dbg !25
}

; Function Attrs: mustprogress noinline nounwind uwtable
define dso_local zeroext i1 @w_trunc_i32_12_1(i32 noundef %x) #0 !dbg !26 {
entry:
  %call = call i32 @_ZN2au13make_quantityINS_6MetersEiEEDaT0_(i32 noundef %x), !dbg !27
  %call3 = call noundef zeroext i1 @_ZN2au24will_conversion_truncateINS_6MetersEi9VU_m_12_1EEbNS_8QuantityIT_T0_EET1_(i32 %call), !dbg !28
  ret i1 %call3, !dbg !29
}

; Function Attrs: mustprogress noinline nounwind uwtable
define linkonce_odr dso_local noundef zeroext i1 @_ZN2au24will_conversion_truncateINS_6MetersEi9VU_m_12_1EEbNS_8QuantityIT_T0_EET1_(i32 %q.coerce) #0 comdat !dbg !30 {
entry:
  %q = alloca %"class.au::Quantity", align 4
  %ref.tmp = alloca i32, align 4
  %coerce.dive = getelementptr inbounds %"class.au::Quantity", %"class.au::Quantity"* %q, i32 0, i32 0
  store i32 %q.coerce, i32* %coerce.dive, align 4
  %call = call noundef i32 @_ZNK2au8QuantityINS_6MetersEiE2inIS1_vEEiT_(%"class.au::Quantity"* noundef nonnull align 4 dereferenceable(4) %q), !dbg !31
  store i32 %call, i32* %ref.tmp, align 4, !dbg !32
  %call1 = call noundef zeroext i1 @_ZN2au6detail18ApplyMagnitudeImplINS_9MagnitudeIJNS_3PowINS_5PrimeILm2EEELl2EEENS4_ILm3EEEEEELNS0_7ApplyAsE0EiLb1EE14would_truncateERKi(i32* noundef nonnull align 4 dereferenceable(4) %ref.tmp), !dbg !33
  ret i1 %call1, !dbg !34
}

; Function Attrs: mustprogress noinline nounwind uwtable
define dso_local zeroext i1 @w_lossy_i32_12_1(i32 noundef %x) #0 !dbg !35 {
entry:
  %call = call i32 @_ZN2au13make_quantityINS_6MetersEiEEDaT0_(i32 noundef %x), !dbg !36
  %call3 = call noundef zeroext i1 @_ZN2au19is_conversion_lossyINS_6MetersEi9VU_m_12_1EEbNS_8QuantityIT_T0_EET1_(i32 %call), !dbg !37
  ret i1 %call3, !dbg !38
}

; Function Attrs: mustprogress noinline nounwind uwtable
define linkonce_odr dso_local noundef zeroext i1 @_ZN2au19is_conversion_lossyINS_6MetersEi9VU_m_12_1EEbNS_8QuantityIT_T0_EET1_(i32 %q.coerce) #0 comdat !dbg !39 {
entry:
  %call = call noundef zeroext i1 @_ZN2au24will_conversion_truncateINS_6MetersEi9VU_m_12_1EEbNS_8QuantityIT_T0_EET1_(i32 %q.coerce), !dbg !40
  br i1 %call, label %lor.end, label %lor.rhs, !dbg !41

lor.rhs:                                          ; preds = %entry
  %call6 = call noundef zeroext i1 @_ZN2au24will_conversion_overflowINS_6MetersEi9VU_m_12_1EEbNS_8QuantityIT_T0_EET1_(i32 %q.coerce), !dbg !42
  br label %lor.end, !dbg !41

lor.end:                                          ; preds = %lor.rhs, %entry
  %0 = phi i1 [ true, %entry ], [ %call6, %lor.rhs ]
  ret i1 %0, !dbg !43
}

; Function Attrs: mustprogress noinline nounwind uwtable
define dso_local zeroext i1 @w_ovf_i32_1_12(i32 noundef %x) #0 !dbg !44 {
entry:
  %call = call i32 @_ZN2au13make_quantityINS_6MetersEiEEDaT0_(i32 noundef %x), !dbg !45
  %call3 = call noundef zeroext i1 @_ZN2au24will_conversion_overflowINS_6MetersEi9VU_m_1_12EEbNS_8QuantityIT_T0_EET1_(i32 %call), !dbg !46
  ret i1 %call3, !dbg !47
}

; Function Attrs: mustprogress noinline nounwind uwtable
define linkonce_odr dso_local noundef zeroext i1 @_ZN2au24will_conversion_overflowINS_6MetersEi9VU_m_1_12EEbNS_8QuantityIT_T0_EET1_(i32 %q.coerce) #0 comdat !dbg !48 {
entry:
  %q = alloca %"class.au::Quantity", align 4
  %ref.tmp = alloca i32, align 4
  %coerce.dive = getelementptr inbounds %"class.au::Quantity", %"class.au::Quantity"* %q, i32 0, i32 0
  store i32 %q.coerce, i32* %coerce.dive, align 4
  %call = call noundef i32 @_ZNK2au8QuantityINS_6MetersEiE2inIS1_vEEiT_(%"class.au::Quantity"* noundef nonnull align 4 dereferenceable(4) %q), !dbg !49
  store i32 %call, i32* %ref.tmp, align 4, !dbg !50
  %call1 = call noundef zeroext i1 @_ZN2au6detail18ApplyMagnitudeImplINS_9MagnitudeIJNS_3PowINS_5PrimeILm2EEELln2EEENS3_INS4_ILm3EEELln1EEEEEELNS0_7ApplyAsE1EiLb1EE14would_overflowERKi(i32* noundef nonnull align 4 dereferenceable(4) %ref.tmp), !dbg !51
  ret i1 %call1, !dbg !52
}

; Function Attrs: mustprogress noinline nounwind uwtable
define dso_local zeroext i1 @w_trunc_i32_1_12(i32 noundef %x) #0 !dbg !53 {
entry:
  %call = call i32 @_ZN2au13make_quantityINS_6MetersEiEEDaT0_(i32 noundef %x), !dbg !54
  %call3 = call noundef zeroext i1 @_ZN2au24will_conversion_truncateINS_6MetersEi9VU_m_1_12EEbNS_8QuantityIT_T0_EET1_(i32 %call), !dbg !55
  ret i1 %call3, !dbg !56
}

; Function Attrs: mustprogress noinline nounwind uwtable
define linkonce_odr dso_local noundef zeroext i1 @_ZN2au24will_conversion_truncateINS_6MetersEi9VU_m_1_12EEbNS_8QuantityIT_T0_EET1_(i32 %q.coerce) #0 comdat !dbg !57 {
entry:
  %q = alloca %"class.au::Quantity", align 4
  %ref.tmp = alloca i32, align 4
  %coerce.dive = getelementptr inbounds %"class.au::Quantity", %"class.au::Quantity"* %q, i32 0, i32 0
  store i32 %q.coerce, i32* %coerce.dive, align 4
  %call = call noundef i32 @_ZNK2au8QuantityINS_6MetersEiE2inIS1_vEEiT_(%"class.au::Quantity"* noundef nonnull align 4 dereferenceable(4) %q), !dbg !58
  store i32 %call, i32* %ref.tmp, align 4, !dbg !59
  %call1 = call noundef zeroext i1 @_ZN2au6detail18ApplyMagnitudeImplINS_9MagnitudeIJNS_3PowINS_5PrimeILm2EEELln2EEENS3_INS4_ILm3EEELln1EEEEEELNS0_7ApplyAsE1EiLb1EE14would_truncateERKi(i32* noundef nonnull align 4 dereferenceable(4) %ref.tmp), !dbg !60
  ret i1 %call1, !dbg !61
}

; Function Attrs: mustprogress noinline nounwind uwtable
define dso_local zeroext i1 @w_lossy_i32_1_12(i32 noundef %x) #0 !dbg !62 {
entry:
  %call = call i32 @_ZN2au13make_quantityINS_6MetersEiEEDaT0_(i32 noundef %x), !dbg !63
  %call3 = call noundef zeroext i1 @_ZN2au19is_conversion_lossyINS_6MetersEi9VU_m_1_12EEbNS_8QuantityIT_T0_EET1_(i32 %call), !dbg !64
  ret i1 %call3, !dbg !65
}

; Function Attrs: mustprogress noinline nounwind uwtable
define linkonce_odr dso_local noundef zeroext i1 @_ZN2au19is_conversion_lossyINS_6MetersEi9VU_m_1_12EEbNS_8QuantityIT_T0_EET1_(i32 %q.coerce) #0 comdat !dbg !66 {
entry:
  %call = call noundef zeroext i1 @_ZN2au24will_conversion_truncateINS_6MetersEi9VU_m_1_12EEbNS_8QuantityIT_T0_EET1_(i32 %q.coerce), !dbg !67
  br i1 %call, label %lor.end, label %lor.rhs, !dbg !68

lor.rhs:                                          ; preds = %entry
  %call6 = call noundef zeroext i1 @_ZN2au24will_conversion_overflowINS_6MetersEi9VU_m_1_12EEbNS_8QuantityIT_T0_EET1_(i32 %q.coerce), !dbg !69
  br label %lor.end, !dbg !68

lor.end:                                          ; preds = %lor.rhs, %entry
  %0 = phi i1 [ true, %entry ], [ %call6, %lor.rhs ]
  ret i1 %0, !dbg !70
}

; Function Attrs: mustprogress noinline nounwind uwtable
define dso_local zeroext i1 @w_ovf_i32_1250_381(i32 noundef %x) #0 !dbg !71 {
entry:
  %call = call i32 @_ZN2au13make_quantityINS_6MetersEiEEDaT0_(i32 noundef %x), !dbg !72
  %call3 = call noundef zeroext i1 @_ZN2au24will_conversion_overflowINS_6MetersEi13VU_m_1250_381EEbNS_8QuantityIT_T0_EET1_(i32 %call), !dbg !73
  ret i1 %call3, !dbg !74
}

; Function Attrs: mustprogress noinline nounwind uwtable
define linkonce_odr dso_local noundef zeroext i1 @_ZN2au24will_conversion_overflowINS_6MetersEi13VU_m_1250_381EEbNS_8QuantityIT_T0_EET1_(i32 %q.coerce) #0 comdat !dbg !75 {
entry:
  %q = alloca %"class.au::Quantity", align 4
  %ref.tmp = alloca i32, align 4
  %coerce.dive = getelementptr inbounds %"class.au::Quantity", %"class.au::Quantity"* %q, i32 0, i32 0
  store i32 %q.coerce, i32* %coerce.dive, align 4
  %call = call noundef i32 @_ZNK2au8QuantityINS_6MetersEiE2inIS1_vEEiT_(%"class.au::Quantity"* noundef nonnull align 4 dereferenceable(4) %q), !dbg !76
  store i32 %call, i32* %ref.tmp, align 4, !dbg !77
  %call1 = call noundef zeroext i1 @_ZN2au6detail18ApplyMagnitudeImplINS_9MagnitudeIJNS_5PrimeILm2EEENS_3PowINS3_ILm3EEELln1EEENS5_INS3_ILm5EEELl4EEENS5_INS3_ILm127EEELln1EEEEEELNS0_7ApplyAsE2EiLb1EE14would_overflowERKi(i32* noundef nonnull align 4 dereferenceable(4) %ref.tmp), !dbg !78
  ret i1 %call1, !dbg !79
}

; Function Attrs: mustprogress noinline nounwind uwtable
define dso_local zeroext i1 @w_trunc_i32_1250_381(i32 noundef %x) #0 !dbg !80 {
entry:
  %call = call i32 @_ZN2au13make_quantityINS_6MetersEiEEDaT0_(i32 noundef %x), !dbg !81
  %call3 = call noundef zeroext i1 @_ZN2au24will_conversion_truncateINS_6MetersEi13VU_m_1250_381EEbNS_8QuantityIT_T0_EET1_(i32 %call), !dbg !82
  ret i1 %call3, !dbg !83
}

; Function Attrs: mustprogress noinline nounwind uwtable
define linkonce_odr dso_local noundef zeroext i1 @_ZN2au24will_conversion_truncateINS_6MetersEi13VU_m_1250_381EEbNS_8QuantityIT_T0_EET1_(i32 %q.coerce) #0 comdat !dbg !84 {
entry:
  %q = alloca %"class.au::Quantity", align 4
  %ref.tmp = alloca i32, align 4
  %coerce.dive = getelementptr inbounds %"class.au::Quantity", %"class.au::Quantity"* %q, i32 0, i32 0
  store i32 %q.coerce, i32* %coerce.dive, align 4
  %call = call noundef i32 @_ZNK2au8QuantityINS_6MetersEiE2inIS1_vEEiT_(%"class.au::Quantity"* noundef nonnull align 4 dereferenceable(4) %q), !dbg !85
  store i32 %call, i32* %ref.tmp, align 4, !dbg !86
  %call1 = call noundef zeroext i1 @_ZN2au6detail18ApplyMagnitudeImplINS_9MagnitudeIJNS_5PrimeILm2EEENS_3PowINS3_ILm3EEELln1EEENS5_INS3_ILm5EEELl4EEENS5_INS3_ILm127EEELln1EEEEEELNS0_7ApplyAsE2EiLb1EE14would_truncateERKi(i32* noundef nonnull align 4 dereferenceable(4) %ref.tmp), !dbg !87
  ret i1 %call1, !dbg !88
}

; Function Attrs: mustprogress noinline nounwind uwtable
define dso_local zeroext i1 @w_lossy_i32_1250_381(i32 noundef %x) #0 !dbg !89 {
entry:
  %call = call i32 @_ZN2au13make_quantityINS_6MetersEiEEDaT0_(i32 noundef %x), !dbg !90
  %call3 = call noundef zeroext i1 @_ZN2au19is_conversion_lossyINS_6MetersEi13VU_m_1250_381EEbNS_8QuantityIT_T0_EET1_(i32 %call), !dbg !91
  ret i1 %call3, !dbg !92
}

; Function Attrs: mustprogress noinline nounwind uwtable
define linkonce_odr dso_local noundef zeroext i1 @_ZN2au19is_conversion_lossyINS_6MetersEi13VU_m_1250_381EEbNS_8QuantityIT_T0_EET1_(i32 %q.coerce) #0 comdat !dbg !93 {
entry:
  %call = call noundef zeroext i1 @_ZN2au24will_conversion_truncateINS_6MetersEi13VU_m_1250_381EEbNS_8QuantityIT_T0_EET1_(i32 %q.coerce), !dbg !94
  br i1 %call, label %lor.end, label %lor.rhs, !dbg !95

lor.rhs:                                          ; preds = %entry
  %call6 = call noundef zeroext i1 @_ZN2au24will_conversion_overflowINS_6MetersEi13VU_m_1250_381EEbNS_8QuantityIT_T0_EET1_(i32 %q.coerce), !dbg !96
  br label %lor.end, !dbg !95

lor.end:                                          ; preds = %lor.rhs, %entry
  %0 = phi i1 [ true, %entry ], [ %call6, %lor.rhs ]
  ret i1 %0, !dbg !97
}

; Function Attrs: mustprogress noinline nounwind uwtable
define linkonce_odr dso_local noundef zeroext i1 @_ZN2au6detail18ApplyMagnitudeImplINS_9MagnitudeIJNS_3PowINS_5PrimeILm2EEELl2EEENS4_ILm3EEEEEELNS0_7ApplyAsE0EiLb1EE14would_overflowERKi(i32* noundef nonnull align 4 dereferenceable(4) %x) #0 comdat align 2 !dbg !98 {
entry:
  %mag_value_result = alloca %"struct.au::detail::MagRepresentationOrError", align 4
  %0 = bitcast %"struct.au::detail::MagRepresentationOrError"* %mag_value_result to i8*, !dbg !100
  call void @llvm.memcpy.p0i8.p0i8.i64(i8* align 4 %0, i8* align 4 bitcast (%"struct.au::detail::MagRepresentationOrError"* @__const._ZN2au6detail18ApplyMagnitudeImplINS_9MagnitudeIJNS_3PowINS_5PrimeILm2EEELl2EEENS4_ILm3EEEEEELNS0_7ApplyAsE0EiLb1EE14would_overflowERKi.mag_value_result to i8*), i64 8, i1 false), !dbg !100
  %1 = load i32, i32* %x, align 4, !dbg !101
  %call = call noundef zeroext i1 @_ZN2au6detail15OverflowCheckerIiLb1EE22would_product_overflowEii(i32 noundef %1, i32 noundef 12), !dbg !102
  ret i1 %call, !dbg !103
}

; Function Attrs: mustprogress noinline nounwind uwtable
define linkonce_odr dso_local noundef i32 @_ZNK2au8QuantityINS_6MetersEiE2inIS1_vEEiT_(%"class.au::Quantity"* noundef nonnull align 4 dereferenceable(4) %this) #0 comdat align 2 !dbg !104 {
entry:
  %value_ = getelementptr inbounds %"class.au::Quantity", %"class.au::Quantity"* %this, i32 0, i32 0, !dbg !105
  %0 = load i32, i32* %value_, align 4, !dbg !105
  ret i32 %0, !dbg !106
}

; Function Attrs: argmemonly nofree nounwind willreturn
declare void @llvm.memcpy.p0i8.p0i8.i64(i8* noalias nocapture writeonly, i8* noalias nocapture readonly, i64, i1 immarg) #1

; Function Attrs: mustprogress noinline nounwind uwtable
define linkonce_odr dso_local noundef zeroext i1 @_ZN2au6detail15OverflowCheckerIiLb1EE22would_product_overflowEii(i32 noundef %x, i32 noundef %mag_value) #0 comdat align 2 !dbg !107 {
entry:
  %call = call noundef i32 @_ZNSt14numeric_limitsIiE3maxEv() #3, !dbg !108
  %div = sdiv i32 %call, %mag_value, !dbg !109
  %cmp = icmp sgt i32 %x, %div, !dbg !110
  br i1 %cmp, label %lor.end, label %lor.rhs, !dbg !111

lor.rhs:                                          ; preds = %entry
  %call1 = call noundef i32 @_ZNSt14numeric_limitsIiE6lowestEv() #3, !dbg !112
  %div2 = sdiv i32 %call1, %mag_value, !dbg !113
  %cmp3 = icmp slt i32 %x, %div2, !dbg !114
  br label %lor.end, !dbg !111

lor.end:                                          ; preds = %lor.rhs, %entry
  %0 = phi i1 [ true, %entry ], [ %cmp3, %lor.rhs ]
  ret i1 %0, !dbg !115
}

; Function Attrs: mustprogress noinline nounwind uwtable
define linkonce_odr dso_local noundef i32 @_ZNSt14numeric_limitsIiE3maxEv() #0 comdat align 2 !dbg !116 {
entry:
  ret i32 2147483647, !dbg !118
}

; Function Attrs: mustprogress noinline nounwind uwtable
define linkonce_odr dso_local noundef i32 @_ZNSt14numeric_limitsIiE6lowestEv() #0 comdat align 2 !dbg !119 {
entry:
  %call = call noundef i32 @_ZNSt14numeric_limitsIiE3minEv() #3, !dbg !120
  ret i32 %call, !dbg !121
}

; Function Attrs: mustprogress noinline nounwind uwtable
define linkonce_odr dso_local noundef i32 @_ZNSt14numeric_limitsIiE3minEv() #0 comdat align 2 !dbg !122 {
entry:
  ret i32 -2147483648, !dbg !123
}

; Function Attrs: mustprogress noinline nounwind uwtable
define linkonce_odr dso_local i32 @_ZNK2au13QuantityMakerINS_6MetersEEclIiEENS_8QuantityIS1_T_EES5_(%"struct.au::QuantityMaker"* noundef nonnull align 1 dereferenceable(1) %this, i32 noundef %value) #0 comdat align 2 !dbg !124 {
entry:
  %retval = alloca %"class.au::Quantity", align 4
  call void @_ZN2au8QuantityINS_6MetersEiEC2Ei(%"class.au::Quantity"* noundef nonnull align 4 dereferenceable(4) %retval, i32 noundef %value), !dbg !125
  %coerce.dive = getelementptr inbounds %"class.au::Quantity", %"class.au::Quantity"* %retval, i32 0, i32 0, !dbg !126
  %0 = load i32, i32* %coerce.dive, align 4, !dbg !126
  ret i32 %0, !dbg !126
}

; Function Attrs: noinline nounwind uwtable
define linkonce_odr dso_local void @_ZN2au8QuantityINS_6MetersEiEC2Ei(%"class.au::Quantity"* noundef nonnull align 4 dereferenceable(4) %this, i32 noundef %value) unnamed_addr #2 comdat align 2 !dbg !127 {
entry:
  %value_ = getelementptr inbounds %"class.au::Quantity", %"class.au::Quantity"* %this, i32 0, i32 0, !dbg !128
  store i32 %value, i32* %value_, align 4, !dbg !128
  ret void, !dbg !129
}

; Function Attrs: mustprogress noinline nounwind uwtable
define linkonce_odr dso_local noundef zeroext i1 @_ZN2au6detail18ApplyMagnitudeImplINS_9MagnitudeIJNS_3PowINS_5PrimeILm2EEELl2EEENS4_ILm3EEEEEELNS0_7ApplyAsE0EiLb1EE14would_truncateERKi(i32* noundef nonnull align 4 dereferenceable(4) %0) #0 comdat align 2 !dbg !130 {
entry:
  ret i1 false, !dbg !131
}

; Function Attrs: mustprogress noinline nounwind uwtable
define linkonce_odr dso_local noundef zeroext i1 @_ZN2au6detail18ApplyMagnitudeImplINS_9MagnitudeIJNS_3PowINS_5PrimeILm2EEELln2EEENS3_INS4_ILm3EEELln1EEEEEELNS0_7ApplyAsE1EiLb1EE14would_overflowERKi(i32* noundef nonnull align 4 dereferenceable(4) %0) #0 comdat align 2 !dbg !132 {
entry:
  ret i1 false, !dbg !133
}

; Function Attrs: mustprogress noinline nounwind uwtable
define linkonce_odr dso_local noundef zeroext i1 @_ZN2au6detail18ApplyMagnitudeImplINS_9MagnitudeIJNS_3PowINS_5PrimeILm2EEELln2EEENS3_INS4_ILm3EEELln1EEEEEELNS0_7ApplyAsE1EiLb1EE14would_truncateERKi(i32* noundef nonnull align 4 dereferenceable(4) %x) #0 comdat align 2 !dbg !134 {
entry:
  %mag_value_result = alloca %"struct.au::detail::MagRepresentationOrError", align 4
  %0 = bitcast %"struct.au::detail::MagRepresentationOrError"* %mag_value_result to i8*, !dbg !135
  call void @llvm.memcpy.p0i8.p0i8.i64(i8* align 4 %0, i8* align 4 bitcast (%"struct.au::detail::MagRepresentationOrError"* @__const._ZN2au6detail18ApplyMagnitudeImplINS_9MagnitudeIJNS_3PowINS_5PrimeILm2EEELln2EEENS3_INS4_ILm3EEELln1EEEEEELNS0_7ApplyAsE1EiLb1EE14would_truncateERKi.mag_value_result to i8*), i64 8, i1 false), !dbg !135
  %1 = load i32, i32* %x, align 4, !dbg !136
  %call = call noundef zeroext i1 @_ZN2au6detail33TruncationCheckerIfMagnitudeValidIiLb1EE14would_truncateEii(i32 noundef %1, i32 noundef 12), !dbg !137
  ret i1 %call, !dbg !138
}

; Function Attrs: mustprogress noinline nounwind uwtable
define linkonce_odr dso_local noundef zeroext i1 @_ZN2au6detail33TruncationCheckerIfMagnitudeValidIiLb1EE14would_truncateEii(i32 noundef %x, i32 noundef %mag_value) #0 comdat align 2 !dbg !139 {
entry:
  %rem = srem i32 %x, %mag_value, !dbg !140
  %cmp = icmp ne i32 %rem, 0, !dbg !141
  ret i1 %cmp, !dbg !142
}

; Function Attrs: mustprogress noinline nounwind uwtable
define linkonce_odr dso_local noundef zeroext i1 @_ZN2au6detail18ApplyMagnitudeImplINS_9MagnitudeIJNS_5PrimeILm2EEENS_3PowINS3_ILm3EEELln1EEENS5_INS3_ILm5EEELl4EEENS5_INS3_ILm127EEELln1EEEEEELNS0_7ApplyAsE2EiLb1EE14would_overflowERKi(i32* noundef nonnull align 4 dereferenceable(4) %x) #0 comdat align 2 !dbg !143 {
entry:
  %call = call noundef zeroext i1 @_ZN2au6detail23RationalOverflowCheckerIiNS_9MagnitudeIJNS_5PrimeILm2EEENS_3PowINS3_ILm3EEELln1EEENS5_INS3_ILm5EEELl4EEENS5_INS3_ILm127EEELln1EEEEEELb1EE14would_overflowERKi(i32* noundef nonnull align 4 dereferenceable(4) %x), !dbg !144
  ret i1 %call, !dbg !145
}

; Function Attrs: mustprogress noinline nounwind uwtable
define linkonce_odr dso_local noundef zeroext i1 @_ZN2au6detail23RationalOverflowCheckerIiNS_9MagnitudeIJNS_5PrimeILm2EEENS_3PowINS3_ILm3EEELln1EEENS5_INS3_ILm5EEELl4EEENS5_INS3_ILm127EEELln1EEEEEELb1EE14would_overflowERKi(i32* noundef nonnull align 4 dereferenceable(4) %x) #0 comdat align 2 !dbg !146 {
entry:
  %0 = load i32, i32* %x, align 4, !dbg !147
  %call = call noundef i32 @_ZN2au6detail37MaxNonOverflowingValueImplWhenNumFitsIiNS_9MagnitudeIJNS_5PrimeILm2EEENS_3PowINS3_ILm3EEELln1EEENS5_INS3_ILm5EEELl4EEENS5_INS3_ILm127EEELln1EEEEEELb0EE5valueEv(), !dbg !148
  %cmp = icmp sle i32 %0, %call, !dbg !149
  br i1 %cmp, label %land.rhs, label %land.end, !dbg !150

land.rhs:                                         ; preds = %entry
  %1 = load i32, i32* %x, align 4, !dbg !151
  %call1 = call noundef i32 @_ZN2au6detail37MinNonOverflowingValueImplWhenNumFitsIiNS_9MagnitudeIJNS_5PrimeILm2EEENS_3PowINS3_ILm3EEELln1EEENS5_INS3_ILm5EEELl4EEENS5_INS3_ILm127EEELln1EEEEEELb0EE5valueEv(), !dbg !152
  %cmp2 = icmp sge i32 %1, %call1, !dbg !153
  br label %land.end

land.end:                                         ; preds = %land.rhs, %entry
  %2 = phi i1 [ false, %entry ], [ %cmp2, %land.rhs ], !dbg !154
  %frombool = zext i1 %2 to i8, !dbg !155
  %tobool = trunc i8 %frombool to i1, !dbg !156
  %lnot = xor i1 %tobool, true, !dbg !157
  ret i1 %lnot, !dbg !158
}

; Function Attrs: mustprogress noinline nounwind uwtable
define linkonce_odr dso_local noundef i32 @_ZN2au6detail37MaxNonOverflowingValueImplWhenNumFitsIiNS_9MagnitudeIJNS_5PrimeILm2EEENS_3PowINS3_ILm3EEELln1EEENS5_INS3_ILm5EEELl4EEENS5_INS3_ILm127EEELln1EEEEEELb0EE5valueEv() #0 comdat align 2 !dbg !159 {
entry:
  %call = call noundef i32 @_ZN2au6detail17clamp_to_range_ofIiiEET_T0_(i32 noundef 1717986), !dbg !161
  ret i32 %call, !dbg !162
}

; Function Attrs: mustprogress noinline nounwind uwtable
define linkonce_odr dso_local noundef i32 @_ZN2au6detail37MinNonOverflowingValueImplWhenNumFitsIiNS_9MagnitudeIJNS_5PrimeILm2EEENS_3PowINS3_ILm3EEELln1EEENS5_INS3_ILm5EEELl4EEENS5_INS3_ILm127EEELln1EEEEEELb0EE5valueEv() #0 comdat align 2 !dbg !163 {
entry:
  %call = call noundef i32 @_ZN2au6detail17clamp_to_range_ofIiiEET_T0_(i32 noundef -1717986), !dbg !164
  ret i32 %call, !dbg !165
}

; Function Attrs: mustprogress noinline nounwind uwtable
define linkonce_odr dso_local noundef i32 @_ZN2au6detail17clamp_to_range_ofIiiEET_T0_(i32 noundef %x) #0 comdat !dbg !166 {
entry:
  %call = call noundef i32 @_ZNSt14numeric_limitsIiE3maxEv() #3, !dbg !167
  %call1 = call noundef zeroext i1 @_ZN2au4stdx11cmp_greaterIiiEEbT_T0_(i32 noundef %x, i32 noundef %call) #3, !dbg !168
  br i1 %call1, label %cond.true, label %cond.false, !dbg !168

cond.true:                                        ; preds = %entry
  %call2 = call noundef i32 @_ZNSt14numeric_limitsIiE3maxEv() #3, !dbg !169
  br label %cond.end8, !dbg !168

cond.false:                                       ; preds = %entry
  %call3 = call noundef i32 @_ZNSt14numeric_limitsIiE6lowestEv() #3, !dbg !170
  %call4 = call noundef zeroext i1 @_ZN2au4stdx8cmp_lessIiiEEbT_T0_(i32 noundef %x, i32 noundef %call3) #3, !dbg !171
  br i1 %call4, label %cond.true5, label %cond.false7, !dbg !171

cond.true5:                                       ; preds = %cond.false
  %call6 = call noundef i32 @_ZNSt14numeric_limitsIiE6lowestEv() #3, !dbg !172
  br label %cond.end, !dbg !171

cond.false7:                                      ; preds = %cond.false
  br label %cond.end, !dbg !171

cond.end:                                         ; preds = %cond.false7, %cond.true5
  %cond = phi i32 [ %call6, %cond.true5 ], [ %x, %cond.false7 ], !dbg !171
  br label %cond.end8, !dbg !168

cond.end8:                                        ; preds = %cond.end, %cond.true
  %cond9 = phi i32 [ %call2, %cond.true ], [ %cond, %cond.end ], !dbg !168
  ret i32 %cond9, !dbg !173
}

; Function Attrs: mustprogress noinline nounwind uwtable
define linkonce_odr dso_local noundef zeroext i1 @_ZN2au4stdx11cmp_greaterIiiEEbT_T0_(i32 noundef %t, i32 noundef %u) #0 comdat !dbg !174 {
entry:
  %call = call noundef zeroext i1 @_ZN2au4stdx8cmp_lessIiiEEbT_T0_(i32 noundef %u, i32 noundef %t) #3, !dbg !176
  ret i1 %call, !dbg !177
}

; Function Attrs: mustprogress noinline nounwind uwtable
define linkonce_odr dso_local noundef zeroext i1 @_ZN2au4stdx8cmp_lessIiiEEbT_T0_(i32 noundef %t, i32 noundef %u) #0 comdat !dbg !178 {
entry:
  %ref.tmp = alloca %"struct.au::stdx::CmpLessImpl", align 1
  %call = call noundef zeroext i1 @_ZN2au4stdx11CmpLessImplIiivEclEii(%"struct.au::stdx::CmpLessImpl"* noundef nonnull align 1 dereferenceable(1) %ref.tmp, i32 noundef %t, i32 noundef %u), !dbg !179
  ret i1 %call, !dbg !180
}

; Function Attrs: mustprogress noinline nounwind uwtable
define linkonce_odr dso_local noundef zeroext i1 @_ZN2au4stdx11CmpLessImplIiivEclEii(%"struct.au::stdx::CmpLessImpl"* noundef nonnull align 1 dereferenceable(1) %this, i32 noundef %t, i32 noundef %u) #0 comdat align 2 !dbg !181 {
entry:
  %cmp = icmp slt i32 %t, %u, !dbg !182
  ret i1 %cmp, !dbg !183
}

; Function Attrs: mustprogress noinline nounwind uwtable
define linkonce_odr dso_local noundef zeroext i1 @_ZN2au6detail18ApplyMagnitudeImplINS_9MagnitudeIJNS_5PrimeILm2EEENS_3PowINS3_ILm3EEELln1EEENS5_INS3_ILm5EEELl4EEENS5_INS3_ILm127EEELln1EEEEEELNS0_7ApplyAsE2EiLb1EE14would_truncateERKi(i32* noundef nonnull align 4 dereferenceable(4) %x) #0 comdat align 2 !dbg !184 {
entry:
  %mag_value_result = alloca %"struct.au::detail::MagRepresentationOrError", align 4
  %0 = bitcast %"struct.au::detail::MagRepresentationOrError"* %mag_value_result to i8*, !dbg !185
  call void @llvm.memcpy.p0i8.p0i8.i64(i8* align 4 %0, i8* align 4 bitcast (%"struct.au::detail::MagRepresentationOrError"* @__const._ZN2au6detail18ApplyMagnitudeImplINS_9MagnitudeIJNS_5PrimeILm2EEENS_3PowINS3_ILm3EEELln1EEENS5_INS3_ILm5EEELl4EEENS5_INS3_ILm127EEELln1EEEEEELNS0_7ApplyAsE2EiLb1EE14would_truncateERKi.mag_value_result to i8*), i64 8, i1 false), !dbg !185
  %1 = load i32, i32* %x, align 4, !dbg !186
  %call = call noundef zeroext i1 @_ZN2au6detail33TruncationCheckerIfMagnitudeValidIiLb1EE14would_truncateEii(i32 noundef %1, i32 noundef 381), !dbg !187
  ret i1 %call, !dbg !188
}

attributes #0 = { mustprogress noinline nounwind uwtable "frame-pointer"="all" "min-legal-vector-width"="0" "no-trapping-math"="true" "stack-protector-buffer-size"="8" "target-cpu"="x86-64" "target-features"="+cx8,+fxsr,+mmx,+sse,+sse2,+x87" "tune-cpu"="generic" }
attributes #1 = { argmemonly nofree nounwind willreturn }
attributes #2 = { noinline nounwind uwtable "frame-pointer"="all" "min-legal-vector-width"="0" "no-trapping-math"="true" "stack-protector-buffer-size"="8" "target-cpu"="x86-64" "target-features"="+cx8,+fxsr,+mmx,+sse,+sse2,+x87" "tune-cpu"="generic" }
attributes #3 = { nounwind }

!llvm.dbg.cu = !{!0}
!llvm.module.flags = !{!2, !3, !4, !5, !6, !7, !8}
!llvm.ident = !{!9}

!0 = distinct !DICompileUnit(language: DW_LANG_C_plus_plus_14, file: !1, producer: "Debian clang version 14.0.6", isOptimized: false, runtimeVersion: 0, emissionKind: LineTablesOnly, splitDebugInlining: false, nameTableKind: None)
!1 = !DIFile(filename: "/verif/.work/C04-9806/C04.i32_cxx14_0.cc", directory: "/verif", checksumkind: CSK_MD5, checksum: "9bf9db64be2f7049ad6c7aa03619c90c")
!2 = !{i32 7, !"Dwarf Version", i32 5}
!3 = !{i32 2, !"Debug Info Version", i32 3}
!4 = !{i32 1, !"wchar_size", i32 4}
!5 = !{i32 7, !"PIC Level", i32 2}
!6 = !{i32 7, !"PIE Level", i32 2}
!7 = !{i32 7, !"uwtable", i32 1}
!8 = !{i32 7, !"frame-pointer", i32 2}
!9 = !{!"Debian clang version 14.0.6"}
!10 = distinct !DISubprogram(name: "w_ovf_i32_12_1", scope: !11, file: !11, line: 11, type: !12, scopeLine: 11, flags: DIFlagPrototyped, spFlags: DISPFlagDefinition, unit: !0, retainedNodes: !13)
!11 = !DIFile(filename: ".work/C04-9806/C04.i32_cxx14_0.cc", directory: "/verif", checksumkind: CSK_MD5, checksum: "9bf9db64be2f7049ad6c7aa03619c90c")
!12 = !DISubroutineType(types: !13)
!13 = !{}
!14 = !DILocation(line: 11, column: 81, scope: !10)
!15 = !DILocation(line: 11, column: 52, scope: !10)
!16 = !DILocation(line: 11, column: 45, scope: !10)
!17 = distinct !DISubprogram(name: "will_conversion_overflow<au::Meters, int, VU_m_12_1>", scope: !18, file: !18, line: 633, type: !12, scopeLine: 633, flags: DIFlagPrototyped, spFlags: DISPFlagDefinition, unit: !0, retainedNodes: !13)
!18 = !DIFile(filename: "/repo/au/code/au/quantity.hh", directory: "", checksumkind: CSK_MD5, checksum: "7052e010bf8752780b32a3054bdf3cc5")
!19 = !DILocation(line: 635, column: 11, scope: !17)
!20 = !DILocation(line: 635, column: 9, scope: !17)
!21 = !DILocation(line: 634, column: 12, scope: !17)
!22 = !DILocation(line: 634, column: 5, scope: !17)
!23 = distinct !DISubprogram(name: "make_quantity<au::Meters, int>", scope: !18, file: !18, line: 36, type: !12, scopeLine: 36, flags: DIFlagPrototyped, spFlags: DISPFlagDefinition, unit: !0, retainedNodes: !13)
!24 = !DILocation(line: 37, column: 12, scope: !23)
!25 = !DILocation(line: 37, column: 5, scope: !23)
!26 = distinct !DISubprogram(name: "w_trunc_i32_12_1", scope: !11, file: !11, line: 12, type: !12, scopeLine: 12, flags: DIFlagPrototyped, spFlags: DISPFlagDefinition, unit: !0, retainedNodes: !13)
!27 = !DILocation(line: 12, column: 83, scope: !26)
!28 = !DILocation(line: 12, column: 54, scope: !26)
!29 = !DILocation(line: 12, column: 47, scope: !26)
!30 = distinct !DISubprogram(name: "will_conversion_truncate<au::Meters, int, VU_m_12_1>", scope: !18, file: !18, line: 660, type: !12, scopeLine: 660, flags: DIFlagPrototyped, spFlags: DISPFlagDefinition, unit: !0, retainedNodes: !13)
!31 = !DILocation(line: 662, column: 11, scope: !30)
!32 = !DILocation(line: 662, column: 9, scope: !30)
!33 = !DILocation(line: 661, column: 12, scope: !30)
!34 = !DILocation(line: 661, column: 5, scope: !30)
!35 = distinct !DISubprogram(name: "w_lossy_i32_12_1", scope: !11, file: !11, line: 13, type: !12, scopeLine: 13, flags: DIFlagPrototyped, spFlags: DISPFlagDefinition, unit: !0, retainedNodes: !13)
!36 = !DILocation(line: 13, column: 78, scope: !35)
!37 = !DILocation(line: 13, column: 54, scope: !35)
!38 = !DILocation(line: 13, column: 47, scope: !35)
!39 = distinct !DISubprogram(name: "is_conversion_lossy<au::Meters, int, VU_m_12_1>", scope: !18, file: !18, line: 684, type: !12, scopeLine: 684, flags: DIFlagPrototyped, spFlags: DISPFlagDefinition, unit: !0, retainedNodes: !13)
!40 = !DILocation(line: 685, column: 12, scope: !39)
!41 = !DILocation(line: 685, column: 53, scope: !39)
!42 = !DILocation(line: 685, column: 56, scope: !39)
!43 = !DILocation(line: 685, column: 5, scope: !39)
!44 = distinct !DISubprogram(name: "w_ovf_i32_1_12", scope: !11, file: !11, line: 14, type: !12, scopeLine: 14, flags: DIFlagPrototyped, spFlags: DISPFlagDefinition, unit: !0, retainedNodes: !13)
!45 = !DILocation(line: 14, column: 81, scope: !44)
!46 = !DILocation(line: 14, column: 52, scope: !44)
!47 = !DILocation(line: 14, column: 45, scope: !44)
!48 = distinct !DISubprogram(name: "will_conversion_overflow<au::Meters, int, VU_m_1_12>", scope: !18, file: !18, line: 633, type: !12, scopeLine: 633, flags: DIFlagPrototyped, spFlags: DISPFlagDefinition, unit: !0, retainedNodes: !13)
!49 = !DILocation(line: 635, column: 11, scope: !48)
!50 = !DILocation(line: 635, column: 9, scope: !48)
!51 = !DILocation(line: 634, column: 12, scope: !48)
!52 = !DILocation(line: 634, column: 5, scope: !48)
!53 = distinct !DISubprogram(name: "w_trunc_i32_1_12", scope: !11, file: !11, line: 15, type: !12, scopeLine: 15, flags: DIFlagPrototyped, spFlags: DISPFlagDefinition, unit: !0, retainedNodes: !13)
!54 = !DILocation(line: 15, column: 83, scope: !53)
!55 = !DILocation(line: 15, column: 54, scope: !53)
!56 = !DILocation(line: 15, column: 47, scope: !53)
!57 = distinct !DISubprogram(name: "will_conversion_truncate<au::Meters, int, VU_m_1_12>", scope: !18, file: !18, line: 660, type: !12, scopeLine: 660, flags: DIFlagPrototyped, spFlags: DISPFlagDefinition, unit: !0, retainedNodes: !13)
!58 = !DILocation(line: 662, column: 11, scope: !57)
!59 = !DILocation(line: 662, column: 9, scope: !57)
!60 = !DILocation(line: 661, column: 12, scope: !57)
!61 = !DILocation(line: 661, column: 5, scope: !57)
!62 = distinct !DISubprogram(name: "w_lossy_i32_1_12", scope: !11, file: !11, line: 16, type: !12, scopeLine: 16, flags: DIFlagPrototyped, spFlags: DISPFlagDefinition, unit: !0, retainedNodes: !13)
!63 = !DILocation(line: 16, column: 78, scope: !62)
!64 = !DILocation(line: 16, column: 54, scope: !62)
!65 = !DILocation(line: 16, column: 47, scope: !62)
!66 = distinct !DISubprogram(name: "is_conversion_lossy<au::Meters, int, VU_m_1_12>", scope: !18, file: !18, line: 684, type: !12, scopeLine: 684, flags: DIFlagPrototyped, spFlags: DISPFlagDefinition, unit: !0, retainedNodes: !13)
!67 = !DILocation(line: 685, column: 12, scope: !66)
!68 = !DILocation(line: 685, column: 53, scope: !66)
!69 = !DILocation(line: 685, column: 56, scope: !66)
!70 = !DILocation(line: 685, column: 5, scope: !66)
!71 = distinct !DISubprogram(name: "w_ovf_i32_1250_381", scope: !11, file: !11, line: 17, type: !12, scopeLine: 17, flags: DIFlagPrototyped, spFlags: DISPFlagDefinition, unit: !0, retainedNodes: !13)
!72 = !DILocation(line: 17, column: 85, scope: !71)
!73 = !DILocation(line: 17, column: 56, scope: !71)
!74 = !DILocation(line: 17, column: 49, scope: !71)
!75 = distinct !DISubprogram(name: "will_conversion_overflow<au::Meters, int, VU_m_1250_381>", scope: !18, file: !18, line: 633, type: !12, scopeLine: 633, flags: DIFlagPrototyped, spFlags: DISPFlagDefinition, unit: !0, retainedNodes: !13)
!76 = !DILocation(line: 635, column: 11, scope: !75)
!77 = !DILocation(line: 635, column: 9, scope: !75)
!78 = !DILocation(line: 634, column: 12, scope: !75)
!79 = !DILocation(line: 634, column: 5, scope: !75)
!80 = distinct !DISubprogram(name: "w_trunc_i32_1250_381", scope: !11, file: !11, line: 18, type: !12, scopeLine: 18, flags: DIFlagPrototyped, spFlags: DISPFlagDefinition, unit: !0, retainedNodes: !13)
!81 = !DILocation(line: 18, column: 87, scope: !80)
!82 = !DILocation(line: 18, column: 58, scope: !80)
!83 = !DILocation(line: 18, column: 51, scope: !80)
!84 = distinct !DISubprogram(name: "will_conversion_truncate<au::Meters, int, VU_m_1250_381>", scope: !18, file: !18, line: 660, type: !12, scopeLine: 660, flags: DIFlagPrototyped, spFlags: DISPFlagDefinition, unit: !0, retainedNodes: !13)
!85 = !DILocation(line: 662, column: 11, scope: !84)
!86 = !DILocation(line: 662, column: 9, scope: !84)
!87 = !DILocation(line: 661, column: 12, scope: !84)
!88 = !DILocation(line: 661, column: 5, scope: !84)
!89 = distinct !DISubprogram(name: "w_lossy_i32_1250_381", scope: !11, file: !11, line: 19, type: !12, scopeLine: 19, flags: DIFlagPrototyped, spFlags: DISPFlagDefinition, unit: !0, retainedNodes: !13)
!90 = !DILocation(line: 19, column: 82, scope: !89)
!91 = !DILocation(line: 19, column: 58, scope: !89)
!92 = !DILocation(line: 19, column: 51, scope: !89)
!93 = distinct !DISubprogram(name: "is_conversion_lossy<au::Meters, int, VU_m_1250_381>", scope: !18, file: !18, line: 684, type: !12, scopeLine: 684, flags: DIFlagPrototyped, spFlags: DISPFlagDefinition, unit: !0, retainedNodes: !13)
!94 = !DILocation(line: 685, column: 12, scope: !93)
!95 = !DILocation(line: 685, column: 53, scope: !93)
!96 = !DILocation(line: 685, column: 56, scope: !93)
!97 = !DILocation(line: 685, column: 5, scope: !93)
!98 = distinct !DISubprogram(name: "would_overflow", scope: !99, file: !99, line: 108, type: !12, scopeLine: 108, flags: DIFlagPrototyped, spFlags: DISPFlagDefinition, unit: !0, retainedNodes: !13)
!99 = !DIFile(filename: "/repo/au/code/au/apply_magnitude.hh", directory: "", checksumkind: CSK_MD5, checksum: "bbef979eb84f89c87c767362e08b52a0")
!100 = !DILocation(line: 109, column: 24, scope: !98)
!101 = !DILocation(line: 111, column: 36, scope: !98)
!102 = !DILocation(line: 110, column: 16, scope: !98)
!103 = !DILocation(line: 110, column: 9, scope: !98)
!104 = distinct !DISubprogram(name: "in<au::Meters, void>", scope: !18, file: !18, line: 184, type: !12, scopeLine: 184, flags: DIFlagPrototyped, spFlags: DISPFlagDefinition, unit: !0, retainedNodes: !13)
!105 = !DILocation(line: 186, column: 20, scope: !104)
!106 = !DILocation(line: 186, column: 13, scope: !104)
!107 = distinct !DISubprogram(name: "would_product_overflow", scope: !99, file: !99, line: 51, type: !12, scopeLine: 51, flags: DIFlagPrototyped, spFlags: DISPFlagDefinition, unit: !0, retainedNodes: !13)
!108 = !DILocation(line: 52, column: 22, scope: !107)
!109 = !DILocation(line: 52, column: 52, scope: !107)
!110 = !DILocation(line: 52, column: 19, scope: !107)
!111 = !DILocation(line: 52, column: 66, scope: !107)
!112 = !DILocation(line: 53, column: 22, scope: !107)
!113 = !DILocation(line: 53, column: 55, scope: !107)
!114 = !DILocation(line: 53, column: 19, scope: !107)
!115 = !DILocation(line: 52, column: 9, scope: !107)
!116 = distinct !DISubprogram(name: "max", scope: !117, file: !117, line: 1068, type: !12, scopeLine: 1068, flags: DIFlagPrototyped, spFlags: DISPFlagDefinition, unit: !0, retainedNodes: !13)
!117 = !DIFile(filename: "/usr/bin/../lib/gcc/x86_64-linux-gnu/12/../../../../include/c++/12/limits", directory: "")
!118 = !DILocation(line: 1068, column: 37, scope: !116)
!119 = distinct !DISubprogram(name: "lowest", scope: !117, file: !117, line: 1072, type: !12, scopeLine: 1072, flags: DIFlagPrototyped, spFlags: DISPFlagDefinition, unit: !0, retainedNodes: !13)
!120 = !DILocation(line: 1072, column: 34, scope: !119)
!121 = !DILocation(line: 1072, column: 27, scope: !119)
!122 = distinct !DISubprogram(name: "min", scope: !117, file: !117, line: 1065, type: !12, scopeLine: 1065, flags: DIFlagPrototyped, spFlags: DISPFlagDefinition, unit: !0, retainedNodes: !13)
!123 = !DILocation(line: 1065, column: 37, scope: !122)
!124 = distinct !DISubprogram(name: "operator()<int>", scope: !18, file: !18, line: 568, type: !12, scopeLine: 568, flags: DIFlagPrototyped, spFlags: DISPFlagDefinition, unit: !0, retainedNodes: !13)
!125 = !DILocation(line: 569, column: 16, scope: !124)
!126 = !DILocation(line: 569, column: 9, scope: !124)
!127 = distinct !DISubprogram(name: "Quantity", scope: !18, file: !18, line: 422, type: !12, scopeLine: 422, flags: DIFlagPrototyped, spFlags: DISPFlagDefinition, unit: !0, retainedNodes: !13)
!128 = !DILocation(line: 422, column: 37, scope: !127)
!129 = !DILocation(line: 422, column: 52, scope: !127)
!130 = distinct !DISubprogram(name: "would_truncate", scope: !99, file: !99, line: 114, type: !12, scopeLine: 114, flags: DIFlagPrototyped, spFlags: DISPFlagDefinition, unit: !0, retainedNodes: !13)
!131 = !DILocation(line: 114, column: 55, scope: !130)
!132 = distinct !DISubprogram(name: "would_overflow", scope: !99, file: !99, line: 127, type: !12, scopeLine: 127, flags: DIFlagPrototyped, spFlags: DISPFlagDefinition, unit: !0, retainedNodes: !13)
!133 = !DILocation(line: 127, column: 55, scope: !132)
!134 = distinct !DISubprogram(name: "would_truncate", scope: !99, file: !99, line: 129, type: !12, scopeLine: 129, flags: DIFlagPrototyped, spFlags: DISPFlagDefinition, unit: !0, retainedNodes: !13)
!135 = !DILocation(line: 130, column: 24, scope: !134)
!136 = !DILocation(line: 132, column: 28, scope: !134)
!137 = !DILocation(line: 131, column: 16, scope: !134)
!138 = !DILocation(line: 131, column: 9, scope: !134)
!139 = distinct !DISubprogram(name: "would_truncate", scope: !99, file: !99, line: 72, type: !12, scopeLine: 72, flags: DIFlagPrototyped, spFlags: DISPFlagDefinition, unit: !0, retainedNodes: !13)
!140 = !DILocation(line: 72, column: 72, scope: !139)
!141 = !DILocation(line: 72, column: 84, scope: !139)
!142 = !DILocation(line: 72, column: 62, scope: !139)
!143 = distinct !DISubprogram(name: "would_overflow", scope: !99, file: !99, line: 172, type: !12, scopeLine: 172, flags: DIFlagPrototyped, spFlags: DISPFlagDefinition, unit: !0, retainedNodes: !13)
!144 = !DILocation(line: 173, column: 16, scope: !143)
!145 = !DILocation(line: 173, column: 9, scope: !143)
!146 = distinct !DISubprogram(name: "would_overflow", scope: !99, file: !99, line: 140, type: !12, scopeLine: 140, flags: DIFlagPrototyped, spFlags: DISPFlagDefinition, unit: !0, retainedNodes: !13)
!147 = !DILocation(line: 143, column: 28, scope: !146)
!148 = !DILocation(line: 143, column: 33, scope: !146)
!149 = !DILocation(line: 143, column: 30, scope: !146)
!150 = !DILocation(line: 143, column: 74, scope: !146)
!151 = !DILocation(line: 144, column: 28, scope: !146)
!152 = !DILocation(line: 144, column: 33, scope: !146)
!153 = !DILocation(line: 144, column: 30, scope: !146)
!154 = !DILocation(line: 0, scope: !146)
!155 = !DILocation(line: 143, column: 20, scope: !146)
!156 = !DILocation(line: 145, column: 17, scope: !146)
!157 = !DILocation(line: 145, column: 16, scope: !146)
!158 = !DILocation(line: 145, column: 9, scope: !146)
!159 = distinct !DISubprogram(name: "value", scope: !160, file: !160, line: 132, type: !12, scopeLine: 132, flags: DIFlagPrototyped, spFlags: DISPFlagDefinition, unit: !0, retainedNodes: !13)
!160 = !DIFile(filename: "/repo/au/code/au/apply_rational_magnitude_to_integral.hh", directory: "", checksumkind: CSK_MD5, checksum: "9d5ab709c2fdf3cc701126aed6829df9")
!161 = !DILocation(line: 138, column: 16, scope: !159)
!162 = !DILocation(line: 138, column: 9, scope: !159)
!163 = distinct !DISubprogram(name: "value", scope: !160, file: !160, line: 211, type: !12, scopeLine: 211, flags: DIFlagPrototyped, spFlags: DISPFlagDefinition, unit: !0, retainedNodes: !13)
!164 = !DILocation(line: 217, column: 16, scope: !163)
!165 = !DILocation(line: 217, column: 9, scope: !163)
!166 = distinct !DISubprogram(name: "clamp_to_range_of<int, int>", scope: !160, file: !160, line: 63, type: !12, scopeLine: 63, flags: DIFlagPrototyped, spFlags: DISPFlagDefinition, unit: !0, retainedNodes: !13)
!167 = !DILocation(line: 64, column: 33, scope: !166)
!168 = !DILocation(line: 64, column: 12, scope: !166)
!169 = !DILocation(line: 65, column: 18, scope: !166)
!170 = !DILocation(line: 66, column: 37, scope: !166)
!171 = !DILocation(line: 66, column: 19, scope: !166)
!172 = !DILocation(line: 67, column: 25, scope: !166)
!173 = !DILocation(line: 64, column: 5, scope: !166)
!174 = distinct !DISubprogram(name: "cmp_greater<int, int>", scope: !175, file: !175, line: 51, type: !12, scopeLine: 51, flags: DIFlagPrototyped, spFlags: DISPFlagDefinition, unit: !0, retainedNodes: !13)
!175 = !DIFile(filename: "/repo/au/code/au/stdx/utility.hh", directory: "", checksumkind: CSK_MD5, checksum: "8d41dfc1a98e85443b698de8cc464a88")
!176 = !DILocation(line: 52, column: 12, scope: !174)
!177 = !DILocation(line: 52, column: 5, scope: !174)
!178 = distinct !DISubprogram(name: "cmp_less<int, int>", scope: !175, file: !175, line: 45, type: !12, scopeLine: 45, flags: DIFlagPrototyped, spFlags: DISPFlagDefinition, unit: !0, retainedNodes: !13)
!179 = !DILocation(line: 46, column: 12, scope: !178)
!180 = !DILocation(line: 46, column: 5, scope: !178)
!181 = distinct !DISubprogram(name: "operator()", scope: !175, file: !175, line: 95, type: !12, scopeLine: 95, flags: DIFlagPrototyped, spFlags: DISPFlagDefinition, unit: !0, retainedNodes: !13)
!182 = !DILocation(line: 95, column: 52, scope: !181)
!183 = !DILocation(line: 95, column: 43, scope: !181)
!184 = distinct !DISubprogram(name: "would_truncate", scope: !99, file: !99, line: 176, type: !12, scopeLine: 176, flags: DIFlagPrototyped, spFlags: DISPFlagDefinition, unit: !0, retainedNodes: !13)
!185 = !DILocation(line: 177, column: 24, scope: !184)
!186 = !DILocation(line: 179, column: 28, scope: !184)
!187 = !DILocation(line: 178, column: 16, scope: !184)
!188 = !DILocation(line: 178, column: 9, scope: !184)
