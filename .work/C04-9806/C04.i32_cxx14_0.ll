; ModuleID = '/verif/.work/C04-9806/C04.i32_cxx14_0.cc'
source_filename = "/verif/.work/C04-9806/C04.i32_cxx14_0.cc"
target datalayout = "e-m:e-p270:32:32-p271:32:32-p272:64:64-i64:64-f80:128-n8:16:32:64-S128"
target triple = "x86_64-pc-linux-gnu"

%"struct.au::detail::MagRepresentationOrError" = type { i32, i32 }
%"class.au::Quantity" = type { i32 }
%struct.VU_m_12_1 = type { i8 }
%"struct.au::Meters" = type { i8 }
%"struct.au::QuantityMaker" = type { i8 }
%struct.VU_m_1_12 = type { i8 }
%struct.VU_m_1250_381 = type { i8 }
%"struct.au::stdx::CmpLessImpl" = type { i8 }

$_ZN2au24will_conversion_overflowINS_6MetersEi9VU_m_12_1EEbNS_8QuantityIT_T0_EET1_ = comdat any

$_ZN2au13make_quantityINS_6MetersEiEEDaT0_ = comdat any

$_ZN2au24will_conversion_truncateINS_6MetersEi9VU_m_12_1EEbNS_8QuantityIT_T0_EET1_ = comdat any

$_ZN2au19is_conversion_lossyINS_6MetersEi9VU_m_12_1EEbNS_8QuantityIT_T0_EET1_ = comdat any

$_ZN2au24will_conversion_overflowINS_6MetersEi9VU_m_1_12EEbNS_8QuantityIT_T0_EET1_ = comdat any

$_ZN2au24will_conversion_truncateINS_6MetersEi9VU_m_1_12EEbNS_8QuantityIT_T0_EET1_ = comdat any

$_ZN2au19is_conversion_lossyINS_6MetersEi9VU_m_1_12EEbNS_8QuantityIT_T0_EET1_ = comdat any

$_ZN2au24will_conversion_overflowINS_6MetersEi13VU_m_1250_381EEbNS_8QuantityIT_T0_EET1_ = comdat any

$_ZN2au24will_conversion_truncateINS_6MetersEi13VU_m_1250_381EEbNS_8QuantityIT_T0_EET1_ = comdat any

$_ZN2au19is_conversion_lossyINS_6MetersEi13VU_m_1250_381EEbNS_8QuantityIT_T0_EET1_ = comdat any

$_ZN2au6detail18ApplyMagnitudeImplINS_9MagnitudeIJNS_3PowINS_5PrimeILm2EEELl2EEENS4_ILm3EEEEEELNS0_7ApplyAsE0EiLb1EE14would_overflowERKi = comdat any

$_ZNK2au8QuantityINS_6MetersEiE2inIS1_vEEiT_ = comdat any

$_ZN2au6detail15OverflowCheckerIiLb1EE22would_product_overflowEii = comdat any

$_ZNSt14numeric_limitsIiE3maxEv = comdat any

$_ZNSt14numeric_limitsIiE6lowestEv = comdat any

$_ZNSt14numeric_limitsIiE3minEv = comdat any

$_ZNK2au13QuantityMakerINS_6MetersEEclIiEENS_8QuantityIS1_T_EES5_ = comdat any

$_ZN2au8QuantityINS_6MetersEiEC2Ei = comdat any

$_ZN2au6detail18ApplyMagnitudeImplINS_9MagnitudeIJNS_3PowINS_5PrimeILm2EEELl2EEENS4_ILm3EEEEEELNS0_7ApplyAsE0EiLb1EE14would_truncateERKi = comdat any

$_ZN2au6detail18ApplyMagnitudeImplINS_9MagnitudeIJNS_3PowINS_5PrimeILm2EEELln2EEENS3_INS4_ILm3EEELln1EEEEEELNS0_7ApplyAsE1EiLb1EE14would_overflowERKi = comdat any

$_ZN2au6detail18ApplyMagnitudeImplINS_9MagnitudeIJNS_3PowINS_5PrimeILm2EEELln2EEENS3_INS4_ILm3EEELln1EEEEEELNS0_7ApplyAsE1EiLb1EE14would_truncateERKi = comdat any

$_ZN2au6detail33TruncationCheckerIfMagnitudeValidIiLb1EE14would_truncateEii = comdat any

$_ZN2au6detail18ApplyMagnitudeImplINS_9MagnitudeIJNS_5PrimeILm2EEENS_3PowINS3_ILm3EEELln1EEENS5_INS3_ILm5EEELl4EEENS5_INS3_ILm127EEELln1EEEEEELNS0_7ApplyAsE2EiLb1EE14would_overflowERKi = comdat any

$_ZN2au6detail23RationalOverflowCheckerIiNS_9MagnitudeIJNS_5PrimeILm2EEENS_3PowINS3_ILm3EEELln1EEENS5_INS3_ILm5EEELl4EEENS5_INS3_ILm127EEELln1EEEEEELb1EE14would_overflowERKi = comdat any

$_ZN2au6detail37MaxNonOverflowingValueImplWhenNumFitsIiNS_9MagnitudeIJNS_5PrimeILm2EEENS_3PowINS3_ILm3EEELln1EEENS5_INS3_ILm5EEELl4EEENS5_INS3_ILm127EEELln1EEEEEELb0EE5valueEv = comdat any

$_ZN2au6detail37MinNonOverflowingValueImplWhenNumFitsIiNS_9MagnitudeIJNS_5PrimeILm2EEENS_3PowINS3_ILm3EEELln1EEENS5_INS3_ILm5EEELl4EEENS5_INS3_ILm127EEELln1EEEEEELb0EE5valueEv = comdat any

$_ZN2au6detail17clamp_to_range_ofIiiEET_T0_ = comdat any

$_ZN2au4stdx11cmp_greaterIiiEEbT_T0_ = comdat any

$_ZN2au4stdx8cmp_lessIiiEEbT_T0_ = comdat any

$_ZN2au4stdx11CmpLessImplIiivEclEii = comdat any

$_ZN2au6detail18ApplyMagnitudeImplINS_9MagnitudeIJNS_5PrimeILm2EEENS_3PowINS3_ILm3EEELln1EEENS5_INS3_ILm5EEELl4EEENS5_INS3_ILm127EEELln1EEEEEELNS0_7ApplyAsE2EiLb1EE14would_truncateERKi = comdat any

@__const._ZN2au6detail18ApplyMagnitudeImplINS_9MagnitudeIJNS_3PowINS_5PrimeILm2EEELl2EEENS4_ILm3EEEEEELNS0_7ApplyAsE0EiLb1EE14would_overflowERKi.mag_value_result = private unnamed_addr constant %"struct.au::detail::MagRepresentationOrError" { i32 0, i32 12 }, align 4
@__const._ZN2au6detail18ApplyMagnitudeImplINS_9MagnitudeIJNS_3PowINS_5PrimeILm2EEELln2EEENS3_INS4_ILm3EEELln1EEEEEELNS0_7ApplyAsE1EiLb1EE14would_truncateERKi.mag_value_result = private unnamed_addr constant %"struct.au::detail::MagRepresentationOrError" { i32 0, i32 12 }, align 4
@__const._ZN2au6detail18ApplyMagnitudeImplINS_9MagnitudeIJNS_5PrimeILm2EEENS_3PowINS3_ILm3EEELln1EEENS5_INS3_ILm5EEELl4EEENS5_INS3_ILm127EEELln1EEEEEELNS0_7ApplyAsE2EiLb1EE14would_truncateERKi.mag_value_result = private unnamed_addr constant %"struct.au::detail::MagRepresentationOrError" { i32 0, i32 381 }, align 4

; Function Attrs: mustprogress noinline nounwind uwtable
define dso_local zeroext i1 @w_ovf_i32_12_1(i32 noundef %x) #0 !dbg !10 {
entry:
  %x.addr = alloca i32, align 4
  %agg.tmp = alloca %"class.au::Quantity", align 4
  %agg.tmp1 = alloca %struct.VU_m_12_1, align 1
  store i32 %x, i32* %x.addr, align 4
  %0 = load i32, i32* %x.addr, align 4, !dbg !14
  %call = call i32 @_ZN2au13make_quantityINS_6MetersEiEEDaT0_(i32 noundef %0), !dbg !15
  %coerce.dive = getelementptr inbounds %"class.au::Quantity", %"class.au::Quantity"* %agg.tmp, i32 0, i32 0, !dbg !15
  store i32 %call, i32* %coerce.dive, align 4, !dbg !15
  %coerce.dive2 = getelementptr inbounds %"class.au::Quantity", %"class.au::Quantity"* %agg.tmp, i32 0, i32 0, !dbg !16
  %1 = load i32, i32* %coerce.dive2, align 4, !dbg !16
  %call3 = call noundef zeroext i1 @_ZN2au24will_conversion_overflowINS_6MetersEi9VU_m_12_1EEbNS_8QuantityIT_T0_EET1_(i32 %1), !dbg !16
  ret i1 %call3, !dbg !17
}

; Function Attrs: mustprogress noinline nounwind uwtable
define linkonce_odr dso_local noundef zeroext i1 @_ZN2au24will_conversion_overflowINS_6MetersEi9VU_m_12_1EEbNS_8QuantityIT_T0_EET1_(i32 %q.coerce) #0 comdat !dbg !18 {
entry:
  %q = alloca %"class.au::Quantity", align 4
  %target_unit = alloca %struct.VU_m_12_1, align 1
  %ref.tmp = alloca i32, align 4
  %agg.tmp = alloca %"struct.au::Meters", align 1
  %coerce.dive = getelementptr inbounds %"class.au::Quantity", %"class.au::Quantity"* %q, i32 0, i32 0
  store i32 %q.coerce, i32* %coerce.dive, align 4
  %call = call noundef i32 @_ZNK2au8QuantityINS_6MetersEiE2inIS1_vEEiT_(%"class.au::Quantity"* noundef nonnull align 4 dereferenceable(4) %q), !dbg !20
  store i32 %call, i32* %ref.tmp, align 4, !dbg !21
  %call1 = call noundef zeroext i1 @_ZN2au6detail18ApplyMagnitudeImplINS_9MagnitudeIJNS_3PowINS_5PrimeILm2EEELl2EEENS4_ILm3EEEEEELNS0_7ApplyAsE0EiLb1EE14would_overflowERKi(i32* noundef nonnull align 4 dereferenceable(4) %ref.tmp), !dbg !22
  ret i1 %call1, !dbg !23
}

; Function Attrs: mustprogress noinline nounwind uwtable
define linkonce_odr dso_local i32 @_ZN2au13make_quantityINS_6MetersEiEEDaT0_(i32 noundef %value) #0 comdat !dbg !24 {
entry:
  %retval = alloca %"class.au::Quantity", align 4
  %value.addr = alloca i32, align 4
  %ref.tmp = alloca %"struct.au::QuantityMaker", align 1
  store i32 %value, i32* %value.addr, align 4
  %0 = load i32, i32* %value.addr, align 4, !dbg !25
  %call = call i32 @_ZNK2au13QuantityMakerINS_6MetersEEclIiEENS_8QuantityIS1_T_EES5_(%"struct.au::QuantityMaker"* noundef nonnull align 1 dereferenceable(1) %ref.tmp, i32 noundef %0), !dbg !26
  %coerce.dive = getelementptr inbounds %"class.au::Quantity", %"class.au::Quantity"* %retval, i32 0, i32 0, !dbg !26
  store i32 %call, i32* %coerce.dive, align 4, !dbg !26
  %coerce.dive1 = getelementptr inbounds %"class.au::Quantity", %"class.au::Quantity"* %retval, i32 0, i32 0, !dbg !27
  %1 = load i32, i32* %coerce.dive1, align 4, !dbg !27
  ret i32 %1, !dbg !27
}

; Function Attrs: mustprogress noinline nounwind uwtable
define dso_local zeroext i1 @w_trunc_i32_12_1(i32 noundef %x) #0 !dbg !28 {
entry:
  %x.addr = alloca i32, align 4
  %agg.tmp = alloca %"class.au::Quantity", align 4
  %agg.tmp1 = alloca %struct.VU_m_12_1, align 1
  store i32 %x, i32* %x.addr, align 4
  %0 = load i32, i32* %x.addr, align 4, !dbg !29
  %call = call i32 @_ZN2au13make_quantityINS_6MetersEiEEDaT0_(i32 noundef %0), !dbg !30
  %coerce.dive = getelementptr inbounds %"class.au::Quantity", %"class.au::Quantity"* %agg.tmp, i32 0, i32 0, !dbg !30
  store i32 %call, i32* %coerce.dive, align 4, !dbg !30
  %coerce.dive2 = getelementptr inbounds %"class.au::Quantity", %"class.au::Quantity"* %agg.tmp, i32 0, i32 0, !dbg !31
  %1 = load i32, i32* %coerce.dive2, align 4, !dbg !31
  %call3 = call noundef zeroext i1 @_ZN2au24will_conversion_truncateINS_6MetersEi9VU_m_12_1EEbNS_8QuantityIT_T0_EET1_(i32 %1), !dbg !31
  ret i1 %call3, !dbg !32
}

; Function Attrs: mustprogress noinline nounwind uwtable
define linkonce_odr dso_local noundef zeroext i1 @_ZN2au24will_conversion_truncateINS_6MetersEi9VU_m_12_1EEbNS_8QuantityIT_T0_EET1_(i32 %q.coerce) #0 comdat !dbg !33 {
entry:
  %q = alloca %"class.au::Quantity", align 4
  %target_unit = alloca %struct.VU_m_12_1, align 1
  %ref.tmp = alloca i32, align 4
  %agg.tmp = alloca %"struct.au::Meters", align 1
  %coerce.dive = getelementptr inbounds %"class.au::Quantity", %"class.au::Quantity"* %q, i32 0, i32 0
  store i32 %q.coerce, i32* %coerce.dive, align 4
  %call = call noundef i32 @_ZNK2au8QuantityINS_6MetersEiE2inIS1_vEEiT_(%"class.au::Quantity"* noundef nonnull align 4 dereferenceable(4) %q), !dbg !34
  store i32 %call, i32* %ref.tmp, align 4, !dbg !35
  %call1 = call noundef zeroext i1 @_ZN2au6detail18ApplyMagnitudeImplINS_9MagnitudeIJNS_3PowINS_5PrimeILm2EEELl2EEENS4_ILm3EEEEEELNS0_7ApplyAsE0EiLb1EE14would_truncateERKi(i32* noundef nonnull align 4 dereferenceable(4) %ref.tmp), !dbg !36
  ret i1 %call1, !dbg !37
}

; Function Attrs: mustprogress noinline nounwind uwtable
define dso_local zeroext i1 @w_lossy_i32_12_1(i32 noundef %x) #0 !dbg !38 {
entry:
  %x.addr = alloca i32, align 4
  %agg.tmp = alloca %"class.au::Quantity", align 4
  %agg.tmp1 = alloca %struct.VU_m_12_1, align 1
  store i32 %x, i32* %x.addr, align 4
  %0 = load i32, i32* %x.addr, align 4, !dbg !39
  %call = call i32 @_ZN2au13make_quantityINS_6MetersEiEEDaT0_(i32 noundef %0), !dbg !40
  %coerce.dive = getelementptr inbounds %"class.au::Quantity", %"class.au::Quantity"* %agg.tmp, i32 0, i32 0, !dbg !40
  store i32 %call, i32* %coerce.dive, align 4, !dbg !40
  %coerce.dive2 = getelementptr inbounds %"class.au::Quantity", %"class.au::Quantity"* %agg.tmp, i32 0, i32 0, !dbg !41
  %1 = load i32, i32* %coerce.dive2, align 4, !dbg !41
  %call3 = call noundef zeroext i1 @_ZN2au19is_conversion_lossyINS_6MetersEi9VU_m_12_1EEbNS_8QuantityIT_T0_EET1_(i32 %1), !dbg !41
  ret i1 %call3, !dbg !42
}

; Function Attrs: mustprogress noinline nounwind uwtable
define linkonce_odr dso_local noundef zeroext i1 @_ZN2au19is_conversion_lossyINS_6MetersEi9VU_m_12_1EEbNS_8QuantityIT_T0_EET1_(i32 %q.coerce) #0 comdat !dbg !43 {
entry:
  %q = alloca %"class.au::Quantity", align 4
  %target_unit = alloca %struct.VU_m_12_1, align 1
  %agg.tmp = alloca %"class.au::Quantity", align 4
  %agg.tmp1 = alloca %struct.VU_m_12_1, align 1
  %agg.tmp3 = alloca %"class.au::Quantity", align 4
  %agg.tmp4 = alloca %struct.VU_m_12_1, align 1
  %coerce.dive = getelementptr inbounds %"class.au::Quantity", %"class.au::Quantity"* %q, i32 0, i32 0
  store i32 %q.coerce, i32* %coerce.dive, align 4
  %0 = bitcast %"class.au::Quantity"* %agg.tmp to i8*, !dbg !44
  %1 = bitcast %"class.au::Quantity"* %q to i8*, !dbg !44
  call void @llvm.memcpy.p0i8.p0i8.i64(i8* align 4 %0, i8* align 4 %1, i64 4, i1 false), !dbg !44
  %coerce.dive2 = getelementptr inbounds %"class.au::Quantity", %"class.au::Quantity"* %agg.tmp, i32 0, i32 0, !dbg !45
  %2 = load i32, i32* %coerce.dive2, align 4, !dbg !45
  %call = call noundef zeroext i1 @_ZN2au24will_conversion_truncateINS_6MetersEi9VU_m_12_1EEbNS_8QuantityIT_T0_EET1_(i32 %2), !dbg !45
  br i1 %call, label %lor.end, label %lor.rhs, !dbg !46

lor.rhs:                                          ; preds = %entry
  %3 = bitcast %"class.au::Quantity"* %agg.tmp3 to i8*, !dbg !47
  %4 = bitcast %"class.au::Quantity"* %q to i8*, !dbg !47
  call void @llvm.memcpy.p0i8.p0i8.i64(i8* align 4 %3, i8* align 4 %4, i64 4, i1 false), !dbg !47
  %coerce.dive5 = getelementptr inbounds %"class.au::Quantity", %"class.au::Quantity"* %agg.tmp3, i32 0, i32 0, !dbg !48
  %5 = load i32, i32* %coerce.dive5, align 4, !dbg !48
  %call6 = call noundef zeroext i1 @_ZN2au24will_conversion_overflowINS_6MetersEi9VU_m_12_1EEbNS_8QuantityIT_T0_EET1_(i32 %5), !dbg !48
  br label %lor.end, !dbg !46

lor.end:                                          ; preds = %lor.rhs, %entry
  %6 = phi i1 [ true, %entry ], [ %call6, %lor.rhs ]
  ret i1 %6, !dbg !49
}

; Function Attrs: mustprogress noinline nounwind uwtable
define dso_local zeroext i1 @w_ovf_i32_1_12(i32 noundef %x) #0 !dbg !50 {
entry:
  %x.addr = alloca i32, align 4
  %agg.tmp = alloca %"class.au::Quantity", align 4
  %agg.tmp1 = alloca %struct.VU_m_1_12, align 1
  store i32 %x, i32* %x.addr, align 4
  %0 = load i32, i32* %x.addr, align 4, !dbg !51
  %call = call i32 @_ZN2au13make_quantityINS_6MetersEiEEDaT0_(i32 noundef %0), !dbg !52
  %coerce.dive = getelementptr inbounds %"class.au::Quantity", %"class.au::Quantity"* %agg.tmp, i32 0, i32 0, !dbg !52
  store i32 %call, i32* %coerce.dive, align 4, !dbg !52
  %coerce.dive2 = getelementptr inbounds %"class.au::Quantity", %"class.au::Quantity"* %agg.tmp, i32 0, i32 0, !dbg !53
  %1 = load i32, i32* %coerce.dive2, align 4, !dbg !53
  %call3 = call noundef zeroext i1 @_ZN2au24will_conversion_overflowINS_6MetersEi9VU_m_1_12EEbNS_8QuantityIT_T0_EET1_(i32 %1), !dbg !53
  ret i1 %call3, !dbg !54
}

; Function Attrs: mustprogress noinline nounwind uwtable
define linkonce_odr dso_local noundef zeroext i1 @_ZN2au24will_conversion_overflowINS_6MetersEi9VU_m_1_12EEbNS_8QuantityIT_T0_EET1_(i32 %q.coerce) #0 comdat !dbg !55 {
entry:
  %q = alloca %"class.au::Quantity", align 4
  %target_unit = alloca %struct.VU_m_1_12, align 1
  %ref.tmp = alloca i32, align 4
  %agg.tmp = alloca %"struct.au::Meters", align 1
  %coerce.dive = getelementptr inbounds %"class.au::Quantity", %"class.au::Quantity"* %q, i32 0, i32 0
  store i32 %q.coerce, i32* %coerce.dive, align 4
  %call = call noundef i32 @_ZNK2au8QuantityINS_6MetersEiE2inIS1_vEEiT_(%"class.au::Quantity"* noundef nonnull align 4 dereferenceable(4) %q), !dbg !56
  store i32 %call, i32* %ref.tmp, align 4, !dbg !57
  %call1 = call noundef zeroext i1 @_ZN2au6detail18ApplyMagnitudeImplINS_9MagnitudeIJNS_3PowINS_5PrimeILm2EEELln2EEENS3_INS4_ILm3EEELln1EEEEEELNS0_7ApplyAsE1EiLb1EE14would_overflowERKi(i32* noundef nonnull align 4 dereferenceable(4) %ref.tmp), !dbg !58
  ret i1 %call1, !dbg !59
}

; Function Attrs: mustprogress noinline nounwind uwtable
define dso_local zeroext i1 @w_trunc_i32_1_12(i32 noundef %x) #0 !dbg !60 {
entry:
  %x.addr = alloca i32, align 4
  %agg.tmp = alloca %"class.au::Quantity", align 4
  %agg.tmp1 = alloca %struct.VU_m_1_12, align 1
  store i32 %x, i32* %x.addr, align 4
  %0 = load i32, i32* %x.addr, align 4, !dbg !61
  %call = call i32 @_ZN2au13make_quantityINS_6MetersEiEEDaT0_(i32 noundef %0), !dbg !62
  %coerce.dive = getelementptr inbounds %"class.au::Quantity", %"class.au::Quantity"* %agg.tmp, i32 0, i32 0, !dbg !62
  store i32 %call, i32* %coerce.dive, align 4, !dbg !62
  %coerce.dive2 = getelementptr inbounds %"class.au::Quantity", %"class.au::Quantity"* %agg.tmp, i32 0, i32 0, !dbg !63
  %1 = load i32, i32* %coerce.dive2, align 4, !dbg !63
  %call3 = call noundef zeroext i1 @_ZN2au24will_conversion_truncateINS_6MetersEi9VU_m_1_12EEbNS_8QuantityIT_T0_EET1_(i32 %1), !dbg !63
  ret i1 %call3, !dbg !64
}

; Function Attrs: mustprogress noinline nounwind uwtable
define linkonce_odr dso_local noundef zeroext i1 @_ZN2au24will_conversion_truncateINS_6MetersEi9VU_m_1_12EEbNS_8QuantityIT_T0_EET1_(i32 %q.coerce) #0 comdat !dbg !65 {
entry:
  %q = alloca %"class.au::Quantity", align 4
  %target_unit = alloca %struct.VU_m_1_12, align 1
  %ref.tmp = alloca i32, align 4
  %agg.tmp = alloca %"struct.au::Meters", align 1
  %coerce.dive = getelementptr inbounds %"class.au::Quantity", %"class.au::Quantity"* %q, i32 0, i32 0
  store i32 %q.coerce, i32* %coerce.dive, align 4
  %call = call noundef i32 @_ZNK2au8QuantityINS_6MetersEiE2inIS1_vEEiT_(%"class.au::Quantity"* noundef nonnull align 4 dereferenceable(4) %q), !dbg !66
  store i32 %call, i32* %ref.tmp, align 4, !dbg !67
  %call1 = call noundef zeroext i1 @_ZN2au6detail18ApplyMagnitudeImplINS_9MagnitudeIJNS_3PowINS_5PrimeILm2EEELln2EEENS3_INS4_ILm3EEELln1EEEEEELNS0_7ApplyAsE1EiLb1EE14would_truncateERKi(i32* noundef nonnull align 4 dereferenceable(4) %ref.tmp), !dbg !68
  ret i1 %call1, !dbg !69
}

; Function Attrs: mustprogress noinline nounwind uwtable
define dso_local zeroext i1 @w_lossy_i32_1_12(i32 noundef %x) #0 !dbg !70 {
entry:
  %x.addr = alloca i32, align 4
  %agg.tmp = alloca %"class.au::Quantity", align 4
  %agg.tmp1 = alloca %struct.VU_m_1_12, align 1
  store i32 %x, i32* %x.addr, align 4
  %0 = load i32, i32* %x.addr, align 4, !dbg !71
  %call = call i32 @_ZN2au13make_quantityINS_6MetersEiEEDaT0_(i32 noundef %0), !dbg !72
  %coerce.dive = getelementptr inbounds %"class.au::Quantity", %"class.au::Quantity"* %agg.tmp, i32 0, i32 0, !dbg !72
  store i32 %call, i32* %coerce.dive, align 4, !dbg !72
  %coerce.dive2 = getelementptr inbounds %"class.au::Quantity", %"class.au::Quantity"* %agg.tmp, i32 0, i32 0, !dbg !73
  %1 = load i32, i32* %coerce.dive2, align 4, !dbg !73
  %call3 = call noundef zeroext i1 @_ZN2au19is_conversion_lossyINS_6MetersEi9VU_m_1_12EEbNS_8QuantityIT_T0_EET1_(i32 %1), !dbg !73
  ret i1 %call3, !dbg !74
}

; Function Attrs: mustprogress noinline nounwind uwtable
define linkonce_odr dso_local noundef zeroext i1 @_ZN2au19is_conversion_lossyINS_6MetersEi9VU_m_1_12EEbNS_8QuantityIT_T0_EET1_(i32 %q.coerce) #0 comdat !dbg !75 {
entry:
  %q = alloca %"class.au::Quantity", align 4
  %target_unit = alloca %struct.VU_m_1_12, align 1
  %agg.tmp = alloca %"class.au::Quantity", align 4
  %agg.tmp1 = alloca %struct.VU_m_1_12, align 1
  %agg.tmp3 = alloca %"class.au::Quantity", align 4
  %agg.tmp4 = alloca %struct.VU_m_1_12, align 1
  %coerce.dive = getelementptr inbounds %"class.au::Quantity", %"class.au::Quantity"* %q, i32 0, i32 0
  store i32 %q.coerce, i32* %coerce.dive, align 4
  %0 = bitcast %"class.au::Quantity"* %agg.tmp to i8*, !dbg !76
  %1 = bitcast %"class.au::Quantity"* %q to i8*, !dbg !76
  call void @llvm.memcpy.p0i8.p0i8.i64(i8* align 4 %0, i8* align 4 %1, i64 4, i1 false), !dbg !76
  %coerce.dive2 = getelementptr inbounds %"class.au::Quantity", %"class.au::Quantity"* %agg.tmp, i32 0, i32 0, !dbg !77
  %2 = load i32, i32* %coerce.dive2, align 4, !dbg !77
  %call = call noundef zeroext i1 @_ZN2au24will_conversion_truncateINS_6MetersEi9VU_m_1_12EEbNS_8QuantityIT_T0_EET1_(i32 %2), !dbg !77
  br i1 %call, label %lor.end, label %lor.rhs, !dbg !78

lor.rhs:                                          ; preds = %entry
  %3 = bitcast %"class.au::Quantity"* %agg.tmp3 to i8*, !dbg !79
  %4 = bitcast %"class.au::Quantity"* %q to i8*, !dbg !79
  call void @llvm.memcpy.p0i8.p0i8.i64(i8* align 4 %3, i8* align 4 %4, i64 4, i1 false), !dbg !79
  %coerce.dive5 = getelementptr inbounds %"class.au::Quantity", %"class.au::Quantity"* %agg.tmp3, i32 0, i32 0, !dbg !80
  %5 = load i32, i32* %coerce.dive5, align 4, !dbg !80
  %call6 = call noundef zeroext i1 @_ZN2au24will_conversion_overflowINS_6MetersEi9VU_m_1_12EEbNS_8QuantityIT_T0_EET1_(i32 %5), !dbg !80
  br label %lor.end, !dbg !78

lor.end:                                          ; preds = %lor.rhs, %entry
  %6 = phi i1 [ true, %entry ], [ %call6, %lor.rhs ]
  ret i1 %6, !dbg !81
}

; Function Attrs: mustprogress noinline nounwind uwtable
define dso_local zeroext i1 @w_ovf_i32_1250_381(i32 noundef %x) #0 !dbg !82 {
entry:
  %x.addr = alloca i32, align 4
  %agg.tmp = alloca %"class.au::Quantity", align 4
  %agg.tmp1 = alloca %struct.VU_m_1250_381, align 1
  store i32 %x, i32* %x.addr, align 4
  %0 = load i32, i32* %x.addr, align 4, !dbg !83
  %call = call i32 @_ZN2au13make_quantityINS_6MetersEiEEDaT0_(i32 noundef %0), !dbg !84
  %coerce.dive = getelementptr inbounds %"class.au::Quantity", %"class.au::Quantity"* %agg.tmp, i32 0, i32 0, !dbg !84
  store i32 %call, i32* %coerce.dive, align 4, !dbg !84
  %coerce.dive2 = getelementptr inbounds %"class.au::Quantity", %"class.au::Quantity"* %agg.tmp, i32 0, i32 0, !dbg !85
  %1 = load i32, i32* %coerce.dive2, align 4, !dbg !85
  %call3 = call noundef zeroext i1 @_ZN2au24will_conversion_overflowINS_6MetersEi13VU_m_1250_381EEbNS_8QuantityIT_T0_EET1_(i32 %1), !dbg !85
  ret i1 %call3, !dbg !86
}

; Function Attrs: mustprogress noinline nounwind uwtable
define linkonce_odr dso_local noundef zeroext i1 @_ZN2au24will_conversion_overflowINS_6MetersEi13VU_m_1250_381EEbNS_8QuantityIT_T0_EET1_(i32 %q.coerce) #0 comdat !dbg !87 {
entry:
  %q = alloca %"class.au::Quantity", align 4
  %target_unit = alloca %struct.VU_m_1250_381, align 1
  %ref.tmp = alloca i32, align 4
  %agg.tmp = alloca %"struct.au::Meters", align 1
  %coerce.dive = getelementptr inbounds %"class.au::Quantity", %"class.au::Quantity"* %q, i32 0, i32 0
  store i32 %q.coerce, i32* %coerce.dive, align 4
  %call = call noundef i32 @_ZNK2au8QuantityINS_6MetersEiE2inIS1_vEEiT_(%"class.au::Quantity"* noundef nonnull align 4 dereferenceable(4) %q), !dbg !88
  store i32 %call, i32* %ref.tmp, align 4, !dbg !89
  %call1 = call noundef zeroext i1 @_ZN2au6detail18ApplyMagnitudeImplINS_9MagnitudeIJNS_5PrimeILm2EEENS_3PowINS3_ILm3EEELln1EEENS5_INS3_ILm5EEELl4EEENS5_INS3_ILm127EEELln1EEEEEELNS0_7ApplyAsE2EiLb1EE14would_overflowERKi(i32* noundef nonnull align 4 dereferenceable(4) %ref.tmp), !dbg !90
  ret i1 %call1, !dbg !91
}

; Function Attrs: mustprogress noinline nounwind uwtable
define dso_local zeroext i1 @w_trunc_i32_1250_381(i32 noundef %x) #0 !dbg !92 {
entry:
  %x.addr = alloca i32, align 4
  %agg.tmp = alloca %"class.au::Quantity", align 4
  %agg.tmp1 = alloca %struct.VU_m_1250_381, align 1
  store i32 %x, i32* %x.addr, align 4
  %0 = load i32, i32* %x.addr, align 4, !dbg !93
  %call = call i32 @_ZN2au13make_quantityINS_6MetersEiEEDaT0_(i32 noundef %0), !dbg !94
  %coerce.dive = getelementptr inbounds %"class.au::Quantity", %"class.au::Quantity"* %agg.tmp, i32 0, i32 0, !dbg !94
  store i32 %call, i32* %coerce.dive, align 4, !dbg !94
  %coerce.dive2 = getelementptr inbounds %"class.au::Quantity", %"class.au::Quantity"* %agg.tmp, i32 0, i32 0, !dbg !95
  %1 = load i32, i32* %coerce.dive2, align 4, !dbg !95
  %call3 = call noundef zeroext i1 @_ZN2au24will_conversion_truncateINS_6MetersEi13VU_m_1250_381EEbNS_8QuantityIT_T0_EET1_(i32 %1), !dbg !95
  ret i1 %call3, !dbg !96
}

; Function Attrs: mustprogress noinline nounwind uwtable
define linkonce_odr dso_local noundef zeroext i1 @_ZN2au24will_conversion_truncateINS_6MetersEi13VU_m_1250_381EEbNS_8QuantityIT_T0_EET1_(i32 %q.coerce) #0 comdat !dbg !97 {
entry:
  %q = alloca %"class.au::Quantity", align 4
  %target_unit = alloca %struct.VU_m_1250_381, align 1
  %ref.tmp = alloca i32, align 4
  %agg.tmp = alloca %"struct.au::Meters", align 1
  %coerce.dive = getelementptr inbounds %"class.au::Quantity", %"class.au::Quantity"* %q, i32 0, i32 0
  store i32 %q.coerce, i32* %coerce.dive, align 4
  %call = call noundef i32 @_ZNK2au8QuantityINS_6MetersEiE2inIS1_vEEiT_(%"class.au::Quantity"* noundef nonnull align 4 dereferenceable(4) %q), !dbg !98
  store i32 %call, i32* %ref.tmp, align 4, !dbg !99
  %call1 = call noundef zeroext i1 @_ZN2au6detail18ApplyMagnitudeImplINS_9MagnitudeIJNS_5PrimeILm2EEENS_3PowINS3_ILm3EEELln1EEENS5_INS3_ILm5EEELl4EEENS5_INS3_ILm127EEELln1EEEEEELNS0_7ApplyAsE2EiLb1EE14would_truncateERKi(i32* noundef nonnull align 4 dereferenceable(4) %ref.tmp), !dbg !100
  ret i1 %call1, !dbg !101
}

; Function Attrs: mustprogress noinline nounwind uwtable
define dso_local zeroext i1 @w_lossy_i32_1250_381(i32 noundef %x) #0 !dbg !102 {
entry:
  %x.addr = alloca i32, align 4
  %agg.tmp = alloca %"class.au::Quantity", align 4
  %agg.tmp1 = alloca %struct.VU_m_1250_381, align 1
  store i32 %x, i32* %x.addr, align 4
  %0 = load i32, i32* %x.addr, align 4, !dbg !103
  %call = call i32 @_ZN2au13make_quantityINS_6MetersEiEEDaT0_(i32 noundef %0), !dbg !104
  %coerce.dive = getelementptr inbounds %"class.au::Quantity", %"class.au::Quantity"* %agg.tmp, i32 0, i32 0, !dbg !104
  store i32 %call, i32* %coerce.dive, align 4, !dbg !104
  %coerce.dive2 = getelementptr inbounds %"class.au::Quantity", %"class.au::Quantity"* %agg.tmp, i32 0, i32 0, !dbg !105
  %1 = load i32, i32* %coerce.dive2, align 4, !dbg !105
  %call3 = call noundef zeroext i1 @_ZN2au19is_conversion_lossyINS_6MetersEi13VU_m_1250_381EEbNS_8QuantityIT_T0_EET1_(i32 %1), !dbg !105
  ret i1 %call3, !dbg !106
}

; Function Attrs: mustprogress noinline nounwind uwtable
define linkonce_odr dso_local noundef zeroext i1 @_ZN2au19is_conversion_lossyINS_6MetersEi13VU_m_1250_381EEbNS_8QuantityIT_T0_EET1_(i32 %q.coerce) #0 comdat !dbg !107 {
entry:
  %q = alloca %"class.au::Quantity", align 4
  %target_unit = alloca %struct.VU_m_1250_381, align 1
  %agg.tmp = alloca %"class.au::Quantity", align 4
  %agg.tmp1 = alloca %struct.VU_m_1250_381, align 1
  %agg.tmp3 = alloca %"class.au::Quantity", align 4
  %agg.tmp4 = alloca %struct.VU_m_1250_381, align 1
  %coerce.dive = getelementptr inbounds %"class.au::Quantity", %"class.au::Quantity"* %q, i32 0, i32 0
  store i32 %q.coerce, i32* %coerce.dive, align 4
  %0 = bitcast %"class.au::Quantity"* %agg.tmp to i8*, !dbg !108
  %1 = bitcast %"class.au::Quantity"* %q to i8*, !dbg !108
  call void @llvm.memcpy.p0i8.p0i8.i64(i8* align 4 %0, i8* align 4 %1, i64 4, i1 false), !dbg !108
  %coerce.dive2 = getelementptr inbounds %"class.au::Quantity", %"class.au::Quantity"* %agg.tmp, i32 0, i32 0, !dbg !109
  %2 = load i32, i32* %coerce.dive2, align 4, !dbg !109
  %call = call noundef zeroext i1 @_ZN2au24will_conversion_truncateINS_6MetersEi13VU_m_1250_381EEbNS_8QuantityIT_T0_EET1_(i32 %2), !dbg !109
  br i1 %call, label %lor.end, label %lor.rhs, !dbg !110

lor.rhs:                                          ; preds = %entry
  %3 = bitcast %"class.au::Quantity"* %agg.tmp3 to i8*, !dbg !111
  %4 = bitcast %"class.au::Quantity"* %q to i8*, !dbg !111
  call void @llvm.memcpy.p0i8.p0i8.i64(i8* align 4 %3, i8* align 4 %4, i64 4, i1 false), !dbg !111
  %coerce.dive5 = getelementptr inbounds %"class.au::Quantity", %"class.au::Quantity"* %agg.tmp3, i32 0, i32 0, !dbg !112
  %5 = load i32, i32* %coerce.dive5, align 4, !dbg !112
  %call6 = call noundef zeroext i1 @_ZN2au24will_conversion_overflowINS_6MetersEi13VU_m_1250_381EEbNS_8QuantityIT_T0_EET1_(i32 %5), !dbg !112
  br label %lor.end, !dbg !110

lor.end:                                          ; preds = %lor.rhs, %entry
  %6 = phi i1 [ true, %entry ], [ %call6, %lor.rhs ]
  ret i1 %6, !dbg !113
}

; Function Attrs: mustprogress noinline nounwind uwtable
define linkonce_odr dso_local noundef zeroext i1 @_ZN2au6detail18ApplyMagnitudeImplINS_9MagnitudeIJNS_3PowINS_5PrimeILm2EEELl2EEENS4_ILm3EEEEEELNS0_7ApplyAsE0EiLb1EE14would_overflowERKi(i32* noundef nonnull align 4 dereferenceable(4) %x) #0 comdat align 2 !dbg !114 {
entry:
  %x.addr = alloca i32*, align 8
  %mag_value_result = alloca %"struct.au::detail::MagRepresentationOrError", align 4
  store i32* %x, i32** %x.addr, align 8
  %0 = bitcast %"struct.au::detail::MagRepresentationOrError"* %mag_value_result to i8*, !dbg !116
  call void @llvm.memcpy.p0i8.p0i8.i64(i8* align 4 %0, i8* align 4 bitcast (%"struct.au::detail::MagRepresentationOrError"* @__const._ZN2au6detail18ApplyMagnitudeImplINS_9MagnitudeIJNS_3PowINS_5PrimeILm2EEELl2EEENS4_ILm3EEEEEELNS0_7ApplyAsE0EiLb1EE14would_overflowERKi.mag_value_result to i8*), i64 8, i1 false), !dbg !116
  %1 = load i32*, i32** %x.addr, align 8, !dbg !117
  %2 = load i32, i32* %1, align 4, !dbg !117
  %call = call noundef zeroext i1 @_ZN2au6detail15OverflowCheckerIiLb1EE22would_product_overflowEii(i32 noundef %2, i32 noundef 12), !dbg !118
  ret i1 %call, !dbg !119
}

; Function Attrs: mustprogress noinline nounwind uwtable
define linkonce_odr dso_local noundef i32 @_ZNK2au8QuantityINS_6MetersEiE2inIS1_vEEiT_(%"class.au::Quantity"* noundef nonnull align 4 dereferenceable(4) %this) #0 comdat align 2 !dbg !120 {
entry:
  %u = alloca %"struct.au::Meters", align 1
  %this.addr = alloca %"class.au::Quantity"*, align 8
  store %"class.au::Quantity"* %this, %"class.au::Quantity"** %this.addr, align 8
  %this1 = load %"class.au::Quantity"*, %"class.au::Quantity"** %this.addr, align 8
  %value_ = getelementptr inbounds %"class.au::Quantity", %"class.au::Quantity"* %this1, i32 0, i32 0, !dbg !121
  %0 = load i32, i32* %value_, align 4, !dbg !121
  ret i32 %0, !dbg !122
}

; Function Attrs: argmemonly nofree nounwind willreturn
declare void @llvm.memcpy.p0i8.p0i8.i64(i8* noalias nocapture writeonly, i8* noalias nocapture readonly, i64, i1 immarg) #1

; Function Attrs: mustprogress noinline nounwind uwtable
define linkonce_odr dso_local noundef zeroext i1 @_ZN2au6detail15OverflowCheckerIiLb1EE22would_product_overflowEii(i32 noundef %x, i32 noundef %mag_value) #0 comdat align 2 !dbg !123 {
entry:
  %x.addr = alloca i32, align 4
  %mag_value.addr = alloca i32, align 4
  store i32 %x, i32* %x.addr, align 4
  store i32 %mag_value, i32* %mag_value.addr, align 4
  %0 = load i32, i32* %x.addr, align 4, !dbg !124
  %call = call noundef i32 @_ZNSt14numeric_limitsIiE3maxEv() #3, !dbg !125
  %1 = load i32, i32* %mag_value.addr, align 4, !dbg !126
  %div = sdiv i32 %call, %1, !dbg !127
  %cmp = icmp sgt i32 %0, %div, !dbg !128
  br i1 %cmp, label %lor.end, label %lor.rhs, !dbg !129

lor.rhs:                                          ; preds = %entry
  %2 = load i32, i32* %x.addr, align 4, !dbg !130
  %call1 = call noundef i32 @_ZNSt14numeric_limitsIiE6lowestEv() #3, !dbg !131
  %3 = load i32, i32* %mag_value.addr, align 4, !dbg !132
  %div2 = sdiv i32 %call1, %3, !dbg !133
  %cmp3 = icmp slt i32 %2, %div2, !dbg !134
  br label %lor.end, !dbg !129

lor.end:                                          ; preds = %lor.rhs, %entry
  %4 = phi i1 [ true, %entry ], [ %cmp3, %lor.rhs ]
  ret i1 %4, !dbg !135
}

; Function Attrs: mustprogress noinline nounwind uwtable
define linkonce_odr dso_local noundef i32 @_ZNSt14numeric_limitsIiE3maxEv() #0 comdat align 2 !dbg !136 {
entry:
  ret i32 2147483647, !dbg !138
}

; Function Attrs: mustprogress noinline nounwind uwtable
define linkonce_odr dso_local noundef i32 @_ZNSt14numeric_limitsIiE6lowestEv() #0 comdat align 2 !dbg !139 {
entry:
  %call = call noundef i32 @_ZNSt14numeric_limitsIiE3minEv() #3, !dbg !140
  ret i32 %call, !dbg !141
}

; Function Attrs: mustprogress noinline nounwind uwtable
define linkonce_odr dso_local noundef i32 @_ZNSt14numeric_limitsIiE3minEv() #0 comdat align 2 !dbg !142 {
entry:
  ret i32 -2147483648, !dbg !143
}

; Function Attrs: mustprogress noinline nounwind uwtable
define linkonce_odr dso_local i32 @_ZNK2au13QuantityMakerINS_6MetersEEclIiEENS_8QuantityIS1_T_EES5_(%"struct.au::QuantityMaker"* noundef nonnull align 1 dereferenceable(1) %this, i32 noundef %value) #0 comdat align 2 !dbg !144 {
entry:
  %retval = alloca %"class.au::Quantity", align 4
  %this.addr = alloca %"struct.au::QuantityMaker"*, align 8
  %value.addr = alloca i32, align 4
  store %"struct.au::QuantityMaker"* %this, %"struct.au::QuantityMaker"** %this.addr, align 8
  store i32 %value, i32* %value.addr, align 4
  %this1 = load %"struct.au::QuantityMaker"*, %"struct.au::QuantityMaker"** %this.addr, align 8
  %0 = load i32, i32* %value.addr, align 4, !dbg !145
  call void @_ZN2au8QuantityINS_6MetersEiEC2Ei(%"class.au::Quantity"* noundef nonnull align 4 dereferenceable(4) %retval, i32 noundef %0), !dbg !146
  %coerce.dive = getelementptr inbounds %"class.au::Quantity", %"class.au::Quantity"* %retval, i32 0, i32 0, !dbg !147
  %1 = load i32, i32* %coerce.dive, align 4, !dbg !147
  ret i32 %1, !dbg !147
}

; Function Attrs: noinline nounwind uwtable
define linkonce_odr dso_local void @_ZN2au8QuantityINS_6MetersEiEC2Ei(%"class.au::Quantity"* noundef nonnull align 4 dereferenceable(4) %this, i32 noundef %value) unnamed_addr #2 comdat align 2 !dbg !148 {
entry:
  %this.addr = alloca %"class.au::Quantity"*, align 8
  %value.addr = alloca i32, align 4
  store %"class.au::Quantity"* %this, %"class.au::Quantity"** %this.addr, align 8
  store i32 %value, i32* %value.addr, align 4
  %this1 = load %"class.au::Quantity"*, %"class.au::Quantity"** %this.addr, align 8
  %value_ = getelementptr inbounds %"class.au::Quantity", %"class.au::Quantity"* %this1, i32 0, i32 0, !dbg !149
  %0 = load i32, i32* %value.addr, align 4, !dbg !150
  store i32 %0, i32* %value_, align 4, !dbg !149
  ret void, !dbg !151
}

; Function Attrs: mustprogress noinline nounwind uwtable
define linkonce_odr dso_local noundef zeroext i1 @_ZN2au6detail18ApplyMagnitudeImplINS_9MagnitudeIJNS_3PowINS_5PrimeILm2EEELl2EEENS4_ILm3EEEEEELNS0_7ApplyAsE0EiLb1EE14would_truncateERKi(i32* noundef nonnull align 4 dereferenceable(4) %0) #0 comdat align 2 !dbg !152 {
entry:
  %.addr = alloca i32*, align 8
  store i32* %0, i32** %.addr, align 8
  ret i1 false, !dbg !153
}

; Function Attrs: mustprogress noinline nounwind uwtable
define linkonce_odr dso_local noundef zeroext i1 @_ZN2au6detail18ApplyMagnitudeImplINS_9MagnitudeIJNS_3PowINS_5PrimeILm2EEELln2EEENS3_INS4_ILm3EEELln1EEEEEELNS0_7ApplyAsE1EiLb1EE14would_overflowERKi(i32* noundef nonnull align 4 dereferenceable(4) %0) #0 comdat align 2 !dbg !154 {
entry:
  %.addr = alloca i32*, align 8
  store i32* %0, i32** %.addr, align 8
  ret i1 false, !dbg !155
}

; Function Attrs: mustprogress noinline nounwind uwtable
define linkonce_odr dso_local noundef zeroext i1 @_ZN2au6detail18ApplyMagnitudeImplINS_9MagnitudeIJNS_3PowINS_5PrimeILm2EEELln2EEENS3_INS4_ILm3EEELln1EEEEEELNS0_7ApplyAsE1EiLb1EE14would_truncateERKi(i32* noundef nonnull align 4 dereferenceable(4) %x) #0 comdat align 2 !dbg !156 {
entry:
  %x.addr = alloca i32*, align 8
  %mag_value_result = alloca %"struct.au::detail::MagRepresentationOrError", align 4
  store i32* %x, i32** %x.addr, align 8
  %0 = bitcast %"struct.au::detail::MagRepresentationOrError"* %mag_value_result to i8*, !dbg !157
  call void @llvm.memcpy.p0i8.p0i8.i64(i8* align 4 %0, i8* align 4 bitcast (%"struct.au::detail::MagRepresentationOrError"* @__const._ZN2au6detail18ApplyMagnitudeImplINS_9MagnitudeIJNS_3PowINS_5PrimeILm2EEELln2EEENS3_INS4_ILm3EEELln1EEEEEELNS0_7ApplyAsE1EiLb1EE14would_truncateERKi.mag_value_result to i8*), i64 8, i1 false), !dbg !157
  %1 = load i32*, i32** %x.addr, align 8, !dbg !158
  %2 = load i32, i32* %1, align 4, !dbg !158
  %call = call noundef zeroext i1 @_ZN2au6detail33TruncationCheckerIfMagnitudeValidIiLb1EE14would_truncateEii(i32 noundef %2, i32 noundef 12), !dbg !159
  ret i1 %call, !dbg !160
}

; Function Attrs: mustprogress noinline nounwind uwtable
define linkonce_odr dso_local noundef zeroext i1 @_ZN2au6detail33TruncationCheckerIfMagnitudeValidIiLb1EE14would_truncateEii(i32 noundef %x, i32 noundef %mag_value) #0 comdat align 2 !dbg !161 {
entry:
  %x.addr = alloca i32, align 4
  %mag_value.addr = alloca i32, align 4
  store i32 %x, i32* %x.addr, align 4
  store i32 %mag_value, i32* %mag_value.addr, align 4
  %0 = load i32, i32* %x.addr, align 4, !dbg !162
  %1 = load i32, i32* %mag_value.addr, align 4, !dbg !163
  %rem = srem i32 %0, %1, !dbg !164
  %cmp = icmp ne i32 %rem, 0, !dbg !165
  ret i1 %cmp, !dbg !166
}

; Function Attrs: mustprogress noinline nounwind uwtable
define linkonce_odr dso_local noundef zeroext i1 @_ZN2au6detail18ApplyMagnitudeImplINS_9MagnitudeIJNS_5PrimeILm2EEENS_3PowINS3_ILm3EEELln1EEENS5_INS3_ILm5EEELl4EEENS5_INS3_ILm127EEELln1EEEEEELNS0_7ApplyAsE2EiLb1EE14would_overflowERKi(i32* noundef nonnull align 4 dereferenceable(4) %x) #0 comdat align 2 !dbg !167 {
entry:
  %x.addr = alloca i32*, align 8
  store i32* %x, i32** %x.addr, align 8
  %0 = load i32*, i32** %x.addr, align 8, !dbg !168
  %call = call noundef zeroext i1 @_ZN2au6detail23RationalOverflowCheckerIiNS_9MagnitudeIJNS_5PrimeILm2EEENS_3PowINS3_ILm3EEELln1EEENS5_INS3_ILm5EEELl4EEENS5_INS3_ILm127EEELln1EEEEEELb1EE14would_overflowERKi(i32* noundef nonnull align 4 dereferenceable(4) %0), !dbg !169
  ret i1 %call, !dbg !170
}

; Function Attrs: mustprogress noinline nounwind uwtable
define linkonce_odr dso_local noundef zeroext i1 @_ZN2au6detail23RationalOverflowCheckerIiNS_9MagnitudeIJNS_5PrimeILm2EEENS_3PowINS3_ILm3EEELln1EEENS5_INS3_ILm5EEELl4EEENS5_INS3_ILm127EEELln1EEEEEELb1EE14would_overflowERKi(i32* noundef nonnull align 4 dereferenceable(4) %x) #0 comdat align 2 !dbg !171 {
entry:
  %x.addr = alloca i32*, align 8
  %safe = alloca i8, align 1
  store i32* %x, i32** %x.addr, align 8
  %0 = load i32*, i32** %x.addr, align 8, !dbg !172
  %1 = load i32, i32* %0, align 4, !dbg !172
  %call = call noundef i32 @_ZN2au6detail37MaxNonOverflowingValueImplWhenNumFitsIiNS_9MagnitudeIJNS_5PrimeILm2EEENS_3PowINS3_ILm3EEELln1EEENS5_INS3_ILm5EEELl4EEENS5_INS3_ILm127EEELln1EEEEEELb0EE5valueEv(), !dbg !173
  %cmp = icmp sle i32 %1, %call, !dbg !174
  br i1 %cmp, label %land.rhs, label %land.end, !dbg !175

land.rhs:                                         ; preds = %entry
  %2 = load i32*, i32** %x.addr, align 8, !dbg !176
  %3 = load i32, i32* %2, align 4, !dbg !176
  %call1 = call noundef i32 @_ZN2au6detail37MinNonOverflowingValueImplWhenNumFitsIiNS_9MagnitudeIJNS_5PrimeILm2EEENS_3PowINS3_ILm3EEELln1EEENS5_INS3_ILm5EEELl4EEENS5_INS3_ILm127EEELln1EEEEEELb0EE5valueEv(), !dbg !177
  %cmp2 = icmp sge i32 %3, %call1, !dbg !178
  br label %land.end

land.end:                                         ; preds = %land.rhs, %entry
  %4 = phi i1 [ false, %entry ], [ %cmp2, %land.rhs ], !dbg !179
  %frombool = zext i1 %4 to i8, !dbg !180
  store i8 %frombool, i8* %safe, align 1, !dbg !180
  %5 = load i8, i8* %safe, align 1, !dbg !181
  %tobool = trunc i8 %5 to i1, !dbg !181
  %lnot = xor i1 %tobool, true, !dbg !182
  ret i1 %lnot, !dbg !183
}

; Function Attrs: mustprogress noinline nounwind uwtable
define linkonce_odr dso_local noundef i32 @_ZN2au6detail37MaxNonOverflowingValueImplWhenNumFitsIiNS_9MagnitudeIJNS_5PrimeILm2EEENS_3PowINS3_ILm3EEELln1EEENS5_INS3_ILm5EEELl4EEENS5_INS3_ILm127EEELln1EEEEEELb0EE5valueEv() #0 comdat align 2 !dbg !184 {
entry:
  %num = alloca i32, align 4
  %den = alloca i32, align 4
  %t_max = alloca i32, align 4
  %p_max = alloca i32, align 4
  %limit_to_avoid = alloca i32, align 4
  store i32 1250, i32* %num, align 4, !dbg !186
  store i32 381, i32* %den, align 4, !dbg !187
  store i32 2147483647, i32* %t_max, align 4, !dbg !188
  store i32 2147483647, i32* %p_max, align 4, !dbg !189
  store i32 2147483647, i32* %limit_to_avoid, align 4, !dbg !190
  %call = call noundef i32 @_ZN2au6detail17clamp_to_range_ofIiiEET_T0_(i32 noundef 1717986), !dbg !191
  ret i32 %call, !dbg !192
}

; Function Attrs: mustprogress noinline nounwind uwtable
define linkonce_odr dso_local noundef i32 @_ZN2au6detail37MinNonOverflowingValueImplWhenNumFitsIiNS_9MagnitudeIJNS_5PrimeILm2EEENS_3PowINS3_ILm3EEELln1EEENS5_INS3_ILm5EEELl4EEENS5_INS3_ILm127EEELln1EEEEEELb0EE5valueEv() #0 comdat align 2 !dbg !193 {
entry:
  %num = alloca i32, align 4
  %den = alloca i32, align 4
  %t_min = alloca i32, align 4
  %p_min = alloca i32, align 4
  %limit_to_avoid = alloca i32, align 4
  store i32 1250, i32* %num, align 4, !dbg !194
  store i32 381, i32* %den, align 4, !dbg !195
  store i32 -2147483648, i32* %t_min, align 4, !dbg !196
  store i32 -2147483648, i32* %p_min, align 4, !dbg !197
  store i32 -2147483648, i32* %limit_to_avoid, align 4, !dbg !198
  %call = call noundef i32 @_ZN2au6detail17clamp_to_range_ofIiiEET_T0_(i32 noundef -1717986), !dbg !199
  ret i32 %call, !dbg !200
}

; Function Attrs: mustprogress noinline nounwind uwtable
define linkonce_odr dso_local noundef i32 @_ZN2au6detail17clamp_to_range_ofIiiEET_T0_(i32 noundef %x) #0 comdat !dbg !201 {
entry:
  %x.addr = alloca i32, align 4
  store i32 %x, i32* %x.addr, align 4
  %0 = load i32, i32* %x.addr, align 4, !dbg !202
  %call = call noundef i32 @_ZNSt14numeric_limitsIiE3maxEv() #3, !dbg !203
  %call1 = call noundef zeroext i1 @_ZN2au4stdx11cmp_greaterIiiEEbT_T0_(i32 noundef %0, i32 noundef %call) #3, !dbg !204
  br i1 %call1, label %cond.true, label %cond.false, !dbg !204

cond.true:                                        ; preds = %entry
  %call2 = call noundef i32 @_ZNSt14numeric_limitsIiE3maxEv() #3, !dbg !205
  br label %cond.end8, !dbg !204

cond.false:                                       ; preds = %entry
  %1 = load i32, i32* %x.addr, align 4, !dbg !206
  %call3 = call noundef i32 @_ZNSt14numeric_limitsIiE6lowestEv() #3, !dbg !207
  %call4 = call noundef zeroext i1 @_ZN2au4stdx8cmp_lessIiiEEbT_T0_(i32 noundef %1, i32 noundef %call3) #3, !dbg !208
  br i1 %call4, label %cond.true5, label %cond.false7, !dbg !208

cond.true5:                                       ; preds = %cond.false
  %call6 = call noundef i32 @_ZNSt14numeric_limitsIiE6lowestEv() #3, !dbg !209
  br label %cond.end, !dbg !208

cond.false7:                                      ; preds = %cond.false
  %2 = load i32, i32* %x.addr, align 4, !dbg !210
  br label %cond.end, !dbg !208

cond.end:                                         ; preds = %cond.false7, %cond.true5
  %cond = phi i32 [ %call6, %cond.true5 ], [ %2, %cond.false7 ], !dbg !208
  br label %cond.end8, !dbg !204

cond.end8:                                        ; preds = %cond.end, %cond.true
  %cond9 = phi i32 [ %call2, %cond.true ], [ %cond, %cond.end ], !dbg !204
  ret i32 %cond9, !dbg !211
}

; Function Attrs: mustprogress noinline nounwind uwtable
define linkonce_odr dso_local noundef zeroext i1 @_ZN2au4stdx11cmp_greaterIiiEEbT_T0_(i32 noundef %t, i32 noundef %u) #0 comdat !dbg !212 {
entry:
  %t.addr = alloca i32, align 4
  %u.addr = alloca i32, align 4
  store i32 %t, i32* %t.addr, align 4
  store i32 %u, i32* %u.addr, align 4
  %0 = load i32, i32* %u.addr, align 4, !dbg !214
  %1 = load i32, i32* %t.addr, align 4, !dbg !215
  %call = call noundef zeroext i1 @_ZN2au4stdx8cmp_lessIiiEEbT_T0_(i32 noundef %0, i32 noundef %1) #3, !dbg !216
  ret i1 %call, !dbg !217
}

; Function Attrs: mustprogress noinline nounwind uwtable
define linkonce_odr dso_local noundef zeroext i1 @_ZN2au4stdx8cmp_lessIiiEEbT_T0_(i32 noundef %t, i32 noundef %u) #0 comdat !dbg !218 {
entry:
  %t.addr = alloca i32, align 4
  %u.addr = alloca i32, align 4
  %ref.tmp = alloca %"struct.au::stdx::CmpLessImpl", align 1
  store i32 %t, i32* %t.addr, align 4
  store i32 %u, i32* %u.addr, align 4
  %0 = load i32, i32* %t.addr, align 4, !dbg !219
  %1 = load i32, i32* %u.addr, align 4, !dbg !220
  %call = call noundef zeroext i1 @_ZN2au4stdx11CmpLessImplIiivEclEii(%"struct.au::stdx::CmpLessImpl"* noundef nonnull align 1 dereferenceable(1) %ref.tmp, i32 noundef %0, i32 noundef %1), !dbg !221
  ret i1 %call, !dbg !222
}

; Function Attrs: mustprogress noinline nounwind uwtable
define linkonce_odr dso_local noundef zeroext i1 @_ZN2au4stdx11CmpLessImplIiivEclEii(%"struct.au::stdx::CmpLessImpl"* noundef nonnull align 1 dereferenceable(1) %this, i32 noundef %t, i32 noundef %u) #0 comdat align 2 !dbg !223 {
entry:
  %this.addr = alloca %"struct.au::stdx::CmpLessImpl"*, align 8
  %t.addr = alloca i32, align 4
  %u.addr = alloca i32, align 4
  store %"struct.au::stdx::CmpLessImpl"* %this, %"struct.au::stdx::CmpLessImpl"** %this.addr, align 8
  store i32 %t, i32* %t.addr, align 4
  store i32 %u, i32* %u.addr, align 4
  %this1 = load %"struct.au::stdx::CmpLessImpl"*, %"struct.au::stdx::CmpLessImpl"** %this.addr, align 8
  %0 = load i32, i32* %t.addr, align 4, !dbg !224
  %1 = load i32, i32* %u.addr, align 4, !dbg !225
  %cmp = icmp slt i32 %0, %1, !dbg !226
  ret i1 %cmp, !dbg !227
}

; Function Attrs: mustprogress noinline nounwind uwtable
define linkonce_odr dso_local noundef zeroext i1 @_ZN2au6detail18ApplyMagnitudeImplINS_9MagnitudeIJNS_5PrimeILm2EEENS_3PowINS3_ILm3EEELln1EEENS5_INS3_ILm5EEELl4EEENS5_INS3_ILm127EEELln1EEEEEELNS0_7ApplyAsE2EiLb1EE14would_truncateERKi(i32* noundef nonnull align 4 dereferenceable(4) %x) #0 comdat align 2 !dbg !228 {
entry:
  %x.addr = alloca i32*, align 8
  %mag_value_result = alloca %"struct.au::detail::MagRepresentationOrError", align 4
  store i32* %x, i32** %x.addr, align 8
  %0 = bitcast %"struct.au::detail::MagRepresentationOrError"* %mag_value_result to i8*, !dbg !229
  call void @llvm.memcpy.p0i8.p0i8.i64(i8* align 4 %0, i8* align 4 bitcast (%"struct.au::detail::MagRepresentationOrError"* @__const._ZN2au6detail18ApplyMagnitudeImplINS_9MagnitudeIJNS_5PrimeILm2EEENS_3PowINS3_ILm3EEELln1EEENS5_INS3_ILm5EEELl4EEENS5_INS3_ILm127EEELln1EEEEEELNS0_7ApplyAsE2EiLb1EE14would_truncateERKi.mag_value_result to i8*), i64 8, i1 false), !dbg !229
  %1 = load i32*, i32** %x.addr, align 8, !dbg !230
  %2 = load i32, i32* %1, align 4, !dbg !230
  %call = call noundef zeroext i1 @_ZN2au6detail33TruncationCheckerIfMagnitudeValidIiLb1EE14would_truncateEii(i32 noundef %2, i32 noundef 381), !dbg !231
  ret i1 %call, !dbg !232
}

attributes #0 = { mustprogress noinline nounwind uwtable "frame-pointer"="all" "min-legal-vector-width"="0" "no-trapping-math"="true" "stack-protector-buffer-size"="8" "target-cpu"="x86-64" "target-features"="+cx8,+fxsr,+mmx,+sse,+sse2,+x87" "tune-cpu"="generic" }
attributes #1 = { argmemonly nofree nounwind willreturn }
attributes #2 = { noinline nounwind uwtable "frame-pointer"="all" "min-legal-vector-width"="0" "no-trapping-math"="true" "stack-protector-buffer-size"="8" "target-cpu"="x86-64" "target-features"="+cx8,+fxsr,+mmx,+sse,+sse2,+x87" "tune-cpu"="generic" }
attributes #3 = { nounwind }

!llvm.dbg.cu = !{!0}
!llvm.module.flags = !{!2, !3, !4, !5, !6, !7, !8}
!llvm.ident = !{!9}

!0 = distinct !DICompileUnit(language: DW_LANG_C_plus_plus_14, file: !1, producer: "Debian clang version 14.0.6", isOptimized: false, runtimeVersion: 0, emissionKind: LineTablesOnly, splitDebugInlining: false, nameTableKind: None)
!1 = !DIFile(filename: "/verif/.work/C04-9806/C04.i32_cxx14_0.cc", directory: "/verif", checksumkind: CSK_MD5, checksum: "9bf9db64be2f7049ad6c7aa03619c90c")
!2 = !{i32 7, !"Dwarf Version", i32 5}
!3 = !{i32 2, !"Debug Info Version", i32 3}
!4 = !{i32 1, !"wchar_size", i32 4}
!5 = !{i32 7, !"PIC Level", i32 2}
!6 = !{i32 7, !"PIE Level", i32 2}
!7 = !{i32 7, !"uwtable", i32 1}
!8 = !{i32 7, !"frame-pointer", i32 2}
!9 = !{!"Debian clang version 14.0.6"}
!10 = distinct !DISubprogram(name: "w_ovf_i32_12_1", scope: !11, file: !11, line: 11, type: !12, scopeLine: 11, flags: DIFlagPrototyped, spFlags: DISPFlagDefinition, unit: !0, retainedNodes: !13)
!11 = !DIFile(filename: ".work/C04-9806/C04.i32_cxx14_0.cc", directory: "/verif", checksumkind: CSK_MD5, checksum: "9bf9db64be2f7049ad6c7aa03619c90c")
!12 = !DISubroutineType(types: !13)
!13 = !{}
!14 = !DILocation(line: 11, column: 111, scope: !10)
!15 = !DILocation(line: 11, column: 81, scope: !10)
!16 = !DILocation(line: 11, column: 52, scope: !10)
!17 = !DILocation(line: 11, column: 45, scope: !10)
!18 = distinct !DISubprogram(name: "will_conversion_overflow<au::Meters, int, VU_m_12_1>", scope: !19, file: !19, line: 633, type: !12, scopeLine: 633, flags: DIFlagPrototyped, spFlags: DISPFlagDefinition, unit: !0, retainedNodes: !13)
!19 = !DIFile(filename: "/repo/au/code/au/quantity.hh", directory: "", checksumkind: CSK_MD5, checksum: "7052e010bf8752780b32a3054bdf3cc5")
!20 = !DILocation(line: 635, column: 11, scope: !18)
!21 = !DILocation(line: 635, column: 9, scope: !18)
!22 = !DILocation(line: 634, column: 12, scope: !18)
!23 = !DILocation(line: 634, column: 5, scope: !18)
!24 = distinct !DISubprogram(name: "make_quantity<au::Meters, int>", scope: !19, file: !19, line: 36, type: !12, scopeLine: 36, flags: DIFlagPrototyped, spFlags: DISPFlagDefinition, unit: !0, retainedNodes: !13)
!25 = !DILocation(line: 37, column: 35, scope: !24)
!26 = !DILocation(line: 37, column: 12, scope: !24)
!27 = !DILocation(line: 37, column: 5, scope: !24)
!28 = distinct !DISubprogram(name: "w_trunc_i32_12_1", scope: !11, file: !11, line: 12, type: !12, scopeLine: 12, flags: DIFlagPrototyped, spFlags: DISPFlagDefinition, unit: !0, retainedNodes: !13)
!29 = !DILocation(line: 12, column: 113, scope: !28)
!30 = !DILocation(line: 12, column: 83, scope: !28)
!31 = !DILocation(line: 12, column: 54, scope: !28)
!32 = !DILocation(line: 12, column: 47, scope: !28)
!33 = distinct !DISubprogram(name: "will_conversion_truncate<au::Meters, int, VU_m_12_1>", scope: !19, file: !19, line: 660, type: !12, scopeLine: 660, flags: DIFlagPrototyped, spFlags: DISPFlagDefinition, unit: !0, retainedNodes: !13)
!34 = !DILocation(line: 662, column: 11, scope: !33)
!35 = !DILocation(line: 662, column: 9, scope: !33)
!36 = !DILocation(line: 661, column: 12, scope: !33)
!37 = !DILocation(line: 661, column: 5, scope: !33)
!38 = distinct !DISubprogram(name: "w_lossy_i32_12_1", scope: !11, file: !11, line: 13, type: !12, scopeLine: 13, flags: DIFlagPrototyped, spFlags: DISPFlagDefinition, unit: !0, retainedNodes: !13)
!39 = !DILocation(line: 13, column: 108, scope: !38)
!40 = !DILocation(line: 13, column: 78, scope: !38)
!41 = !DILocation(line: 13, column: 54, scope: !38)
!42 = !DILocation(line: 13, column: 47, scope: !38)
!43 = distinct !DISubprogram(name: "is_conversion_lossy<au::Meters, int, VU_m_12_1>", scope: !19, file: !19, line: 684, type: !12, scopeLine: 684, flags: DIFlagPrototyped, spFlags: DISPFlagDefinition, unit: !0, retainedNodes: !13)
!44 = !DILocation(line: 685, column: 37, scope: !43)
!45 = !DILocation(line: 685, column: 12, scope: !43)
!46 = !DILocation(line: 685, column: 53, scope: !43)
!47 = !DILocation(line: 685, column: 81, scope: !43)
!48 = !DILocation(line: 685, column: 56, scope: !43)
!49 = !DILocation(line: 685, column: 5, scope: !43)
!50 = distinct !DISubprogram(name: "w_ovf_i32_1_12", scope: !11, file: !11, line: 14, type: !12, scopeLine: 14, flags: DIFlagPrototyped, spFlags: DISPFlagDefinition, unit: !0, retainedNodes: !13)
!51 = !DILocation(line: 14, column: 111, scope: !50)
!52 = !DILocation(line: 14, column: 81, scope: !50)
!53 = !DILocation(line: 14, column: 52, scope: !50)
!54 = !DILocation(line: 14, column: 45, scope: !50)
!55 = distinct !DISubprogram(name: "will_conversion_overflow<au::Meters, int, VU_m_1_12>", scope: !19, file: !19, line: 633, type: !12, scopeLine: 633, flags: DIFlagPrototyped, spFlags: DISPFlagDefinition, unit: !0, retainedNodes: !13)
!56 = !DILocation(line: 635, column: 11, scope: !55)
!57 = !DILocation(line: 635, column: 9, scope: !55)
!58 = !DILocation(line: 634, column: 12, scope: !55)
!59 = !DILocation(line: 634, column: 5, scope: !55)
!60 = distinct !DISubprogram(name: "w_trunc_i32_1_12", scope: !11, file: !11, line: 15, type: !12, scopeLine: 15, flags: DIFlagPrototyped, spFlags: DISPFlagDefinition, unit: !0, retainedNodes: !13)
!61 = !DILocation(line: 15, column: 113, scope: !60)
!62 = !DILocation(line: 15, column: 83, scope: !60)
!63 = !DILocation(line: 15, column: 54, scope: !60)
!64 = !DILocation(line: 15, column: 47, scope: !60)
!65 = distinct !DISubprogram(name: "will_conversion_truncate<au::Meters, int, VU_m_1_12>", scope: !19, file: !19, line: 660, type: !12, scopeLine: 660, flags: DIFlagPrototyped, spFlags: DISPFlagDefinition, unit: !0, retainedNodes: !13)
!66 = !DILocation(line: 662, column: 11, scope: !65)
!67 = !DILocation(line: 662, column: 9, scope: !65)
!68 = !DILocation(line: 661, column: 12, scope: !65)
!69 = !DILocation(line: 661, column: 5, scope: !65)
!70 = distinct !DISubprogram(name: "w_lossy_i32_1_12", scope: !11, file: !11, line: 16, type: !12, scopeLine: 16, flags: DIFlagPrototyped, spFlags: DISPFlagDefinition, unit: !0, retainedNodes: !13)
!71 = !DILocation(line: 16, column: 108, scope: !70)
!72 = !DILocation(line: 16, column: 78, scope: !70)
!73 = !DILocation(line: 16, column: 54, scope: !70)
!74 = !DILocation(line: 16, column: 47, scope: !70)
!75 = distinct !DISubprogram(name: "is_conversion_lossy<au::Meters, int, VU_m_1_12>", scope: !19, file: !19, line: 684, type: !12, scopeLine: 684, flags: DIFlagPrototyped, spFlags: DISPFlagDefinition, unit: !0, retainedNodes: !13)
!76 = !DILocation(line: 685, column: 37, scope: !75)
!77 = !DILocation(line: 685, column: 12, scope: !75)
!78 = !DILocation(line: 685, column: 53, scope: !75)
!79 = !DILocation(line: 685, column: 81, scope: !75)
!80 = !DILocation(line: 685, column: 56, scope: !75)
!81 = !DILocation(line: 685, column: 5, scope: !75)
!82 = distinct !DISubprogram(name: "w_ovf_i32_1250_381", scope: !11, file: !11, line: 17, type: !12, scopeLine: 17, flags: DIFlagPrototyped, spFlags: DISPFlagDefinition, unit: !0, retainedNodes: !13)
!83 = !DILocation(line: 17, column: 115, scope: !82)
!84 = !DILocation(line: 17, column: 85, scope: !82)
!85 = !DILocation(line: 17, column: 56, scope: !82)
!86 = !DILocation(line: 17, column: 49, scope: !82)
!87 = distinct !DISubprogram(name: "will_conversion_overflow<au::Meters, int, VU_m_1250_381>", scope: !19, file: !19, line: 633, type: !12, scopeLine: 633, flags: DIFlagPrototyped, spFlags: DISPFlagDefinition, unit: !0, retainedNodes: !13)
!88 = !DILocation(line: 635, column: 11, scope: !87)
!89 = !DILocation(line: 635, column: 9, scope: !87)
!90 = !DILocation(line: 634, column: 12, scope: !87)
!91 = !DILocation(line: 634, column: 5, scope: !87)
!92 = distinct !DISubprogram(name: "w_trunc_i32_1250_381", scope: !11, file: !11, line: 18, type: !12, scopeLine: 18, flags: DIFlagPrototyped, spFlags: DISPFlagDefinition, unit: !0, retainedNodes: !13)
!93 = !DILocation(line: 18, column: 117, scope: !92)
!94 = !DILocation(line: 18, column: 87, scope: !92)
!95 = !DILocation(line: 18, column: 58, scope: !92)
!96 = !DILocation(line: 18, column: 51, scope: !92)
!97 = distinct !DISubprogram(name: "will_conversion_truncate<au::Meters, int, VU_m_1250_381>", scope: !19, file: !19, line: 660, type: !12, scopeLine: 660, flags: DIFlagPrototyped, spFlags: DISPFlagDefinition, unit: !0, retainedNodes: !13)
!98 = !DILocation(line: 662, column: 11, scope: !97)
!99 = !DILocation(line: 662, column: 9, scope: !97)
!100 = !DILocation(line: 661, column: 12, scope: !97)
!101 = !DILocation(line: 661, column: 5, scope: !97)
!102 = distinct !DISubprogram(name: "w_lossy_i32_1250_381", scope: !11, file: !11, line: 19, type: !12, scopeLine: 19, flags: DIFlagPrototyped, spFlags: DISPFlagDefinition, unit: !0, retainedNodes: !13)
!103 = !DILocation(line: 19, column: 112, scope: !102)
!104 = !DILocation(line: 19, column: 82, scope: !102)
!105 = !DILocation(line: 19, column: 58, scope: !102)
!106 = !DILocation(line: 19, column: 51, scope: !102)
!107 = distinct !DISubprogram(name: "is_conversion_lossy<au::Meters, int, VU_m_1250_381>", scope: !19, file: !19, line: 684, type: !12, scopeLine: 684, flags: DIFlagPrototyped, spFlags: DISPFlagDefinition, unit: !0, retainedNodes: !13)
!108 = !DILocation(line: 685, column: 37, scope: !107)
!109 = !DILocation(line: 685, column: 12, scope: !107)
!110 = !DILocation(line: 685, column: 53, scope: !107)
!111 = !DILocation(line: 685, column: 81, scope: !107)
!112 = !DILocation(line: 685, column: 56, scope: !107)
!113 = !DILocation(line: 685, column: 5, scope: !107)
!114 = distinct !DISubprogram(name: "would_overflow", scope: !115, file: !115, line: 108, type: !12, scopeLine: 108, flags: DIFlagPrototyped, spFlags: DISPFlagDefinition, unit: !0, retainedNodes: !13)
!115 = !DIFile(filename: "/repo/au/code/au/apply_magnitude.hh", directory: "", checksumkind: CSK_MD5, checksum: "bbef979eb84f89c87c767362e08b52a0")
!116 = !DILocation(line: 109, column: 24, scope: !114)
!117 = !DILocation(line: 111, column: 36, scope: !114)
!118 = !DILocation(line: 110, column: 16, scope: !114)
!119 = !DILocation(line: 110, column: 9, scope: !114)
!120 = distinct !DISubprogram(name: "in<au::Meters, void>", scope: !19, file: !19, line: 184, type: !12, scopeLine: 184, flags: DIFlagPrototyped, spFlags: DISPFlagDefinition, unit: !0, retainedNodes: !13)
!121 = !DILocation(line: 186, column: 20, scope: !120)
!122 = !DILocation(line: 186, column: 13, scope: !120)
!123 = distinct !DISubprogram(name: "would_product_overflow", scope: !115, file: !115, line: 51, type: !12, scopeLine: 51, flags: DIFlagPrototyped, spFlags: DISPFlagDefinition, unit: !0, retainedNodes: !13)
!124 = !DILocation(line: 52, column: 17, scope: !123)
!125 = !DILocation(line: 52, column: 22, scope: !123)
!126 = !DILocation(line: 52, column: 54, scope: !123)
!127 = !DILocation(line: 52, column: 52, scope: !123)
!128 = !DILocation(line: 52, column: 19, scope: !123)
!129 = !DILocation(line: 52, column: 66, scope: !123)
!130 = !DILocation(line: 53, column: 17, scope: !123)
!131 = !DILocation(line: 53, column: 22, scope: !123)
!132 = !DILocation(line: 53, column: 57, scope: !123)
!133 = !DILocation(line: 53, column: 55, scope: !123)
!134 = !DILocation(line: 53, column: 19, scope: !123)
!135 = !DILocation(line: 52, column: 9, scope: !123)
!136 = distinct !DISubprogram(name: "max", scope: !137, file: !137, line: 1068, type: !12, scopeLine: 1068, flags: DIFlagPrototyped, spFlags: DISPFlagDefinition, unit: !0, retainedNodes: !13)
!137 = !DIFile(filename: "/usr/bin/../lib/gcc/x86_64-linux-gnu/12/../../../../include/c++/12/limits", directory: "")
!138 = !DILocation(line: 1068, column: 37, scope: !136)
!139 = distinct !DISubprogram(name: "lowest", scope: !137, file: !137, line: 1072, type: !12, scopeLine: 1072, flags: DIFlagPrototyped, spFlags: DISPFlagDefinition, unit: !0, retainedNodes: !13)
!140 = !DILocation(line: 1072, column: 34, scope: !139)
!141 = !DILocation(line: 1072, column: 27, scope: !139)
!142 = distinct !DISubprogram(name: "min", scope: !137, file: !137, line: 1065, type: !12, scopeLine: 1065, flags: DIFlagPrototyped, spFlags: DISPFlagDefinition, unit: !0, retainedNodes: !13)
!143 = !DILocation(line: 1065, column: 37, scope: !142)
!144 = distinct !DISubprogram(name: "operator()<int>", scope: !19, file: !19, line: 568, type: !12, scopeLine: 568, flags: DIFlagPrototyped, spFlags: DISPFlagDefinition, unit: !0, retainedNodes: !13)
!145 = !DILocation(line: 569, column: 17, scope: !144)
!146 = !DILocation(line: 569, column: 16, scope: !144)
!147 = !DILocation(line: 569, column: 9, scope: !144)
!148 = distinct !DISubprogram(name: "Quantity", scope: !19, file: !19, line: 422, type: !12, scopeLine: 422, flags: DIFlagPrototyped, spFlags: DISPFlagDefinition, unit: !0, retainedNodes: !13)
!149 = !DILocation(line: 422, column: 37, scope: !148)
!150 = !DILocation(line: 422, column: 44, scope: !148)
!151 = !DILocation(line: 422, column: 52, scope: !148)
!152 = distinct !DISubprogram(name: "would_truncate", scope: !115, file: !115, line: 114, type: !12, scopeLine: 114, flags: DIFlagPrototyped, spFlags: DISPFlagDefinition, unit: !0, retainedNodes: !13)
!153 = !DILocation(line: 114, column: 55, scope: !152)
!154 = distinct !DISubprogram(name: "would_overflow", scope: !115, file: !115, line: 127, type: !12, scopeLine: 127, flags: DIFlagPrototyped, spFlags: DISPFlagDefinition, unit: !0, retainedNodes: !13)
!155 = !DILocation(line: 127, column: 55, scope: !154)
!156 = distinct !DISubprogram(name: "would_truncate", scope: !115, file: !115, line: 129, type: !12, scopeLine: 129, flags: DIFlagPrototyped, spFlags: DISPFlagDefinition, unit: !0, retainedNodes: !13)
!157 = !DILocation(line: 130, column: 24, scope: !156)
!158 = !DILocation(line: 132, column: 28, scope: !156)
!159 = !DILocation(line: 131, column: 16, scope: !156)
!160 = !DILocation(line: 131, column: 9, scope: !156)
!161 = distinct !DISubprogram(name: "would_truncate", scope: !115, file: !115, line: 72, type: !12, scopeLine: 72, flags: DIFlagPrototyped, spFlags: DISPFlagDefinition, unit: !0, retainedNodes: !13)
!162 = !DILocation(line: 72, column: 70, scope: !161)
!163 = !DILocation(line: 72, column: 74, scope: !161)
!164 = !DILocation(line: 72, column: 72, scope: !161)
!165 = !DILocation(line: 72, column: 84, scope: !161)
!166 = !DILocation(line: 72, column: 62, scope: !161)
!167 = distinct !DISubprogram(name: "would_overflow", scope: !115, file: !115, line: 172, type: !12, scopeLine: 172, flags: DIFlagPrototyped, spFlags: DISPFlagDefinition, unit: !0, retainedNodes: !13)
!168 = !DILocation(line: 173, column: 90, scope: !167)
!169 = !DILocation(line: 173, column: 16, scope: !167)
!170 = !DILocation(line: 173, column: 9, scope: !167)
!171 = distinct !DISubprogram(name: "would_overflow", scope: !115, file: !115, line: 140, type: !12, scopeLine: 140, flags: DIFlagPrototyped, spFlags: DISPFlagDefinition, unit: !0, retainedNodes: !13)
!172 = !DILocation(line: 143, column: 28, scope: !171)
!173 = !DILocation(line: 143, column: 33, scope: !171)
!174 = !DILocation(line: 143, column: 30, scope: !171)
!175 = !DILocation(line: 143, column: 74, scope: !171)
!176 = !DILocation(line: 144, column: 28, scope: !171)
!177 = !DILocation(line: 144, column: 33, scope: !171)
!178 = !DILocation(line: 144, column: 30, scope: !171)
!179 = !DILocation(line: 0, scope: !171)
!180 = !DILocation(line: 143, column: 20, scope: !171)
!181 = !DILocation(line: 145, column: 17, scope: !171)
!182 = !DILocation(line: 145, column: 16, scope: !171)
!183 = !DILocation(line: 145, column: 9, scope: !171)
!184 = distinct !DISubprogram(name: "value", scope: !185, file: !185, line: 132, type: !12, scopeLine: 132, flags: DIFlagPrototyped, spFlags: DISPFlagDefinition, unit: !0, retainedNodes: !13)
!185 = !DIFile(filename: "/repo/au/code/au/apply_rational_magnitude_to_integral.hh", directory: "", checksumkind: CSK_MD5, checksum: "9d5ab709c2fdf3cc701126aed6829df9")
!186 = !DILocation(line: 133, column: 24, scope: !184)
!187 = !DILocation(line: 134, column: 24, scope: !184)
!188 = !DILocation(line: 135, column: 24, scope: !184)
!189 = !DILocation(line: 136, column: 24, scope: !184)
!190 = !DILocation(line: 137, column: 24, scope: !184)
!191 = !DILocation(line: 138, column: 16, scope: !184)
!192 = !DILocation(line: 138, column: 9, scope: !184)
!193 = distinct !DISubprogram(name: "value", scope: !185, file: !185, line: 211, type: !12, scopeLine: 211, flags: DIFlagPrototyped, spFlags: DISPFlagDefinition, unit: !0, retainedNodes: !13)
!194 = !DILocation(line: 212, column: 24, scope: !193)
!195 = !DILocation(line: 213, column: 24, scope: !193)
!196 = !DILocation(line: 214, column: 24, scope: !193)
!197 = !DILocation(line: 215, column: 24, scope: !193)
!198 = !DILocation(line: 216, column: 24, scope: !193)
!199 = !DILocation(line: 217, column: 16, scope: !193)
!200 = !DILocation(line: 217, column: 9, scope: !193)
!201 = distinct !DISubprogram(name: "clamp_to_range_of<int, int>", scope: !185, file: !185, line: 63, type: !12, scopeLine: 63, flags: DIFlagPrototyped, spFlags: DISPFlagDefinition, unit: !0, retainedNodes: !13)
!202 = !DILocation(line: 64, column: 30, scope: !201)
!203 = !DILocation(line: 64, column: 33, scope: !201)
!204 = !DILocation(line: 64, column: 12, scope: !201)
!205 = !DILocation(line: 65, column: 18, scope: !201)
!206 = !DILocation(line: 66, column: 34, scope: !201)
!207 = !DILocation(line: 66, column: 37, scope: !201)
!208 = !DILocation(line: 66, column: 19, scope: !201)
!209 = !DILocation(line: 67, column: 25, scope: !201)
!210 = !DILocation(line: 68, column: 40, scope: !201)
!211 = !DILocation(line: 64, column: 5, scope: !201)
!212 = distinct !DISubprogram(name: "cmp_greater<int, int>", scope: !213, file: !213, line: 51, type: !12, scopeLine: 51, flags: DIFlagPrototyped, spFlags: DISPFlagDefinition, unit: !0, retainedNodes: !13)
!213 = !DIFile(filename: "/repo/au/code/au/stdx/utility.hh", directory: "", checksumkind: CSK_MD5, checksum: "8d41dfc1a98e85443b698de8cc464a88")
!214 = !DILocation(line: 52, column: 21, scope: !212)
!215 = !DILocation(line: 52, column: 24, scope: !212)
!216 = !DILocation(line: 52, column: 12, scope: !212)
!217 = !DILocation(line: 52, column: 5, scope: !212)
!218 = distinct !DISubprogram(name: "cmp_less<int, int>", scope: !213, file: !213, line: 45, type: !12, scopeLine: 45, flags: DIFlagPrototyped, spFlags: DISPFlagDefinition, unit: !0, retainedNodes: !13)
!219 = !DILocation(line: 46, column: 32, scope: !218)
!220 = !DILocation(line: 46, column: 35, scope: !218)
!221 = !DILocation(line: 46, column: 12, scope: !218)
!222 = !DILocation(line: 46, column: 5, scope: !218)
!223 = distinct !DISubprogram(name: "operator()", scope: !213, file: !213, line: 95, type: !12, scopeLine: 95, flags: DIFlagPrototyped, spFlags: DISPFlagDefinition, unit: !0, retainedNodes: !13)
!224 = !DILocation(line: 95, column: 50, scope: !223)
!225 = !DILocation(line: 95, column: 54, scope: !223)
!226 = !DILocation(line: 95, column: 52, scope: !223)
!227 = !DILocation(line: 95, column: 43, scope: !223)
!228 = distinct !DISubprogram(name: "would_truncate", scope: !115, file: !115, line: 176, type: !12, scopeLine: 176, flags: DIFlagPrototyped, spFlags: DISPFlagDefinition, unit: !0, retainedNodes: !13)
!229 = !DILocation(line: 177, column: 24, scope: !228)
!230 = !DILocation(line: 179, column: 28, scope: !228)
!231 = !DILocation(line: 178, column: 16, scope: !228)
!232 = !DILocation(line: 178, column: 9, scope: !228)
