// generated driver -- includes the real headers of /repo/au/code
#define AU_VERIF 1
#include <cstdint>
#include "au/au.hh"
#include "au/units/meters.hh"
using namespace au;

struct VU_m_12_1 : decltype(au::Meters{} * au::mag<1ULL>() / au::mag<12ULL>()) {};
struct VU_m_1_12 : decltype(au::Meters{} * au::mag<12ULL>() / au::mag<1ULL>()) {};
struct VU_m_1250_381 : decltype(au::Meters{} * au::mag<381ULL>() / au::mag<1250ULL>()) {};
extern "C" bool w_ovf_i32_12_1(int32_t x) { return au::will_conversion_overflow(au::make_quantity<au::Meters>(x), VU_m_12_1{}); }
extern "C" bool w_trunc_i32_12_1(int32_t x) { return au::will_conversion_truncate(au::make_quantity<au::Meters>(x), VU_m_12_1{}); }
extern "C" bool w_lossy_i32_12_1(int32_t x) { return au::is_conversion_lossy(au::make_quantity<au::Meters>(x), VU_m_12_1{}); }
extern "C" bool w_ovf_i32_1_12(int32_t x) { return au::will_conversion_overflow(au::make_quantity<au::Meters>(x), VU_m_1_12{}); }
extern "C" bool w_trunc_i32_1_12(int32_t x) { return au::will_conversion_truncate(au::make_quantity<au::Meters>(x), VU_m_1_12{}); }
extern "C" bool w_lossy_i32_1_12(int32_t x) { return au::is_conversion_lossy(au::make_quantity<au::Meters>(x), VU_m_1_12{}); }
extern "C" bool w_ovf_i32_1250_381(int32_t x) { return au::will_conversion_overflow(au::make_quantity<au::Meters>(x), VU_m_1250_381{}); }
extern "C" bool w_trunc_i32_1250_381(int32_t x) { return au::will_conversion_truncate(au::make_quantity<au::Meters>(x), VU_m_1250_381{}); }
extern "C" bool w_lossy_i32_1250_381(int32_t x) { return au::is_conversion_lossy(au::make_quantity<au::Meters>(x), VU_m_1250_381{}); }
